/-
Helper lemmas for the unit trace (Model/UnitTrace.lean):
  A. projections — every traced function returns, next to the trace, exactly what the untraced one returns;
  B. the trace is write-only — the trace after a traced call is the trace before with a list of
     writes applied (`TOp`s) that does not depend on the trace;
  C. set lemmas for `squash` / `diff`.
-/
import RioModel.Model.UnitTrace
import RioModel.Proofs.ActionObs
set_option linter.unusedSimpArgs false

namespace Rio.Action
open Spec

/-! ## A. projections -/

theorem foldRoutesT_fst (q : Req) (draw : Rule → Nat) (a : Action) (t : Option UnitTrace) (S : List Rule) :
    (foldRoutesT q draw a t S).1 = foldRoutes q draw a S := by
  induction S generalizing a t with
  | nil => rfl
  | cons r rest ih =>
    rw [foldRoutesT, foldRoutes]
    rcases h : fromRouteRule r q (draw r) with ⟨o, reset, stop⟩
    cases o with
    | none => simp only; exact ih a t
    | some ar =>
      simp only
      cases reset <;> cases stop <;> simp [ih]

theorem getStatusCodeT_fst (a : Action) (c : Nat) (t : Option UnitTrace) :
    (a.getStatusCodeT c t).1 = a.getStatusCode c := by
  unfold Action.getStatusCodeT Action.getStatusCode
  cases a with
  | mk scu hf bf ri rt ra lo =>
    cases scu with
    | none => rfl
    | some u =>
      simp only
      cases h : (u.getStatusCode c).2 <;> simp [lhsInsertOpt, lhsInsert, h]

theorem getFinalT_fst (a : Action) (c fb : Nat) (t : Option UnitTrace) :
    (a.getFinalT c fb t).1 = a.getFinalStatusCodeWithFallback c fb := by
  unfold Action.getFinalT Action.getFinalStatusCodeWithFallback
  simp only [getStatusCodeT_fst]
  split <;> rfl

theorem shouldLogRequestT_fst (a : Action) (allow : Bool) (c : Nat) (t : Option UnitTrace) :
    (a.shouldLogRequestT allow c t).1 = a.shouldLogRequest allow c := by
  unfold Action.shouldLogRequestT Action.shouldLogRequest LogOverride.getLogOverride
  cases a.logOverride <;> rfl

section
variable (lower : String → String)
open Rio.Header (Header sameName)

theorem replaceActionT_aux (f : HeaderFilter) (hs acc : List Header) (t : Option UnitTrace) :
    (hs.foldl
      (fun (st : List Header × Option UnitTrace) h =>
        if sameName lower f.header h then (st.1 ++ [⟨f.header, f.value⟩], traceHeaderUnit false f f.value st.2)
        else (st.1 ++ [h], st.2))
      (acc, t)).1 =
    hs.foldl (fun acc h => if sameName lower f.header h then acc ++ [⟨f.header, f.value⟩] else acc ++ [h]) acc := by
  induction hs generalizing acc t with
  | nil => rfl
  | cons h rest ih =>
    simp only [List.foldl_cons]
    cases sameName lower f.header h <;> simp [ih]

/-- One traced header action changes the headers exactly like the untraced action of C13. -/
theorem runActT_fst (f : HeaderFilter) (a : Rio.Header.Act)
    (ha : Rio.Header.createHeaderAction (toHeaderOp f) = some a) (hs : List Header) (t : Option UnitTrace) :
    (runActT lower f a hs t).1 = a.run lower hs := by
  unfold Rio.Header.createHeaderAction toHeaderOp at ha
  simp only at ha
  split at ha
  · cases ha; rfl
  · split at ha
    · cases ha; rfl
    · split at ha
      · cases ha
        simp only [runActT, Rio.Header.Act.run, replaceActionT, Rio.Header.replaceAction]
        exact replaceActionT_aux lower f hs [] t
      · split at ha
        · cases ha; rfl
        · split at ha
          · cases ha
            simp only [runActT, Rio.Header.Act.run, defaultActionT, Rio.Header.defaultAction]
            split <;> rfl
          · cases ha

theorem filterHeadersT_fold_fst (l : List (HeaderFilter × Rio.Header.Act))
    (hl : ∀ fa ∈ l, Rio.Header.createHeaderAction (toHeaderOp fa.1) = some fa.2)
    (hs : List Header) (t : Option UnitTrace) :
    (l.foldl (fun (st : List Header × Option UnitTrace) fa => runActT lower fa.1 fa.2 st.1 st.2) (hs, t)).1 =
      (l.map (·.2)).foldl (fun hs a => a.run lower hs) hs := by
  induction l generalizing hs t with
  | nil => rfl
  | cons fa rest ih =>
    simp only [List.foldl_cons, List.map_cons]
    have h1 := runActT_fst lower fa.1 fa.2 (hl fa (by simp)) hs t
    rw [← h1]
    exact ih (fun x hx => hl x (List.mem_cons_of_mem _ hx)) _ _

theorem actions_map_snd (fs : List HeaderFilter) :
    (fs.filterMap fun f => (Rio.Header.createHeaderAction (toHeaderOp f)).map fun a => (f, a)).map (·.2) =
      (fs.map toHeaderOp).filterMap Rio.Header.createHeaderAction := by
  induction fs with
  | nil => rfl
  | cons f rest ih =>
    simp only [List.filterMap_cons, List.map_cons]
    cases h : Rio.Header.createHeaderAction (toHeaderOp f) <;> simp [h, ih]

theorem actions_created (fs : List HeaderFilter) :
    ∀ fa ∈ (fs.filterMap fun f => (Rio.Header.createHeaderAction (toHeaderOp f)).map fun a => (f, a)),
      Rio.Header.createHeaderAction (toHeaderOp fa.1) = some fa.2 := by
  intro fa hfa
  obtain ⟨f, _, hf⟩ := List.mem_filterMap.mp hfa
  cases h : Rio.Header.createHeaderAction (toHeaderOp f) with
  | none => simp [h] at hf
  | some a =>
    simp only [h, Option.map_some, Option.some.injEq] at hf
    subst hf
    exact h

/-- The header pipeline with a trace returns the headers of the C13 pipeline. -/
theorem filterHeadersT_fst (fs : List HeaderFilter) (hs : List Header) (t : Option UnitTrace) :
    (filterHeadersT lower fs hs t).1 = Rio.Header.filterHeaders lower (fs.map toHeaderOp) hs := by
  unfold filterHeadersT Rio.Header.filterHeaders
  have hact := actions_map_snd fs
  have hE : ((fs.map toHeaderOp).filterMap Rio.Header.createHeaderAction).isEmpty =
      (fs.filterMap fun f => (Rio.Header.createHeaderAction (toHeaderOp f)).map fun a => (f, a)).isEmpty := by
    rw [← hact, List.isEmpty_map]
  have hM : (fs.map toHeaderOp).isEmpty = fs.isEmpty := List.isEmpty_map
  simp only [hM]
  cases hfs : fs.isEmpty
  · simp only [Bool.false_eq_true, if_false, hE]
    cases hl : (fs.filterMap fun f => (Rio.Header.createHeaderAction (toHeaderOp f)).map fun a => (f, a)).isEmpty
    · simp only [Bool.false_eq_true, if_false]
      rw [filterHeadersT_fold_fst lower _ (actions_created fs), hact]
    · simp
  · simp

theorem filterHeadersFullT_fst (showId : RuleId → String) (a : Action) (hs : List Header) (c : Nat)
    (add : Bool) (t : Option UnitTrace) :
    (a.filterHeadersFullT lower showId hs c add t).1 = a.filterHeadersFull lower showId hs c add := by
  unfold Action.filterHeadersFullT Action.filterHeadersFull
  simp only [filterHeadersT_fst]
  rfl

end

/-! ### the text chain -/

namespace ProbeT

/-- Forget the id: the untraced item of Model/Action.lean. -/
def forget (it : TextItemT) : Probe.TextItem := ⟨it.action, it.content, it.executed⟩

theorem filter_fst (it : TextItemT) (data : String) (t : Option UnitTrace) :
    (forget (it.filter data t).1.1, (it.filter data t).1.2) = (forget it).filter data := by
  unfold TextItemT.filter Probe.TextItem.filter forget
  cases ha : it.action <;> cases he : it.executed <;> simp [ha, he]

theorem finish_fst (it : TextItemT) : (forget it.finish.1, it.finish.2) = (forget it).finish := by
  unfold TextItemT.finish Probe.TextItem.finish forget
  cases he : it.executed <;> simp [he]

theorem doFilterT_fst (chain : List TextItemT) (data : String) (t : Option UnitTrace) :
    ((doFilterT chain data t).1.1.map forget, (doFilterT chain data t).1.2) =
      Probe.doFilter (chain.map forget) data := by
  induction chain generalizing data t with
  | nil => rfl
  | cons it rest ih =>
    have h := filter_fst it data t
    simp only [doFilterT, Probe.doFilter, List.map_cons]
    rw [← h]
    simp only
    split
    · rfl
    · have := ih (it.filter data t).1.2 (it.filter data t).2
      simp only [List.map_cons]
      rw [← this]

theorem doEndT_fst (chain : List TextItemT) (data : Option String) (t : Option UnitTrace) :
    (doEndT chain data t).1 = Probe.doEnd (chain.map forget) data := by
  induction chain generalizing data t with
  | nil => rfl
  | cons it rest ih =>
    cases data with
    | none =>
      simp only [doEndT, Probe.doEnd, List.map_cons]
      have h := finish_fst it
      rw [← h]
      exact ih _ _
    | some s =>
      simp only [doEndT, Probe.doEnd, List.map_cons]
      have h := filter_fst it s t
      have h2 := finish_fst (it.filter s t).1.1
      rw [← h]
      simp only
      rw [← h2]
      exact ih _ _

theorem chainOf_forget (fs : List BodyFilter) : (chainOf fs).map forget = Probe.chainOf fs := by
  induction fs with
  | nil => rfl
  | cons f rest ih =>
    cases f with
    | text tf => simp only [chainOf, Probe.chainOf, List.filterMap_cons, List.map_cons] at ih ⊢; rw [ih]; rfl
    | html hf => simp only [chainOf, Probe.chainOf, List.filterMap_cons] at ih ⊢; exact ih

/-- The text chain with a trace produces the body of the untraced chain. -/
theorem runChain_fst (fs : List BodyFilter) (body : String) (t : Option UnitTrace) :
    (runChain (chainOf fs) body t).1 = Probe.runChain (Probe.chainOf fs) body := by
  unfold runChain Probe.runChain
  have h1 := doFilterT_fst (chainOf fs) body t
  rw [chainOf_forget] at h1
  simp only
  rw [← h1]
  simp only
  rw [doEndT_fst]

theorem chainOf_isEmpty (fs : List BodyFilter) : (chainOf fs).isEmpty = (Probe.chainOf fs).isEmpty := by
  rw [← chainOf_forget]
  cases chainOf fs <;> rfl

end ProbeT

/-! ### a whole observer sequence: nothing returned depends on the trace -/

/-- Results and new action of one traced call, for any trace argument, are those of the call without trace. -/
theorem runOpT_fst (env : EnvT) (c : Nat) (a : Action) (t : Option UnitTrace) (op : Op) :
    (runOpT env c a t op).1 = (runOpT env c a none op).1 := by
  cases op with
  | status => simp only [runOpT, getStatusCodeT_fst]
  | headers => simp only [runOpT, filterHeadersFullT_fst]
  | body =>
    simp only [runOpT]
    split
    · rfl
    · simp only [ProbeT.runChain_fst]
  | log => simp only [runOpT, shouldLogRequestT_fst]
  | final fb => simp only [runOpT, getFinalT_fst]

theorem runOpsT_fst (env : EnvT) (c : Nat) (a : Action) (t : Option UnitTrace) (ops : List Op) :
    (runOpsT env c a t ops).1 = (runOpsT env c a none ops).1 ∧
    (runOpsT env c a t ops).2.1 = (runOpsT env c a none ops).2.1 := by
  induction ops generalizing a t with
  | nil => exact ⟨rfl, rfl⟩
  | cons op rest ih =>
    simp only [runOpsT]
    have h := runOpT_fst env c a t op
    have h1 := ih (runOpT env c a t op).1.2 (runOpT env c a t op).2
    have h2 := ih (runOpT env c a none op).1.2 (runOpT env c a none op).2
    rw [h] at h1 ⊢
    exact ⟨by rw [h1.1, h2.1], by rw [h1.2, h2.2]⟩

/-- The new action of a traced call is the new action of the untraced observer of C05. -/
theorem runOpT_action (env : EnvT) (c : Nat) (a : Action) (t : Option UnitTrace) (op : Op) :
    (runOpT env c a t op).1.2 = (runOp env.allowLogConfig c a op).2 := by
  cases op with
  | status => simp only [runOpT, runOp, getStatusCodeT_fst]
  | headers => simp only [runOpT, runOp, filterHeadersFullT_fst, Action.filterHeadersFull]
  | body => simp only [runOpT, runOp]; split <;> rfl
  | log => simp only [runOpT, runOp, shouldLogRequestT_fst]
  | final fb => simp only [runOpT, runOp, getFinalT_fst]

/-! ## B. the trace is write-only -/

/-- Called with `None`, nothing invents a trace. -/
theorem traceHeaderUnit_none (add : Bool) (f : HeaderFilter) (v : String) :
    traceHeaderUnit add f v none = none := rfl

/-- The writes of `traceHeaderUnit`. -/
def headerUnitOps (add : Bool) (f : HeaderFilter) (value : String) : List TOp :=
  match f.id with
  | none => []
  | some id =>
    .value id value ::
      (match f.targetHash with
       | none => []
       | some th => [if add then .addWithTarget th id else .overrideWithTarget th id])

theorem traceHeaderUnit_some (add : Bool) (f : HeaderFilter) (v : String) (t : UnitTrace) :
    traceHeaderUnit add f v (some t) = some (t.applyAll (headerUnitOps add f v)) := by
  unfold traceHeaderUnit headerUnitOps UnitTrace.applyAll
  cases f.id with
  | none => rfl
  | some id =>
    cases f.targetHash with
    | none => rfl
    | some th => cases add <;> rfl

theorem applyAll_append (t : UnitTrace) (a b : List TOp) :
    t.applyAll (a ++ b) = (t.applyAll a).applyAll b := by
  simp [UnitTrace.applyAll, List.foldl_append]

/-- The writes of `traceConfigUnit`. -/
def configUnitOps (unitId : Option String) (target : String) : List TOp :=
  match unitId with
  | some u => [.addWithTarget target u]
  | none => []

theorem traceConfigUnit_some (t : UnitTrace) (u : Option String) (target : String) :
    traceConfigUnit (some t) u target = some (t.applyAll (configUnitOps u target)) := by
  cases u <;> rfl

theorem traceConfigUnit_none (u : Option String) (target : String) : traceConfigUnit none u target = none := by
  cases u <;> rfl

/-- The writes of the fold of `from_routes_rule`: one `configuration::reset` per effective `reset` rule
that is reached, one `configuration::stop` for the effective `stop` rule that ends the loop — each only if
the rule has a `configuration_reset_unit_id`. -/
def foldOps (q : Req) (draw : Rule → Nat) : List Rule → List TOp
  | [] => []
  | r :: rest =>
    if effective q draw r then
      (if isReset r then configUnitOps r.configurationResetUnitId "configuration::reset" else []) ++
        (if isStop r then configUnitOps r.configurationResetUnitId "configuration::stop"
         else foldOps q draw rest)
    else foldOps q draw rest

theorem foldRoutesT_snd (q : Req) (draw : Rule → Nat) (a : Action) (t : UnitTrace) (S : List Rule) :
    (foldRoutesT q draw a (some t) S).2 = some (t.applyAll (foldOps q draw S)) := by
  induction S generalizing a t with
  | nil => rfl
  | cons r rest ih =>
    rw [foldRoutesT, fromRouteRule_eq, foldOps]
    cases he : effective q draw r
    · simp only [Bool.false_eq_true, if_false]
      exact ih a t
    · simp only [if_true]
      cases hr : isReset r <;> cases hs : isStop r <;>
        simp only [if_true, Bool.false_eq_true, if_false, traceConfigUnit_some, applyAll_append,
          List.nil_append, ih] <;> rfl

theorem foldRoutesT_none (q : Req) (draw : Rule → Nat) (a : Action) (S : List Rule) :
    (foldRoutesT q draw a none S).2 = none := by
  induction S generalizing a with
  | nil => rfl
  | cons r rest ih =>
    rw [foldRoutesT]
    rcases h : fromRouteRule r q (draw r) with ⟨o, reset, stop⟩
    cases o with
    | none => simp only; exact ih a
    | some ar => simp only; cases reset <;> cases stop <;> simp [traceConfigUnit_none, ih]

/-- The writes of `get_status_code`. -/
def statusOps (a : Action) (c : Nat) : List TOp :=
  match a.statusCodeUpdate with
  | none => []
  | some u =>
    match (u.getStatusCode c).2 with
    | none => []
    | some ruleId =>
      .ruleId ruleId ::
        (match u.targetHash, u.unitId with
         | some th, some uid => [.addWithTarget th uid]
         | _, _ => [])

theorem getStatusCodeT_snd (a : Action) (c : Nat) (t : UnitTrace) :
    (a.getStatusCodeT c (some t)).2 = some (t.applyAll (statusOps a c)) := by
  unfold Action.getStatusCodeT statusOps
  cases a.statusCodeUpdate with
  | none => rfl
  | some u =>
    simp only
    cases (u.getStatusCode c).2 with
    | none => rfl
    | some id =>
      simp only
      cases u.targetHash <;> cases u.unitId <;> rfl

/-- The writes of `should_log_request`. -/
def logOps (a : Action) (c : Nat) : List TOp :=
  match a.logOverride with
  | none => []
  | some l =>
    if (Rio.Consts.logGetLogOverride l.logOverride l.onResponseStatusCodes l.excludeResponseStatusCodes
        l.fallbackLogOverride l.ruleId l.fallbackRuleId c).2.2
    then configUnitOps l.unitId "configuration::log" else []

theorem shouldLogRequestT_snd (a : Action) (allow : Bool) (c : Nat) (t : UnitTrace) :
    (a.shouldLogRequestT allow c (some t)).2 = some (t.applyAll (logOps a c)) := by
  unfold Action.shouldLogRequestT logOps
  cases a.logOverride with
  | none => rfl
  | some l =>
    simp only
    split
    · exact traceConfigUnit_some t l.unitId _
    · rfl

section
variable (lower : String → String)
open Rio.Header (Header sameName)

/-- The writes of one header action on the current headers. -/
def actOps (f : HeaderFilter) (a : Rio.Header.Act) (hs : List Header) : List TOp :=
  match a with
  | .add _ _ => headerUnitOps true f f.value
  | .remove _ => headerUnitOps false f ""
  | .replace _ _ => (hs.filter (sameName lower f.header)).flatMap fun _ => headerUnitOps false f f.value
  | .override _ _ => headerUnitOps false f f.value
  | .default _ _ => if !Rio.Header.defaultFound lower f.header hs then headerUnitOps true f f.value else []

theorem replaceActionT_snd (f : HeaderFilter) (hs acc : List Header) (t : UnitTrace) :
    (hs.foldl
      (fun (st : List Header × Option UnitTrace) h =>
        if sameName lower f.header h then (st.1 ++ [⟨f.header, f.value⟩], traceHeaderUnit false f f.value st.2)
        else (st.1 ++ [h], st.2))
      (acc, some t)).2 =
    some (t.applyAll ((hs.filter (sameName lower f.header)).flatMap fun _ => headerUnitOps false f f.value)) := by
  induction hs generalizing acc t with
  | nil => rfl
  | cons h rest ih =>
    simp only [List.foldl_cons, List.filter_cons]
    cases sameName lower f.header h
    · simp only [Bool.false_eq_true, if_false]
      exact ih _ t
    · simp only [if_true, traceHeaderUnit_some, List.flatMap_cons, applyAll_append]
      exact ih _ _

theorem runActT_snd (f : HeaderFilter) (a : Rio.Header.Act) (hs : List Header) (t : UnitTrace) :
    (runActT lower f a hs (some t)).2 = some (t.applyAll (actOps lower f a hs)) := by
  cases a with
  | add n v => exact traceHeaderUnit_some true f f.value t
  | remove n => exact traceHeaderUnit_some false f "" t
  | replace n v => exact replaceActionT_snd lower f hs [] t
  | override n v => exact traceHeaderUnit_some false f f.value t
  | default n v =>
    simp only [runActT, defaultActionT, actOps]
    split
    · exact traceHeaderUnit_some true f f.value t
    · rfl

/-- The writes of the header pipeline: action by action, on the headers as they evolve. -/
def pipelineOps : List (HeaderFilter × Rio.Header.Act) → List Header → List TOp
  | [], _ => []
  | fa :: rest, hs => actOps lower fa.1 fa.2 hs ++ pipelineOps rest (fa.2.run lower hs)

theorem pipeline_snd (l : List (HeaderFilter × Rio.Header.Act))
    (hl : ∀ fa ∈ l, Rio.Header.createHeaderAction (toHeaderOp fa.1) = some fa.2)
    (hs : List Header) (t : UnitTrace) :
    (l.foldl (fun (st : List Header × Option UnitTrace) fa => runActT lower fa.1 fa.2 st.1 st.2) (hs, some t)).2 =
      some (t.applyAll (pipelineOps lower l hs)) := by
  induction l generalizing hs t with
  | nil => rfl
  | cons fa rest ih =>
    simp only [List.foldl_cons, pipelineOps, applyAll_append]
    have h1 := runActT_fst lower fa.1 fa.2 (hl fa (by simp)) hs (some t)
    have h2 := runActT_snd lower fa.1 fa.2 hs t
    have : runActT lower fa.1 fa.2 hs (some t) = (fa.2.run lower hs, some (t.applyAll (actOps lower fa.1 fa.2 hs))) :=
      Prod.ext h1 h2
    rw [this]
    exact ih (fun x hx => hl x (List.mem_cons_of_mem _ hx)) _ _

/-- The writes of `FilterHeaderAction::new(filters)` + `filter(headers, trace)`. -/
def headerOps (fs : List HeaderFilter) (hs : List Header) : List TOp :=
  pipelineOps lower (fs.filterMap fun f => (Rio.Header.createHeaderAction (toHeaderOp f)).map fun a => (f, a)) hs

theorem filterHeadersT_snd (fs : List HeaderFilter) (hs : List Header) (t : UnitTrace) :
    (filterHeadersT lower fs hs (some t)).2 = some (t.applyAll (headerOps lower fs hs)) := by
  unfold filterHeadersT headerOps
  cases hfs : fs.isEmpty
  · simp only [Bool.false_eq_true, if_false]
    cases hl : (fs.filterMap fun f => (Rio.Header.createHeaderAction (toHeaderOp f)).map fun a => (f, a)).isEmpty
    · simp only [Bool.false_eq_true, if_false]
      exact pipeline_snd lower _ (actions_created fs) hs t
    · have : (fs.filterMap fun f => (Rio.Header.createHeaderAction (toHeaderOp f)).map fun a => (f, a)) = [] := by
        simpa using hl
      simp [this, pipelineOps, UnitTrace.applyAll]
  · have : fs = [] := by simpa using hfs
    simp [this, pipelineOps, UnitTrace.applyAll]

/-- The writes of `filter_headers`: the header actions, then the applied rule ids. -/
def filterHeadersOps (a : Action) (hs : List Header) (c : Nat) : List TOp :=
  headerOps lower (a.filterHeaders c true).filters hs ++
    (a.filterHeaders c true).action.rulesApplied.map TOp.ruleId

theorem foldl_ruleId (t : UnitTrace) (ids : List RuleId) :
    ({ t with ruleIdsApplied := ids.foldl lhsInsert t.ruleIdsApplied } : UnitTrace) =
      t.applyAll (ids.map TOp.ruleId) := by
  induction ids generalizing t with
  | nil => rfl
  | cons id rest ih =>
    simp only [List.foldl_cons, List.map_cons, UnitTrace.applyAll] at ih ⊢
    rw [← ih]
    rfl

theorem filterHeaders_add_irrelevant (a : Action) (c : Nat) (add : Bool) :
    (a.filterHeaders c add).filters = (a.filterHeaders c true).filters ∧
    (a.filterHeaders c add).action = (a.filterHeaders c true).action := by
  unfold Action.filterHeaders
  exact ⟨rfl, rfl⟩

theorem filterHeadersFullT_snd (showId : RuleId → String) (a : Action) (hs : List Header) (c : Nat)
    (add : Bool) (t : UnitTrace) :
    (a.filterHeadersFullT lower showId hs c add (some t)).2 =
      some (t.applyAll (filterHeadersOps lower a hs c)) := by
  unfold Action.filterHeadersFullT filterHeadersOps
  simp only [filterHeadersT_snd, (filterHeaders_add_irrelevant a c add).1,
    (filterHeaders_add_irrelevant a c add).2, applyAll_append, foldl_ruleId]

end

/-! ### text chain -/

namespace ProbeT

def textOps (over : Bool) (id : Option String) : List TOp :=
  match id with
  | some i => [if over then .overrideWithTarget "text" i else .addWithTarget "text" i]
  | none => []

theorem traceText_some (over : Bool) (id : Option String) (t : UnitTrace) :
    traceText over id (some t) = some (t.applyAll (textOps over id)) := by
  cases id <;> cases over <;> rfl

/-- The writes of one `filter` call of a text stage. -/
def itemOps (it : TextItemT) : List TOp :=
  match it.action with
  | .replace => textOps true it.id
  | _ => textOps false it.id

theorem filter_snd (it : TextItemT) (data : String) (t : UnitTrace) :
    (it.filter data (some t)).2 = some (t.applyAll (itemOps it)) := by
  unfold TextItemT.filter itemOps
  cases it.action <;> exact traceText_some _ _ _

end ProbeT

/-! ### the chain, and a whole observer sequence, as writers -/

namespace ProbeT

theorem filter_fst_indep (it : TextItemT) (data : String) (t : Option UnitTrace) :
    (it.filter data t).1 = (it.filter data none).1 := by
  unfold TextItemT.filter
  cases it.action <;> rfl

/-- The writes of `do_filter`: one `filter` call per stage reached (the loop breaks on empty data). -/
def doFilterOps : List TextItemT → String → List TOp
  | [], _ => []
  | it :: rest, data =>
    itemOps it ++ (if (it.filter data none).1.2.isEmpty then [] else doFilterOps rest (it.filter data none).1.2)

theorem doFilterT_snd (chain : List TextItemT) (data : String) (t : UnitTrace) :
    (doFilterT chain data (some t)).2 = some (t.applyAll (doFilterOps chain data)) := by
  induction chain generalizing data t with
  | nil => rfl
  | cons it rest ih =>
    simp only [doFilterT, doFilterOps, applyAll_append, filter_snd, filter_fst_indep it data (some t)]
    split
    · simp [UnitTrace.applyAll]
    · exact ih _ _

theorem doFilterT_fst_indep (chain : List TextItemT) (data : String) (t : Option UnitTrace) :
    (doFilterT chain data t).1 = (doFilterT chain data none).1 := by
  induction chain generalizing data t with
  | nil => rfl
  | cons it rest ih =>
    simp only [doFilterT, filter_fst_indep it data t]
    split
    · rfl
    · rw [ih _ (it.filter data t).2, ih _ (it.filter data none).2]

/-- The writes of `do_end`: a stage is called with `filter` only when data flows into it. -/
def doEndOps : List TextItemT → Option String → List TOp
  | [], _ => []
  | it :: rest, none =>
    doEndOps rest (if it.finish.2.isEmpty then none else some it.finish.2)
  | it :: rest, some s =>
    itemOps it ++
      doEndOps rest
        (if ((it.filter s none).1.2 ++ (it.filter s none).1.1.finish.2).isEmpty then none
         else some ((it.filter s none).1.2 ++ (it.filter s none).1.1.finish.2))

theorem doEndT_snd (chain : List TextItemT) (data : Option String) (t : UnitTrace) :
    (doEndT chain data (some t)).2 = some (t.applyAll (doEndOps chain data)) := by
  induction chain generalizing data t with
  | nil => cases data <;> rfl
  | cons it rest ih =>
    cases data with
    | none => simp only [doEndT, doEndOps]; exact ih _ _
    | some s =>
      simp only [doEndT, doEndOps, applyAll_append, filter_snd, filter_fst_indep it s (some t)]
      exact ih _ _

/-- The writes of `filter(body)` then `end()`. -/
def chainOps (chain : List TextItemT) (body : String) : List TOp :=
  doFilterOps chain body ++ doEndOps (doFilterT chain body none).1.1 none

theorem runChain_snd (chain : List TextItemT) (body : String) (t : UnitTrace) :
    (runChain chain body (some t)).2 = some (t.applyAll (chainOps chain body)) := by
  unfold runChain chainOps
  simp only [doFilterT_snd, doFilterT_fst_indep chain body (some t), doEndT_snd, applyAll_append]

end ProbeT

/-- The writes of one observer call. -/
def opOps (env : EnvT) (c : Nat) (a : Action) : Op → List TOp
  | .status => statusOps a c
  | .headers => filterHeadersOps env.lower a env.headers c
  | .body =>
    if (ProbeT.chainOf (a.createFilterBody c).1).isEmpty then []
    else ProbeT.chainOps (ProbeT.chainOf (a.createFilterBody c).1) env.body
  | .log => logOps a c
  | .final fb =>
    statusOps a c ++
      (if c == 0 && (a.getStatusCode c).1 == 0 then statusOps (a.getStatusCode c).2 fb else [])

theorem runOpT_snd (env : EnvT) (c : Nat) (a : Action) (t : UnitTrace) (op : Op) :
    (runOpT env c a (some t) op).2 = some (t.applyAll (opOps env c a op)) := by
  cases op with
  | status => exact getStatusCodeT_snd a c t
  | headers => exact filterHeadersFullT_snd env.lower env.showId a env.headers c true t
  | body =>
    simp only [runOpT, opOps]
    split
    · rfl
    · exact ProbeT.runChain_snd _ _ t
  | log => exact shouldLogRequestT_snd a env.allowLogConfig c t
  | final fb =>
    simp only [runOpT, opOps, Action.getFinalT, getStatusCodeT_fst, getStatusCodeT_snd]
    split
    · simp only [getStatusCodeT_snd, applyAll_append, if_true]
    · simp [applyAll_append, UnitTrace.applyAll]

/-- The writes of a sequence of observer calls (the action evolves: only its `rules_applied`). -/
def seqOps (env : EnvT) (c : Nat) : Action → List Op → List TOp
  | _, [] => []
  | a, op :: ops => opOps env c a op ++ seqOps env c (runOp env.allowLogConfig c a op).2 ops

theorem runOpsT_snd (env : EnvT) (c : Nat) (a : Action) (t : UnitTrace) (ops : List Op) :
    (runOpsT env c a (some t) ops).2.2 = some (t.applyAll (seqOps env c a ops)) := by
  induction ops generalizing a t with
  | nil => rfl
  | cons op rest ih =>
    simp only [runOpsT, seqOps, applyAll_append, runOpT_snd, runOpT_action]
    exact ih _ _

theorem runOpsT_none (env : EnvT) (c : Nat) (a : Action) (ops : List Op) :
    (runOpsT env c a none ops).2.2 = none := by
  induction ops generalizing a with
  | nil => rfl
  | cons op rest ih =>
    simp only [runOpsT]
    have : (runOpT env c a none op).2 = none := by
      cases op with
      | status =>
        simp only [runOpT, Action.getStatusCodeT]
        cases a.statusCodeUpdate with
        | none => rfl
        | some u => simp only; cases (u.getStatusCode c).2 <;> rfl
      | headers =>
        simp only [runOpT, Action.filterHeadersFullT]
        have : ∀ fs hs, (filterHeadersT env.lower fs hs none).2 = none := by
          intro fs hs
          unfold filterHeadersT
          split
          · rfl
          · simp only
            split
            · rfl
            · generalize (fs.filterMap fun f => (Rio.Header.createHeaderAction (toHeaderOp f)).map fun a => (f, a)) = l
              have key : ∀ (l : List (HeaderFilter × Rio.Header.Act)) hs,
                  (l.foldl (fun (st : List Rio.Header.Header × Option UnitTrace) fa =>
                    runActT env.lower fa.1 fa.2 st.1 st.2) (hs, none)).2 = none := by
                intro l
                induction l with
                | nil => intro hs; rfl
                | cons fa rest ih =>
                  intro hs
                  simp only [List.foldl_cons]
                  have hn : (runActT env.lower fa.1 fa.2 hs none).2 = none := by
                    cases fa.2 with
                    | add n v => rfl
                    | remove n => rfl
                    | replace n v =>
                      simp only [runActT, replaceActionT]
                      have k2 : ∀ (hs acc : List Rio.Header.Header),
                          (hs.foldl (fun (st : List Rio.Header.Header × Option UnitTrace) h =>
                            if Rio.Header.sameName env.lower fa.1.header h then
                              (st.1 ++ [⟨fa.1.header, fa.1.value⟩], traceHeaderUnit false fa.1 fa.1.value st.2)
                            else (st.1 ++ [h], st.2)) (acc, none)).2 = none := by
                        intro hs
                        induction hs with
                        | nil => intro acc; rfl
                        | cons h r ih2 =>
                          intro acc
                          simp only [List.foldl_cons]
                          split
                          · exact ih2 _
                          · exact ih2 _
                      exact k2 hs []
                    | override n v => rfl
                    | default n v => simp only [runActT, defaultActionT]; split <;> rfl
                  have : runActT env.lower fa.1 fa.2 hs none = ((runActT env.lower fa.1 fa.2 hs none).1, none) :=
                    Prod.ext rfl hn
                  rw [this]
                  exact ih _
              exact key l hs
        simp [this]
      | body =>
        simp only [runOpT]
        split
        · rfl
        · simp only [ProbeT.runChain]
          have k1 : ∀ (ch : List ProbeT.TextItemT) d, (ProbeT.doFilterT ch d none).2 = none := by
            intro ch
            induction ch with
            | nil => intro d; rfl
            | cons it r ih1 =>
              intro d
              have hf : (it.filter d none).2 = none := by
                unfold ProbeT.TextItemT.filter
                cases it.action <;> rfl
              simp only [ProbeT.doFilterT, hf]
              split
              · rfl
              · exact ih1 _
          have k2 : ∀ (ch : List ProbeT.TextItemT) d, (ProbeT.doEndT ch d none).2 = none := by
            intro ch
            induction ch with
            | nil => intro d; rfl
            | cons it r ih1 =>
              intro d
              have hf : ∀ s, (it.filter s none).2 = none := by
                intro s
                unfold ProbeT.TextItemT.filter
                cases it.action <;> rfl
              cases d with
              | none => simp only [ProbeT.doEndT]; exact ih1 _
              | some s => simp only [ProbeT.doEndT, hf]; exact ih1 _
          rw [k1]
          exact k2 _ _
      | log =>
        simp only [runOpT, Action.shouldLogRequestT]
        cases a.logOverride with
        | none => rfl
        | some l => simp only; split <;> simp [traceConfigUnit_none]
      | final fb =>
        have hs : ∀ (a : Action) c, (a.getStatusCodeT c none).2 = none := by
          intro a c
          unfold Action.getStatusCodeT
          cases a.statusCodeUpdate with
          | none => rfl
          | some u => simp only; cases (u.getStatusCode c).2 <;> rfl
        simp only [runOpT, Action.getFinalT, hs]
        split <;> simp [hs]
    rw [this]
    exact ih _

/-! ## C. sets -/

theorem mem_sInsert (s : List String) (x y : String) : y ∈ sInsert s x ↔ y ∈ s ∨ y = x := by
  unfold sInsert
  simp only [List.mem_append, List.mem_filter, List.mem_singleton, Bool.not_eq_true', beq_eq_false_iff_ne]
  constructor
  · rintro (⟨h, _⟩ | h)
    · exact .inl h
    · exact .inr h
  · rintro (h | h)
    · by_cases e : y = x
      · exact .inr e
      · exact .inl ⟨h, e⟩
    · exact .inr h

theorem nodup_sInsert (s : List String) (x : String) (h : s.Nodup) : (sInsert s x).Nodup := by
  unfold sInsert
  rw [List.nodup_append]
  refine ⟨h.filter _, by simp, ?_⟩
  intro a ha b hb
  simp only [List.mem_singleton] at hb
  subst hb
  have := (List.mem_filter.mp ha).2
  intro e
  subst e
  simp at this

/-- `diff` is set difference: the ids of `other` that are not applied, each once. -/
theorem mem_diff (t : UnitTrace) (other : List String) (u : String) :
    u ∈ t.diff other ↔ u ∈ other ∧ u ∉ t.unitIdsApplied := by
  unfold UnitTrace.diff
  have key : ∀ (l d : List String),
      u ∈ l.foldl (fun d u => if !t.unitIdsApplied.contains u then sInsert d u else d) d ↔
        u ∈ d ∨ (u ∈ l ∧ u ∉ t.unitIdsApplied) := by
    intro l
    induction l with
    | nil => intro d; simp
    | cons x xs ih =>
      intro d
      simp only [List.foldl_cons]
      rw [ih]
      by_cases hx : t.unitIdsApplied.contains x = true
      · simp only [hx, Bool.not_true, Bool.false_eq_true, if_false, List.mem_cons]
        constructor
        · rintro (h | ⟨h, h'⟩)
          · exact .inl h
          · exact .inr ⟨.inr h, h'⟩
        · rintro (h | ⟨h | h, h'⟩)
          · exact .inl h
          · subst h; exact absurd (by simpa using hx) h'
          · exact .inr ⟨h, h'⟩
      · have hx' : t.unitIdsApplied.contains x = false := by simpa using hx
        simp only [hx', Bool.not_false, if_true, mem_sInsert, List.mem_cons]
        constructor
        · rintro ((h | h) | ⟨h, h'⟩)
          · exact .inl h
          · subst h; exact .inr ⟨.inl rfl, by simpa using hx'⟩
          · exact .inr ⟨.inr h, h'⟩
        · rintro (h | ⟨h | h, h'⟩)
          · exact .inl (.inl h)
          · exact .inl (.inr h)
          · exact .inr ⟨h, h'⟩
  rw [key]
  simp

theorem nodup_diff (t : UnitTrace) (other : List String) : (t.diff other).Nodup := by
  unfold UnitTrace.diff
  have key : ∀ (l d : List String), d.Nodup →
      (l.foldl (fun d u => if !t.unitIdsApplied.contains u then sInsert d u else d) d).Nodup := by
    intro l
    induction l with
    | nil => intro d h; exact h
    | cons x xs ih =>
      intro d h
      simp only [List.foldl_cons]
      apply ih
      split
      · exact nodup_sInsert d x h
      · exact h
  exact key other [] List.nodup_nil

theorem mem_sortStrings (l : List String) (u : String) : u ∈ UnitTrace.sortStrings l ↔ u ∈ l :=
  (List.mergeSort_perm l _).mem_iff

/-- Membership after `add_unit_id` over a list. -/
theorem mem_foldl_addUnitId (ids : List String) (t : UnitTrace) (u : String) :
    u ∈ (ids.foldl UnitTrace.addUnitId t).unitIdsApplied ↔ u ∈ t.unitIdsApplied ∨ u ∈ ids := by
  induction ids generalizing t with
  | nil => simp
  | cons x xs ih =>
    simp only [List.foldl_cons]
    rw [ih]
    simp only [UnitTrace.addUnitId, mem_sInsert, List.mem_cons]
    constructor
    · rintro ((h | h) | h)
      · exact .inl h
      · exact .inr (.inl h)
      · exact .inr (.inr h)
    · rintro (h | h | h)
      · exact .inl (.inl h)
      · exact .inl (.inr h)
      · exact .inr h

/-- **`squash`**: a unit id is applied afterwards iff it was applied before or is still registered
under some target. -/
theorem mem_squash (t : UnitTrace) (u : String) :
    u ∈ t.squash.unitIdsApplied ↔ u ∈ t.unitIdsApplied ∨ ∃ e ∈ t.withTarget, u ∈ e.2 := by
  unfold UnitTrace.squash
  simp only [mem_sortStrings]
  have key : ∀ (m : List (String × List String)) (t0 : UnitTrace),
      u ∈ (m.foldl (fun t e => e.2.foldl UnitTrace.addUnitId t) t0).unitIdsApplied ↔
        u ∈ t0.unitIdsApplied ∨ ∃ e ∈ m, u ∈ e.2 := by
    intro m
    induction m with
    | nil => intro t0; simp
    | cons e rest ih =>
      intro t0
      simp only [List.foldl_cons]
      rw [ih, mem_foldl_addUnitId]
      simp only [List.mem_cons, exists_eq_or_imp]
      constructor
      · rintro ((h | h) | h)
        · exact .inl h
        · exact .inr (.inl h)
        · exact .inr (.inr h)
      · rintro (h | h | h)
        · exact .inl (.inl h)
        · exact .inl (.inr h)
        · exact .inr h
  exact key t.withTarget _

/-! ## D. what a list of writes leaves in the trace -/

/-- the unit id a write registers -/
def TOp.unit? : TOp → Option String
  | .addWithTarget _ u => some u
  | .overrideWithTarget _ u => some u
  | _ => none

/-- the rule id a write records -/
def TOp.rule? : TOp → Option RuleId
  | .ruleId id => some id
  | _ => none

theorem mem_wtAdd (m : List (String × List String)) (target u : String) (e : String × List String)
    (x : String) (he : e ∈ UnitTrace.wtAdd m target u) (hx : x ∈ e.2) :
    x = u ∨ ∃ e' ∈ m, x ∈ e'.2 := by
  unfold UnitTrace.wtAdd at he
  split at he
  · obtain ⟨e0, he0, rfl⟩ := List.mem_map.mp he
    by_cases h : (e0.1 == target) = true
    · simp only [h, if_true] at hx
      rcases (mem_sInsert _ _ _).mp hx with h' | h'
      · exact .inr ⟨e0, he0, h'⟩
      · exact .inl h'
    · simp only [h, Bool.false_eq_true, if_false] at hx
      exact .inr ⟨e0, he0, hx⟩
  · rcases List.mem_append.mp he with h | h
    · exact .inr ⟨e, h, hx⟩
    · simp only [List.mem_singleton] at h
      subst h
      simp only [List.mem_singleton] at hx
      exact .inl hx

theorem mem_wtOverride (m : List (String × List String)) (target u : String) (e : String × List String)
    (x : String) (he : e ∈ UnitTrace.wtOverride m target u) (hx : x ∈ e.2) :
    x = u ∨ ∃ e' ∈ m, x ∈ e'.2 := by
  rcases mem_wtAdd _ target u e x he hx with h | ⟨e', he', hx'⟩
  · exact .inl h
  · exact .inr ⟨e', (List.mem_filter.mp he').1, hx'⟩

theorem apply_unitIdsApplied (t : UnitTrace) (op : TOp) : (t.apply op).unitIdsApplied = t.unitIdsApplied := by
  cases op <;> rfl

theorem applyAll_unitIdsApplied (t : UnitTrace) (ops : List TOp) :
    (t.applyAll ops).unitIdsApplied = t.unitIdsApplied := by
  induction ops generalizing t with
  | nil => rfl
  | cons op rest ih =>
    show ((t.apply op).applyAll rest).unitIdsApplied = _
    rw [ih, apply_unitIdsApplied]

theorem apply_units (P : String → Prop) (t : UnitTrace) (op : TOp)
    (hop : ∀ u, op.unit? = some u → P u) (hin : ∀ e ∈ t.withTarget, ∀ x ∈ e.2, P x) :
    ∀ e ∈ (t.apply op).withTarget, ∀ x ∈ e.2, P x := by
  intro e he x hx
  cases op with
  | ruleId id => exact hin e he x hx
  | value k v => exact hin e he x hx
  | addWithTarget target u =>
    rcases mem_wtAdd _ target u e x he hx with h | ⟨e', he', hx'⟩
    · subst h; exact hop x rfl
    · exact hin e' he' x hx'
  | overrideWithTarget target u =>
    rcases mem_wtOverride _ target u e x he hx with h | ⟨e', he', hx'⟩
    · subst h; exact hop x rfl
    · exact hin e' he' x hx'

theorem applyAll_units (P : String → Prop) (ops : List TOp) (t : UnitTrace)
    (hop : ∀ op ∈ ops, ∀ u, op.unit? = some u → P u) (hin : ∀ e ∈ t.withTarget, ∀ x ∈ e.2, P x) :
    ∀ e ∈ (t.applyAll ops).withTarget, ∀ x ∈ e.2, P x := by
  induction ops generalizing t with
  | nil => exact hin
  | cons op rest ih =>
    show ∀ e ∈ ((t.apply op).applyAll rest).withTarget, _
    exact ih _ (fun o ho => hop o (List.mem_cons_of_mem _ ho))
      (apply_units P t op (hop op (by simp)) hin)

/-- Every unit id applied by `squash` after a list of writes on a fresh trace was written by one of them. -/
theorem squash_units (ops : List TOp) (u : String)
    (h : u ∈ (UnitTrace.empty.applyAll ops).squash.unitIdsApplied) : ∃ op ∈ ops, op.unit? = some u := by
  rcases (mem_squash _ u).mp h with h | ⟨e, he, hx⟩
  · rw [applyAll_unitIdsApplied] at h
    cases h
  · exact applyAll_units (fun x => ∃ op ∈ ops, op.unit? = some x) ops UnitTrace.empty
      (fun op hop x hx => ⟨op, hop, hx⟩) (fun e he => by cases he) e he u hx

/-- The recorded rule ids: the `LinkedHashSet` of the rule-id writes, in order. -/
theorem applyAll_ruleIds (ops : List TOp) (t : UnitTrace) :
    (t.applyAll ops).ruleIdsApplied = (ops.filterMap TOp.rule?).foldl lhsInsert t.ruleIdsApplied := by
  induction ops generalizing t with
  | nil => rfl
  | cons op rest ih =>
    show ((t.apply op).applyAll rest).ruleIdsApplied = _
    rw [ih]
    cases op <;> rfl

/-! ## E. which unit ids each stage can write -/

theorem headerUnitOps_units (add : Bool) (f : HeaderFilter) (v : String) (op : TOp) (u : String)
    (hop : op ∈ headerUnitOps add f v) (hu : op.unit? = some u) : f.id = some u := by
  unfold headerUnitOps at hop
  cases hid : f.id with
  | none => simp [hid] at hop
  | some id =>
    simp only [hid, List.mem_cons] at hop
    rcases hop with rfl | hop
    · cases hu
    · cases hth : f.targetHash with
      | none => simp [hth] at hop
      | some th =>
        simp only [hth, List.mem_singleton] at hop
        subst hop
        cases add <;> simp_all [TOp.unit?]

section
variable (lower : String → String)

theorem actOps_units (f : HeaderFilter) (a : Rio.Header.Act) (hs : List Rio.Header.Header) (op : TOp)
    (u : String) (hop : op ∈ actOps lower f a hs) (hu : op.unit? = some u) : f.id = some u := by
  cases a with
  | add n v => exact headerUnitOps_units true f f.value op u hop hu
  | remove n => exact headerUnitOps_units false f "" op u hop hu
  | replace n v =>
    simp only [actOps, List.mem_flatMap] at hop
    obtain ⟨_, _, h⟩ := hop
    exact headerUnitOps_units false f f.value op u h hu
  | override n v => exact headerUnitOps_units false f f.value op u hop hu
  | default n v =>
    simp only [actOps] at hop
    split at hop
    · exact headerUnitOps_units true f f.value op u hop hu
    · cases hop

theorem pipelineOps_units (l : List (HeaderFilter × Rio.Header.Act)) (hs : List Rio.Header.Header)
    (op : TOp) (u : String) (hop : op ∈ pipelineOps lower l hs) (hu : op.unit? = some u) :
    ∃ fa ∈ l, fa.1.id = some u := by
  induction l generalizing hs with
  | nil => cases hop
  | cons fa rest ih =>
    simp only [pipelineOps, List.mem_append] at hop
    rcases hop with h | h
    · exact ⟨fa, by simp, actOps_units lower fa.1 fa.2 hs op u h hu⟩
    · obtain ⟨x, hx, hxu⟩ := ih _ h
      exact ⟨x, List.mem_cons_of_mem _ hx, hxu⟩

/-- A unit id written by the header pipeline is the `id` of one of the filters handed to it. -/
theorem headerOps_units (fs : List HeaderFilter) (hs : List Rio.Header.Header) (op : TOp) (u : String)
    (hop : op ∈ headerOps lower fs hs) (hu : op.unit? = some u) : ∃ f ∈ fs, f.id = some u := by
  obtain ⟨fa, hfa, hid⟩ := pipelineOps_units lower _ hs op u hop hu
  obtain ⟨f, hf, hfe⟩ := List.mem_filterMap.mp hfa
  cases h : Rio.Header.createHeaderAction (toHeaderOp f) with
  | none => simp [h] at hfe
  | some a =>
    simp only [h, Option.map_some, Option.some.injEq] at hfe
    subst hfe
    exact ⟨f, hf, hid⟩

end

namespace ProbeT

theorem itemOps_units (it : TextItemT) (op : TOp) (u : String) (hop : op ∈ itemOps it)
    (hu : op.unit? = some u) : it.id = some u := by
  unfold itemOps textOps at hop
  cases hid : it.id with
  | none => cases ha : it.action <;> simp [hid, ha] at hop
  | some i =>
    cases ha : it.action <;> simp only [hid, ha, List.mem_singleton] at hop <;> subst hop <;>
      simp_all [TOp.unit?]

theorem filter_id (it : TextItemT) (data : String) (t : Option UnitTrace) : (it.filter data t).1.1.id = it.id := by
  unfold TextItemT.filter
  cases it.action <;> simp <;> split <;> rfl

theorem finish_id (it : TextItemT) : it.finish.1.id = it.id := by
  unfold TextItemT.finish
  split <;> rfl

theorem doFilterT_ids (chain : List TextItemT) (data : String) (t : Option UnitTrace) :
    (doFilterT chain data t).1.1.map (·.id) = chain.map (·.id) := by
  induction chain generalizing data t with
  | nil => rfl
  | cons it rest ih =>
    simp only [doFilterT]
    split
    · simp [filter_id]
    · simp [filter_id, ih]

theorem doFilterOps_units (chain : List TextItemT) (data : String) (op : TOp) (u : String)
    (hop : op ∈ doFilterOps chain data) (hu : op.unit? = some u) : some u ∈ chain.map (·.id) := by
  induction chain generalizing data with
  | nil => cases hop
  | cons it rest ih =>
    simp only [doFilterOps, List.mem_append] at hop
    rcases hop with h | h
    · simp [itemOps_units it op u h hu]
    · split at h
      · cases h
      · exact List.mem_cons_of_mem _ (ih _ h)

theorem doEndOps_units (chain : List TextItemT) (data : Option String) (op : TOp) (u : String)
    (hop : op ∈ doEndOps chain data) (hu : op.unit? = some u) : some u ∈ chain.map (·.id) := by
  induction chain generalizing data with
  | nil => cases data <;> cases hop
  | cons it rest ih =>
    cases data with
    | none =>
      simp only [doEndOps] at hop
      exact List.mem_cons_of_mem _ (ih _ hop)
    | some s =>
      simp only [doEndOps, List.mem_append] at hop
      rcases hop with h | h
      · simp [itemOps_units it op u h hu]
      · exact List.mem_cons_of_mem _ (ih _ h)

/-- A unit id written by the text chain is the `id` of one of its text filters. -/
theorem chainOps_units (fs : List BodyFilter) (body : String) (op : TOp) (u : String)
    (hop : op ∈ chainOps (chainOf fs) body) (hu : op.unit? = some u) :
    ∃ tf, BodyFilter.text tf ∈ fs ∧ tf.id = some u := by
  have hmem : some u ∈ (chainOf fs).map (·.id) := by
    unfold chainOps at hop
    rcases List.mem_append.mp hop with h | h
    · exact doFilterOps_units _ _ op u h hu
    · have := doEndOps_units _ _ op u h hu
      rwa [doFilterT_ids] at this
  obtain ⟨it, hit, hid⟩ := List.mem_map.mp hmem
  unfold chainOf at hit
  obtain ⟨f, hf, hfe⟩ := List.mem_filterMap.mp hit
  cases f with
  | text tf =>
    simp only [Option.some.injEq] at hfe
    subst hfe
    exact ⟨tf, hf, hid⟩
  | html h => cases hfe

end ProbeT

end Rio.Action
