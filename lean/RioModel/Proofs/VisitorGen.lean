/-
W4c: `enter` and `first` of the three HTML body visitors (`BodyAppend`, `BodyPrepend`, `BodyReplace`,
src/filter/html_body_action/body_*.rs) TRANSLATED from the source on every run (`Rio.Consts.genBody*Enter`,
`genBody*First`; section `w4_translate_visitor`, tools/consts.d/w4_translate.py) agree with W6's visitor model
(`Rio.Filter.Visitor.enter`, `.first`, Model/Filter.lean).

The code keeps `element_tree : Vec<String>` and an index `position`; W6's model keeps a zipper
(`before` reversed, `cur`, `after`).  `Rep tree pos v` relates the two; the theorems say that from related states the
translated function returns what the model returns and leaves related states (and the same `is_buffering`).
Indexing `v[i]` is translated as `(v[i]?).getD []`: under `Rep` every index the code evaluates is in range, so the
default is never used (the panic freedom of these indexings is C07's business).
-/
import RioModel.Generated.Consts
import RioModel.Model.Filter
set_option linter.unusedSimpArgs false

namespace Rio.VisitorGen
open Rio.Consts Rio.Filter

/-- the vector / index state of the code represents the zipper of the model -/
structure Rep (tree : List Bytes) (pos : Nat) (v : Visitor) : Prop where
  tree_eq : tree = v.before.reverse ++ v.cur :: v.after
  pos_eq : pos = v.before.length

theorem Rep.cur {tree : List Bytes} {pos : Nat} {v : Visitor} (h : Rep tree pos v) :
    (tree[pos]?).getD [] = v.cur := by
  rw [h.tree_eq, h.pos_eq]
  simp [List.getElem?_append_right]

theorem Rep.len {tree : List Bytes} {pos : Nat} {v : Visitor} (h : Rep tree pos v) :
    tree.length = pos + 1 + v.after.length := by
  rw [h.tree_eq, h.pos_eq]
  simp; omega

theorem Rep.more {tree : List Bytes} {pos : Nat} {v : Visitor} (h : Rep tree pos v) :
    (pos + 1 < tree.length) ↔ v.after ≠ [] := by
  rw [h.len]
  cases v.after <;> simp

theorem Rep.advance {tree : List Bytes} {pos : Nat} {v : Visitor} (h : Rep tree pos v) (ha : v.after ≠ []) :
    Rep tree (pos + 1) v.advance := by
  unfold Visitor.advance
  cases hv : v.after with
  | nil => exact absurd hv ha
  | cons a rest =>
    refine ⟨?_, ?_⟩
    · rw [h.tree_eq, hv]; simp
    · rw [h.pos_eq]; simp

theorem Rep.first {tree : List Bytes} {pos : Nat} {v : Visitor} (h : Rep tree pos v) :
    (tree[0]?).getD [] = v.first := by
  unfold Visitor.first
  rw [h.tree_eq]
  cases v.before.reverse <;> simp

theorem hasSel_eq (v : Visitor) : v.hasSel = (v.sel.isSome && !(v.sel.getD []).isEmpty) := by
  unfold Visitor.hasSel
  cases v.sel <;> simp

/-- **`first`** of the three visitors -/
theorem genFirst_eq {tree : List Bytes} {pos : Nat} {v : Visitor} (h : Rep tree pos v) :
    genBodyAppendFirst tree = v.first ∧ genBodyPrependFirst tree = v.first ∧ genBodyReplaceFirst tree = v.first :=
  ⟨h.first, h.first, h.first⟩

theorem Rep.cur' {tree : List Bytes} {pos : Nat} {v : Visitor} (h : Rep tree pos v) (hl : pos < tree.length) :
    tree[pos] = v.cur := by
  have := h.cur
  simpa [List.getElem?_eq_getElem hl] using this

/-- **`BodyAppend::enter`** -/
theorem genAppendEnter_eq {tree : List Bytes} {pos : Nat} {v : Visitor} (hk : v.kind = .append)
    (h : Rep tree pos v) (data : Bytes) :
    (genBodyAppendEnter tree pos v.sel v.content data).1 = (v.enter data).1 ∧
    Rep tree (genBodyAppendEnter tree pos v.sel v.content data).2 (v.enter data).2 := by
  obtain ⟨kind, before, cur, after, sel, content, isB⟩ := v
  simp only at hk; subst hk
  have hc := h.cur
  have hl := h.len
  simp only at hc hl
  unfold genBodyAppendEnter Visitor.enter
  cases after with
  | nil =>
    have hlt : ¬ (pos + 1 < tree.length) := by rw [hl]; simp
    have hge : pos + 1 ≥ tree.length := by omega
    refine ⟨?_, ?_⟩
    · simp [hlt, hge, hc, hasSel_eq]
    · simp [hlt]; exact h
  | cons a rest =>
    have hlt : pos + 1 < tree.length := by rw [hl]; simp
    have h' := h.advance (by simp)
    have hc' := h'.cur' hlt
    simp only [Visitor.advance] at h' hc'
    refine ⟨?_, ?_⟩
    · simp [hlt, hc, hc', Visitor.advance]
    · simp [hlt, Visitor.advance]; exact h'

/-- **`BodyPrepend::enter`** -/
theorem genPrependEnter_eq {tree : List Bytes} {pos : Nat} {v : Visitor} (hk : v.kind = .prepend)
    (h : Rep tree pos v) (data : Bytes) :
    (genBodyPrependEnter tree pos v.sel v.content v.isBuffering data).1 = (v.enter data).1 ∧
    Rep tree (genBodyPrependEnter tree pos v.sel v.content v.isBuffering data).2.1 (v.enter data).2 ∧
    (genBodyPrependEnter tree pos v.sel v.content v.isBuffering data).2.2 = (v.enter data).2.isBuffering := by
  obtain ⟨kind, before, cur, after, sel, content, isB⟩ := v
  simp only at hk; subst hk
  have hc := h.cur
  have hl := h.len
  simp only at hc hl
  unfold genBodyPrependEnter Visitor.enter
  cases after with
  | nil =>
    have hlt : ¬ (pos + 1 < tree.length) := by rw [hl]; simp
    have hge : pos + 1 ≥ tree.length := by omega
    have hrep : ∀ b, Rep tree pos ⟨.prepend, before, cur, [], sel, content, b⟩ := fun b => ⟨h.tree_eq, h.pos_eq⟩
    cases sel with
    | none =>
      refine ⟨?_, ?_, ?_⟩
      · simp [hlt, hge, hc, Visitor.hasSel]
      · simp [hlt, hge, Visitor.hasSel]; exact hrep _
      · simp [hlt, hge, Visitor.hasSel]
    | some s =>
      cases he : s.isEmpty
      · refine ⟨?_, ?_, ?_⟩
        · simp [hlt, hge, hc, Visitor.hasSel, he]
        · simp [hlt, hge, Visitor.hasSel, he]; exact hrep _
        · simp [hlt, hge, Visitor.hasSel, he]
      · refine ⟨?_, ?_, ?_⟩
        · simp [hlt, hge, hc, Visitor.hasSel, he]
        · simp [hlt, hge, Visitor.hasSel, he]; exact hrep _
        · simp [hlt, hge, Visitor.hasSel, he]
  | cons a rest =>
    have hlt : pos + 1 < tree.length := by rw [hl]; simp
    have h' := h.advance (by simp)
    have hc' := h'.cur' hlt
    simp only [Visitor.advance] at h' hc'
    refine ⟨?_, ?_, ?_⟩
    · simp [hlt, hc, hc', Visitor.advance]
    · simp [hlt, Visitor.advance]; exact h'
    · simp [hlt, Visitor.advance]

/-- **`BodyReplace::enter`** -/
theorem genReplaceEnter_eq {tree : List Bytes} {pos : Nat} {v : Visitor} (hk : v.kind = .replace)
    (h : Rep tree pos v) (data : Bytes) :
    (genBodyReplaceEnter tree pos v.sel v.content v.isBuffering data).1 = (v.enter data).1 ∧
    Rep tree (genBodyReplaceEnter tree pos v.sel v.content v.isBuffering data).2.1 (v.enter data).2 ∧
    (genBodyReplaceEnter tree pos v.sel v.content v.isBuffering data).2.2 = (v.enter data).2.isBuffering := by
  obtain ⟨kind, before, cur, after, sel, content, isB⟩ := v
  simp only at hk; subst hk
  have hc := h.cur
  have hl := h.len
  simp only at hc hl
  unfold genBodyReplaceEnter Visitor.enter
  cases after with
  | nil =>
    have hlt : ¬ (pos + 1 < tree.length) := by rw [hl]; simp
    have hge : pos + 1 ≥ tree.length := by omega
    have hrep : ∀ b, Rep tree pos ⟨.replace, before, cur, [], sel, content, b⟩ := fun b => ⟨h.tree_eq, h.pos_eq⟩
    refine ⟨?_, ?_, ?_⟩
    · simp [hlt, hge, hc]
    · simp [hlt, hge]; exact hrep _
    · simp [hlt, hge]
  | cons a rest =>
    have hlt : pos + 1 < tree.length := by rw [hl]; simp
    have h' := h.advance (by simp)
    have hc' := h'.cur' hlt
    simp only [Visitor.advance] at h' hc'
    refine ⟨?_, ?_, ?_⟩
    · simp [hlt, hc, hc', Visitor.advance]
    · simp [hlt, Visitor.advance]; exact h'
    · simp [hlt, Visitor.advance]

/-- the state `new` builds is represented: position 0 of a non-empty tree -/
theorem rep_new (kind : VKind) (first : Bytes) (rest : List Bytes) (sel : Option Bytes) (content : Bytes) :
    Rep (first :: rest) 0 { kind := kind, cur := first, after := rest, sel := sel, content := content } :=
  ⟨rfl, rfl⟩

end Rio.VisitorGen
