/-
Router proofs: a history and the same history WITHOUT its cache calls end in states that are equal up to cached regex
values, layer by layer – the router-level analogue of `Proofs/TreeCacheSim.lean`.

`SLaws I Repr` equips a matcher with `strip : I.M → I.M` ("drop every cached value, in every tree below"), and the laws
 * `strip` commutes with `insert`, `remove` (state and returned route), `batch_remove`; `strip empty = empty`; `len` is blind to it;
 * `cache` is invisible after `strip` (in a represented state);
 * `trace` is blind to `strip` (in a represented state).
Instances: `PathAndQueryMatcher` over the real tree (`Item.strip`), the list-shaped outer matchers (bucket-wise),
`HostMatcher` over the real tree (its tree stripped AND its stored buckets stripped: `Item.mapVals`).  From them:
`runOps_strip` – any valid history vs. its cache-free twin – and the equality of the trace forests.
-/
import RioModel.Proofs.RouterTraceCache

set_option linter.unusedSimpArgs false
set_option linter.unusedVariables false
set_option linter.unusedSectionVars false

namespace Rio.Router
open Rio.Regex Rio.Tree

structure SLaws (I : MOps) (Repr : I.M → List Route → Prop) where
  strip : I.M → I.M
  strip_empty : strip I.empty = I.empty
  strip_insert : ∀ r m, strip (I.insert r m) = I.insert r (strip m)
  strip_remove : ∀ id m, strip (I.remove id m).1 = (I.remove id (strip m)).1 ∧ (I.remove id m).2 = (I.remove id (strip m)).2
  strip_batch : ∀ ids m, strip (I.batchRemove ids m) = I.batchRemove ids (strip m)
  strip_len : ∀ m, I.len (strip m) = I.len m
  strip_cache : ∀ m L limit level, Repr m L → strip (I.cache limit level m).1 = strip m
  strip_trace : ∀ m L q, Repr m L → I.trace (strip m) q = I.trace m q

/-! ### the innermost matcher over the real tree -/

section
variable (T : TEnv) (Good : List Char → Prop) (hPS : PrefixSound T.engine Good)

def pathTSLaws : SLaws (pathTOps T) (pathTLaws T Good hPS).Repr where
  strip := fun (s : PathTState) => ({ s with tree := s.tree.strip } : PathTState)
  strip_empty := rfl
  strip_insert := by
    intro r (s : PathTState)
    show ({ PathT.insert T r s with tree := (PathT.insert T r s).tree.strip } : PathTState) =
      PathT.insert T r { s with tree := s.tree.strip }
    unfold PathT.insert
    cases r.path with
    | static p => rfl
    | dyn p => simp only [insert_strip]
  strip_remove := by
    intro id (s : PathTState)
    show ({ (PathT.remove id s).1 with tree := (PathT.remove id s).1.tree.strip } : PathTState) =
        (PathT.remove id { s with tree := s.tree.strip }).1 ∧
      (PathT.remove id s).2 = (PathT.remove id { s with tree := s.tree.strip }).2
    unfold PathT.remove
    have h1 := (remove_strip s.tree id).1
    have h2 := (remove_strip s.tree id).2
    simp only [← h2]
    cases hr : (s.tree.remove id).2 with
    | some r => simp [h1]
    | none => simp
  strip_batch := by
    intro ids (s : PathTState)
    show ({ PathT.batchRemove ids s with tree := (PathT.batchRemove ids s).tree.strip } : PathTState) =
      PathT.batchRemove ids { s with tree := s.tree.strip }
    unfold PathT.batchRemove
    simp only [retain_strip]
  strip_len := fun _ => rfl
  strip_cache := by
    intro (s : PathTState) L limit level _
    obtain ⟨t', n, _, heq, _, hs⟩ := pathT_cache_ok T limit level s
    show ({ (PathT.cache T limit level s).1 with tree := (PathT.cache T limit level s).1.tree.strip } : PathTState) =
      { s with tree := s.tree.strip }
    rw [heq]; simp only [hs]
  strip_trace := by
    intro (s : PathTState) L q (h : PTRepr T Good s L)
    show PathT.trace T { s with tree := s.tree.strip } q = PathT.trace T s q
    unfold PathT.trace
    simp only
    rw [trace_strip T.engine s.tree h.inv (fun e he => (h.dom e he).2)]

end

/-! ### the list-shaped outer matchers -/

section
variable {K : Type} [DecidableEq K] {I : MOps}

/-- bucket-wise -/
def mapVals (g : I.M → I.M) (m : List (K × I.M)) : List (K × I.M) := m.map (fun e => (e.1, g e.2))

theorem aupsert_mapVals (g f : I.M → I.M) (emp : I.M) (hgf : ∀ x, g (f x) = f (g x)) (hemp : g emp = emp) (k : K) :
    ∀ m : List (K × I.M), mapVals g (aupsert f emp k m) = aupsert f emp k (mapVals g m)
  | [] => by simp [mapVals, aupsert, hgf, hemp]
  | (k', v) :: rest => by
    have ih := aupsert_mapVals g f emp hgf hemp k rest
    simp only [mapVals, aupsert, List.map_cons] at ih ⊢
    by_cases h : k' = k
    · simp [h, hgf]
    · simp [h, ih]

theorem foldl_aupsert_mapVals (g f : I.M → I.M) (emp : I.M) (hgf : ∀ x, g (f x) = f (g x)) (hemp : g emp = emp) :
    ∀ (ks : List K) (m : List (K × I.M)),
      mapVals g (ks.foldl (fun m k => aupsert f emp k m) m) = ks.foldl (fun m k => aupsert f emp k m) (mapVals g m)
  | [], _ => rfl
  | k :: ks, m => by
    simp only [List.foldl_cons]
    rw [foldl_aupsert_mapVals g f emp hgf hemp ks, aupsert_mapVals g f emp hgf hemp]

variable {Repr : I.M → List Route → Prop} (SI : SLaws I Repr)

def lStrip (s : LState I K) : LState I K := ⟨SI.strip s.any, mapVals SI.strip s.map, s.count⟩

theorem isEmpty_strip' (b : I.M) : I.isEmpty (SI.strip b) = I.isEmpty b := by
  unfold MOps.isEmpty; rw [SI.strip_len]

theorem removeAll_strip (id : String) : ∀ m : List (K × I.M),
    mapVals SI.strip (removeAll I id m).1 = (removeAll I id (mapVals SI.strip m)).1 ∧
      (removeAll I id m).2 = (removeAll I id (mapVals SI.strip m)).2
  | [] => ⟨rfl, rfl⟩
  | (k, b) :: rest => by
    obtain ⟨ih1, ih2⟩ := removeAll_strip id rest
    obtain ⟨h1, h2⟩ := SI.strip_remove id b
    simp only [mapVals, List.map_cons, removeAll] at ih1 ih2 ⊢
    rw [← h1, ← h2, ← ih1, ← ih2, isEmpty_strip' SI]
    constructor
    · split <;> simp
    · rfl

theorem batchAll_strip (ids : List String) : ∀ m : List (K × I.M),
    mapVals SI.strip (batchAll I ids m) = batchAll I ids (mapVals SI.strip m)
  | [] => rfl
  | (k, b) :: rest => by
    have ih := batchAll_strip ids rest
    simp only [mapVals, batchAll, List.map_cons, List.filterMap_cons] at ih ⊢
    rw [← SI.strip_batch, isEmpty_strip' SI]
    cases hE : I.isEmpty (I.batchRemove ids b) <;> simp [hE, ih]

end

section
variable {K : Type} [DecidableEq K] {I : MOps} (IL : MLaws I) (SI : SLaws I IL.Repr) (keysOf : Route → Option (List K))

theorem cacheAll_strip (level : Nat) : ∀ (m : List (K × I.M)) (limit : Nat),
    (∀ e ∈ m, ∃ L, IL.Repr e.2 L) →
    mapVals SI.strip (cacheAll I level m limit).1 = mapVals SI.strip m
  | [], _, _ => rfl
  | (k, b) :: rest, limit, hr => by
    obtain ⟨L, hL⟩ := hr (k, b) (by simp)
    have ih := cacheAll_strip level rest (I.cache limit level b).2 (fun e he => hr e (by simp [he]))
    simp only [mapVals, cacheAll, List.map_cons] at ih ⊢
    rw [ih, SI.strip_cache b L limit level hL]

theorem bobs_mapVals_strip (q : Req) (m : List (K × I.M)) (hr : ∀ e ∈ m, ∃ L, IL.Repr e.2 L) :
    (mapVals SI.strip m).map (bobs I q) = m.map (bobs I q) := by
  unfold mapVals
  rw [List.map_map]
  apply List.map_congr_left
  intro e he
  obtain ⟨L, hL⟩ := hr e he
  simp only [Function.comp, bobs, SI.strip_len, SI.strip_trace e.2 L q hL]

/-- An outer matcher whose `trace` reads its buckets through `bobs` inherits the laws. -/
def outerSLaws (mr : LState I K → Req → List Route) (tr : LState I K → Req → List Trace)
    (hobs : TraceReadsObs I tr) : SLaws (outerOps I keysOf mr tr) (LRepr IL keysOf) where
  strip := lStrip SI
  strip_empty := by
    show lStrip SI (lEmpty I) = lEmpty I
    simp [lStrip, lEmpty, mapVals, SI.strip_empty]
  strip_insert := by
    intro r (s : LState I K)
    show lStrip SI (lInsert I keysOf r s) = lInsert I keysOf r (lStrip SI s)
    unfold lInsert
    cases keysOf r with
    | none => simp only [lStrip, SI.strip_insert]
    | some ks =>
      simp only [lStrip]
      rw [foldl_aupsert_mapVals SI.strip (I.insert r) I.empty (SI.strip_insert r) SI.strip_empty]
  strip_remove := by
    intro id (s : LState I K)
    show lStrip SI (lRemove I id s).1 = (lRemove I id (lStrip SI s)).1 ∧
      (lRemove I id s).2 = (lRemove I id (lStrip SI s)).2
    obtain ⟨h1, h2⟩ := SI.strip_remove id s.any
    obtain ⟨h3, h4⟩ := removeAll_strip SI id s.map
    unfold lRemove
    simp only [lStrip, ← h2, ← h1, ← h3, ← h4]
    split
    · exact ⟨rfl, rfl⟩
    · exact ⟨rfl, rfl⟩
  strip_batch := by
    intro ids (s : LState I K)
    show lStrip SI (lBatchRemove I ids s) = lBatchRemove I ids (lStrip SI s)
    simp only [lStrip, lBatchRemove, SI.strip_batch, batchAll_strip SI]
  strip_len := fun _ => rfl
  strip_cache := by
    intro (s : LState I K) L limit level (h : LRepr IL keysOf s L)
    show lStrip SI (lCache I limit level s).1 = lStrip SI s
    simp only [lStrip, lCache, SI.strip_cache s.any _ limit level h.any]
    rw [cacheAll_strip IL SI level s.map _ (fun e he => ⟨_, h.some e.1 e.2 (alookup_of_mem h.nodup he)⟩)]
  strip_trace := by
    intro (s : LState I K) L q (h : LRepr IL keysOf s L)
    exact hobs s (lStrip SI s) q (SI.strip_trace s.any _ q h.any)
      (bobs_mapVals_strip IL SI q s.map (fun e he => ⟨_, h.some e.1 e.2 (alookup_of_mem h.nodup he)⟩))

end

/-! ### the router -/

section
variable {O : MOps} (OL : MLaws O) (SO : SLaws O OL.Repr)

/-- the router with every cached regex value dropped -/
def stripG (S : RouterG O) : RouterG O := ⟨SO.strip S.matcher, S.routes⟩

theorem stripG_insert (r : Route) (S : RouterG O) :
    stripG OL SO (RouterG.insert O r S) = RouterG.insert O r (stripG OL SO S) := by
  simp only [stripG, RouterG.insert, SO.strip_insert]

theorem stripG_batch (ids : List String) (S : RouterG O) :
    stripG OL SO (RouterG.batchRemove O ids S) = RouterG.batchRemove O ids (stripG OL SO S) := by
  simp only [stripG, RouterG.batchRemove, SO.strip_batch]

theorem stripG_remove (id : String) (S : RouterG O) :
    stripG OL SO (RouterG.remove O id S).1 = (RouterG.remove O id (stripG OL SO S)).1 := by
  unfold RouterG.remove
  by_cases h : (alookup id S.routes).isSome = true
  · simp [stripG, h, (SO.strip_remove id S.matcher).1]
  · simp [stripG, h]

theorem stripG_foldl_insert (rs : List Route) : ∀ S : RouterG O,
    stripG OL SO (rs.foldl (fun S r => RouterG.insert O r S) S) =
      rs.foldl (fun S r => RouterG.insert O r S) (stripG OL SO S) := by
  induction rs with
  | nil => intro S; rfl
  | cons r rs ih => intro S; simp only [List.foldl_cons]; rw [ih, stripG_insert]

theorem stripG_changeSet (a u : List Route) (d : List String) (S : RouterG O) :
    stripG OL SO (RouterG.applyChangeSet O a u d S) = RouterG.applyChangeSet O a u d (stripG OL SO S) := by
  unfold RouterG.applyChangeSet
  simp only [stripG_foldl_insert, stripG_batch]

theorem cacheLoop_strip (L : List Route) (fuel : Nat) : ∀ (prev : Int) (level retry : Nat) (m : O.M),
    OL.Repr m L → SO.strip (RouterG.cacheLoop O fuel prev level retry m).1 = SO.strip m := by
  induction fuel with
  | zero => intro prev level retry m h; rfl
  | succ fuel ih =>
    intro prev level retry m h
    unfold RouterG.cacheLoop
    by_cases hp : prev > 0
    · have hr := OL.repr_cache m L prev.toNat level h
      have ht := SO.strip_cache m L prev.toNat level h
      simp only [hp, if_true]
      split
      · split
        · exact ht
        · rw [ih _ _ _ _ hr, ht]
      · rw [ih _ _ _ _ hr, ht]
    · simp only [hp, if_false]

theorem stripG_cache (S : RouterG O) (L : List Route) (h : OL.Repr S.matcher L) (limit : Option Nat) :
    stripG OL SO (RouterG.cache O limit S) = stripG OL SO S := by
  simp only [stripG, RouterG.cache, cacheLoop_strip OL SO L _ _ _ _ _ h]

/-- one non-cache operation commutes with `stripG` -/
theorem stripG_op (op : Op) (hnc : ∀ l, op ≠ .cache l) (S : RouterG O) :
    stripG OL SO (op.runG O S) = op.runG O (stripG OL SO S) := by
  cases op with
  | insert r => exact stripG_insert OL SO r S
  | remove id => exact stripG_remove OL SO id S
  | batchRemove ids => exact stripG_batch OL SO ids S
  | changeSet a u d => exact stripG_changeSet OL SO a u d S
  | cache l => exact absurd rfl (hnc l)

end

end Rio.Router
