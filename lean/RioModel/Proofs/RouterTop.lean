/-
Router proofs, part 7: the `Router` (outermost matcher + id map): representation relation, its
preservation by every operation, and the consequences used by C01 / C02 / C17.

Everything is proved once for an arbitrary outermost matcher `O` with laws `OL : MLaws O` whose
`sat` is the flat specification (`TowerSpec`; lemmas `g_*`), then specialised to the
specification-level tower (`RRepr`, `rrepr_*`); RouterTreeTop.lean specialises it to the tower over
the real regex-tree model.
-/
import RioModel.Proofs.RouterSat
import RioModel.Model.RouterOps

set_option linter.unusedSimpArgs false
set_option linter.unusedVariables false
set_option linter.unusedSectionVars false

namespace Rio.Router

/-- ids are pairwise distinct -/
def NodupIds (L : List Route) : Prop := (L.map (·.id)).Nodup

/-- every route built by `IntoRoute` can be found again by `remove` -/
def WFRoute (r : Route) : Prop := r.ips ≠ some []

/-- What the generic router proofs need of the outermost matcher: its layered `sat` is the flat
specification and parsed routes are well-formed for it. -/
structure TowerSpec (E : Env) {O : MOps} (OL : MLaws O) (GoodR : Route → Prop) : Prop where
  sat_eq : ∀ L r q, OL.sat L r q = sat E L r q
  wf : ∀ r, WFRoute r → OL.wf r
  /-- `GoodR`: the routes that may be inserted (all of them for the specification-level tower; the
  routes whose marker patterns are in the domain of C08 for the tower over the real tree model) -/
  ins : ∀ r, GoodR r → OL.okIns r

section
variable (E : Env) {O : MOps} (OL : MLaws O) {GoodR : Route → Prop} (hT : TowerSpec E OL GoodR)

/-- Router state `S` represents the list `L` of live routes (each once, ids distinct). -/
structure RReprG (S : RouterG O) (L : List Route) : Prop where
  matcher : OL.Repr S.matcher L
  ids : NodupIds L
  keyed : ∀ e ∈ S.routes, e.1 = e.2.id
  perm : (S.routes.map Prod.snd).Perm L

omit E in
theorem RReprG.uids {S : RouterG O} {L : List Route} (h : RReprG OL S L) : UIds L :=
  (nodupIds_uids h.ids).1

include hT

theorem g_empty : RReprG OL (RouterG.empty O) [] :=
  ⟨OL.repr_empty, by simp [NodupIds], by intro e he; simp [RouterG.empty] at he,
   by simp [RouterG.empty]⟩

/-! ### matching in a represented state -/

theorem g_mem_match (S : RouterG O) (L : List Route) (h : RReprG OL S L) (q : Req) (r : Route) :
    r ∈ RouterG.matchReq O S q ↔ r ∈ L ∧ sat E L r q = true := by
  unfold RouterG.matchReq
  rw [OL.mem_match _ _ q r h.matcher h.uids, hT.sat_eq]

theorem g_nodup_match (S : RouterG O) (L : List Route) (h : RReprG OL S L) (q : Req) :
    (RouterG.matchReq O S q).Nodup ∧ ((RouterG.matchReq O S q).map (·.id)).Nodup := by
  have hn := OL.nodup_match _ _ q h.matcher h.uids
  refine ⟨hn, ?_⟩
  apply UIds.nodup_ids _ hn
  exact h.uids.mono (fun x hx => ((g_mem_match E OL hT S L h q x).1 hx).1)

theorem g_sat_congr (L L' : List Route) (r : Route) (q : Req) (h : ∀ x, x ∈ L ↔ x ∈ L') :
    sat E L r q = sat E L' r q := by
  rw [← hT.sat_eq, ← hT.sat_eq]; exact OL.sat_congr L L' r q h

/-- two states representing lists with the same elements answer every request alike -/
theorem g_match_perm (S S' : RouterG O) (L L' : List Route) (h : RReprG OL S L) (h' : RReprG OL S' L')
    (hm : ∀ x, x ∈ L ↔ x ∈ L') (q : Req) : (RouterG.matchReq O S q).Perm (RouterG.matchReq O S' q) := by
  rw [List.perm_ext_iff_of_nodup (g_nodup_match E OL hT S L h q).1 (g_nodup_match E OL hT S' L' h' q).1]
  intro r
  rw [g_mem_match E OL hT S L h, g_mem_match E OL hT S' L' h', hm r, g_sat_congr E OL hT L L' r q hm]

/-- all routes stored anywhere in the traces (with repetitions) are the matching routes -/
theorem g_mem_rawTrace (S : RouterG O) (L : List Route) (h : RReprG OL S L) (q : Req) (r : Route) :
    r ∈ rawRoutesOfList (RouterG.trace O S q) ↔ r ∈ RouterG.matchReq O S q :=
  OL.mem_trace _ _ q r h.matcher h.uids

/-- `get_routes_from_traces(trace_request(q))` lists exactly the matching routes -/
theorem g_mem_trace (S : RouterG O) (L : List Route) (h : RReprG OL S L) (q : Req) (r : Route) :
    r ∈ routesOfList (RouterG.trace O S q) ↔ r ∈ RouterG.matchReq O S q := by
  rw [mem_routesOfList_iff L h.uids _ (fun y hy =>
    ((g_mem_match E OL hT S L h q y).1 ((g_mem_rawTrace E OL hT S L h q y).1 hy)).1) r]
  exact g_mem_rawTrace E OL hT S L h q r

/-- ... each once: it is a permutation of the match result -/
theorem g_trace_perm (S : RouterG O) (L : List Route) (h : RReprG OL S L) (q : Req) :
    (routesOfList (RouterG.trace O S q)).Perm (RouterG.matchReq O S q) := by
  rw [List.perm_ext_iff_of_nodup (nodup_of_map_nodup _ _ (routesOfList_nodupIds _))
    (g_nodup_match E OL hT S L h q).1]
  intro r; exact g_mem_trace E OL hT S L h q r

theorem g_len (S : RouterG O) (L : List Route) (h : RReprG OL S L) : RouterG.len O S = L.length := by
  unfold RouterG.len
  rw [← h.perm.length_eq, List.length_map]

theorem g_lookup (S : RouterG O) (L : List Route) (h : RReprG OL S L) (id : String) (r : Route) :
    RouterG.getRouteById O S id = some r ↔ (r ∈ L ∧ r.id = id) := by
  unfold RouterG.getRouteById
  have hkeys : akeys S.routes = (S.routes.map Prod.snd).map (·.id) := by
    unfold akeys
    rw [List.map_map]
    apply List.map_congr_left
    intro e he; exact h.keyed e he
  have hn : (akeys S.routes).Nodup := by
    rw [hkeys]; exact (h.perm.map _).nodup_iff.2 h.ids
  rw [← mem_iff_alookup hn]
  constructor
  · intro hm
    have := h.keyed _ hm
    exact ⟨h.perm.mem_iff.1 (List.mem_map.mpr ⟨_, hm, rfl⟩), this.symm⟩
  · rintro ⟨hr, hid⟩
    obtain ⟨e, he, hre⟩ := List.mem_map.mp (h.perm.mem_iff.2 hr)
    have := h.keyed e he
    obtain ⟨k, v⟩ := e
    simp only at hre this; subst hre
    rw [← hid, ← this]; exact he

/-! ### insert -/

omit hT in
theorem aupsert_fresh {K V : Type} [DecidableEq K] (f : V → V) (emp : V) (k : K) (l : List (K × V))
    (h : k ∉ akeys l) : aupsert f emp k l = l ++ [(k, f emp)] := by
  induction l with
  | nil => rfl
  | cons a l ih =>
    obtain ⟨ka, va⟩ := a
    simp only [akeys_cons, List.mem_cons, not_or] at h
    have : ¬ ka = k := fun e => h.1 e.symm
    simp only [aupsert, this, if_false, ih h.2, List.cons_append]

theorem g_insert (S : RouterG O) (L : List Route) (r : Route) (h : RReprG OL S L)
    (hfresh : r.id ∉ L.map (·.id)) (hg : GoodR r) : RReprG OL (RouterG.insert O r S) (r :: L) := by
  have hids : NodupIds (r :: L) := by
    unfold NodupIds; simp only [List.map_cons, List.nodup_cons]; exact ⟨hfresh, h.ids⟩
  have hk : r.id ∉ akeys S.routes := by
    intro hin
    obtain ⟨e, he, hke⟩ := List.mem_map.mp hin
    apply hfresh
    have := h.keyed e he
    have hm : e.2 ∈ L := h.perm.mem_iff.1 (List.mem_map.mpr ⟨e, he, rfl⟩)
    exact List.mem_map.mpr ⟨e.2, hm, by rw [← this, hke]⟩
  refine ⟨OL.repr_insert _ _ r h.matcher (nodupIds_uids hids).1 (hT.ins r hg), hids, ?_, ?_⟩
  · intro e he
    simp only [RouterG.insert, aupsert_fresh _ _ _ _ hk, List.mem_append, List.mem_singleton] at he
    rcases he with he | he
    · exact h.keyed e he
    · rw [he]
  · simp only [RouterG.insert, aupsert_fresh _ _ _ _ hk, List.map_append, List.map_cons, List.map_nil]
    exact (List.perm_append_comm.trans (List.Perm.cons _ h.perm))

/-! ### remove -/

theorem map_snd_filter_key (S : RouterG O) (L : List Route) (h : RReprG OL S L) (p : String → Bool) :
    ((S.routes.filter (fun e => p e.1)).map Prod.snd).Perm (L.filter (fun r => p r.id)) := by
  have : (S.routes.filter (fun e => p e.1)).map Prod.snd =
      (S.routes.map Prod.snd).filter (fun r => p r.id) := by
    rw [List.filter_map]
    congr 1
    apply List.filter_congr
    intro e he
    simp only [Function.comp]
    rw [h.keyed e he]
  rw [this]
  exact h.perm.filter _

omit hT in
theorem nodupIds_filter (L : List Route) (p : Route → Bool) (h : NodupIds L) : NodupIds (L.filter p) := by
  unfold NodupIds at h ⊢
  exact ((List.filter_sublist (l := L)).map _).nodup h

theorem g_remove (S : RouterG O) (L : List Route) (id : String) (h : RReprG OL S L) :
    RReprG OL (RouterG.remove O id S).1 (L.filter (fun r => r.id != id)) := by
  unfold RouterG.remove
  cases hl : alookup id S.routes with
  | none =>
    simp only [Option.isSome_none, Bool.false_eq_true, if_false]
    -- no live route has this id: nothing changes
    have hno : ∀ r ∈ L, r.id ≠ id := by
      intro r hr e
      have := (g_lookup E OL hT S L h id r).2 ⟨hr, e⟩
      unfold RouterG.getRouteById at this
      rw [hl] at this; cases this
    have : L.filter (fun r => r.id != id) = L := by
      rw [List.filter_eq_self]; intro r hr; simpa using hno r hr
    rw [this]; exact h
  | some r0 =>
    simp only [Option.isSome_some, if_true]
    refine ⟨OL.repr_remove _ _ id h.matcher h.uids, nodupIds_filter _ _ h.ids, ?_, ?_⟩
    · intro e he; exact h.keyed e (List.mem_filter.mp he).1
    · exact map_snd_filter_key E OL hT S L h (fun k => k != id)

theorem g_remove_some (S : RouterG O) (L : List Route) (r : Route) (h : RReprG OL S L)
    (hr : r ∈ L) (hwf : WFRoute r) : (RouterG.remove O r.id S).2 = some r := by
  unfold RouterG.remove
  have := (g_lookup E OL hT S L h r.id r).2 ⟨hr, rfl⟩
  unfold RouterG.getRouteById at this
  simp only [this, Option.isSome_some, if_true]
  exact OL.remove_some _ _ r.id r h.matcher h.uids hr (hT.wf r hwf) rfl

theorem g_remove_none (S : RouterG O) (L : List Route) (id : String) (h : RReprG OL S L)
    (hno : ∀ r ∈ L, r.id ≠ id) : (RouterG.remove O id S).2 = none := by
  unfold RouterG.remove
  cases hl : alookup id S.routes with
  | none => simp
  | some r0 =>
    simp only [Option.isSome_some, if_true]
    exact OL.remove_none _ _ id h.matcher hno

/-! ### batch_remove, apply_change_set -/

theorem g_batch (S : RouterG O) (L : List Route) (ids : List String) (h : RReprG OL S L) :
    RReprG OL (RouterG.batchRemove O ids S) (L.filter (fun r => !ids.contains r.id)) := by
  unfold RouterG.batchRemove
  refine ⟨OL.repr_batch _ _ ids h.matcher, nodupIds_filter _ _ h.ids, ?_, ?_⟩
  · intro e he; exact h.keyed e (List.mem_filter.mp he).1
  · exact map_snd_filter_key E OL hT S L h (fun k => !ids.contains k)

theorem g_insertAll (rs : List Route) (hg : ∀ r ∈ rs, GoodR r) :
    ∀ (S : RouterG O) (L : List Route), RReprG OL S L →
    FreshAll rs L → RReprG OL (rs.foldl (fun S r => RouterG.insert O r S) S) (insertAll rs L) := by
  induction rs with
  | nil => intro S L h _; exact h
  | cons r rs ih =>
    intro S L h hf
    simp only [List.foldl_cons, insertAll]
    exact ih (fun x hx => hg x (List.mem_cons_of_mem _ hx)) _ _
      (g_insert E OL hT S L r h hf.1 (hg r (List.mem_cons_self ..))) hf.2

theorem g_changeSet (S : RouterG O) (L : List Route) (added updated : List Route)
    (removed : List String) (h : RReprG OL S L)
    (hf : FreshAll (updated ++ added)
      (L.filter (fun r => !(removed ++ updated.map (·.id)).contains r.id)))
    (hg : ∀ r ∈ updated ++ added, GoodR r) :
    RReprG OL (RouterG.applyChangeSet O added updated removed S) (liveChangeSet added updated removed L) := by
  unfold RouterG.applyChangeSet liveChangeSet
  have h1 := g_batch E OL hT S L (removed ++ updated.map (·.id)) h
  have split : ∀ (us as : List Route) (L0 : List Route), FreshAll (us ++ as) L0 →
      FreshAll us L0 ∧ FreshAll as (insertAll us L0) := by
    intro us
    induction us with
    | nil => intro as L0 hf; exact ⟨trivial, hf⟩
    | cons u us ih =>
      intro as L0 hf
      have := ih as (u :: L0) hf.2
      exact ⟨⟨hf.1, this.1⟩, this.2⟩
  have hs := split updated added _ hf
  have h2 := g_insertAll E OL hT updated (fun r hr => hg r (List.mem_append_left _ hr)) _ _ h1 hs.1
  exact g_insertAll E OL hT added (fun r hr => hg r (List.mem_append_right _ hr)) _ _ h2 hs.2

/-! ### cache -/

omit E hT in
theorem cacheLoop_repr (L : List Route) (fuel : Nat) : ∀ (prev : Int) (level retry : Nat) (m : O.M),
    OL.Repr m L → OL.Repr (RouterG.cacheLoop O fuel prev level retry m).1 L := by
  induction fuel with
  | zero => intro prev level retry m h; exact h
  | succ fuel ih =>
    intro prev level retry m h
    unfold RouterG.cacheLoop
    by_cases hp : prev > 0
    · have hr := OL.repr_cache m L prev.toNat level h
      simp only [hp, if_true]
      split
      · split
        · exact hr
        · exact ih _ _ _ _ hr
      · exact ih _ _ _ _ hr
    · simp only [hp, if_false]; exact h

omit E hT in
/-- `Router::cache` changes nothing the representation relation can see. -/
theorem g_cache (S : RouterG O) (L : List Route) (limit : Option Nat) (h : RReprG OL S L) :
    RReprG OL (RouterG.cache O limit S) L :=
  ⟨cacheLoop_repr OL L _ _ _ _ _ h.matcher, h.ids, h.keyed, h.perm⟩

omit E OL hT in
theorem asI64_lt (n : Nat) : RouterG.asI64 n < 2 ^ 63 := by
  unfold RouterG.asI64
  have : n % 2 ^ 64 < 2 ^ 64 := Nat.mod_lt _ (by decide)
  split <;> omega

omit E OL hT in
theorem asI64_of_lt (n : Nat) (h : n < 2 ^ 63) : RouterG.asI64 n = n := by
  unfold RouterG.asI64
  have : n % 2 ^ 64 = n := Nat.mod_eq_of_lt (by omega)
  rw [this]; simp [h]

omit E hT in
include OL in
/-- **The `while prev_cache_limit > 0` loop terminates**: every iteration either lowers the budget
(a matcher's `cache` never returns more than it got) or uses up one of the six retries, so
`prev + 6` iterations suffice. -/
theorem cacheLoop_terminates (fuel : Nat) : ∀ (prev : Int) (level retry : Nat) (m : O.M),
    prev < 2 ^ 63 → retry ≤ 5 → prev.toNat + (5 - retry) < fuel →
    (RouterG.cacheLoop O fuel prev level retry m).2.2 = false := by
  induction fuel with
  | zero => intro prev level retry m _ _ hf; omega
  | succ fuel ih =>
    intro prev level retry m hlt hr hf
    unfold RouterG.cacheLoop
    by_cases hp : prev > 0
    · simp only [hp, if_true]
      have hle := OL.cache_le m prev.toNat level
      have hn : (O.cache prev.toNat level m).2 < 2 ^ 63 := by omega
      have hnext : RouterG.asI64 (O.cache prev.toNat level m).2 = ((O.cache prev.toNat level m).2 : Int) :=
        asI64_of_lt _ hn
      rw [hnext]
      split
      · rename_i heq
        split
        · rfl
        · rename_i hretry
          apply ih
          · omega
          · omega
          · have : ((O.cache prev.toNat level m).2 : Int) = prev := by simpa using heq
            omega
      · rename_i hne
        apply ih
        · omega
        · exact hr
        · have : ((O.cache prev.toNat level m).2 : Int) ≠ prev := by simpa using hne
          omega
    · simp only [hp, if_false]

/-! ### build -/

omit hT in
theorem insertAll_eq (rs L : List Route) : insertAll rs L = rs.reverse ++ L := by
  induction rs generalizing L with
  | nil => rfl
  | cons r rs ih => simp [insertAll, List.foldl_cons] at ih ⊢

omit hT in
theorem freshAll_of_nodupIds (rs : List Route) (h : NodupIds rs) : FreshAll rs [] := by
  have key : ∀ (rs L : List Route), NodupIds (L.reverse ++ rs) → FreshAll rs L := by
    intro rs
    induction rs with
    | nil => intro L _; trivial
    | cons r rs ih =>
      intro L hn
      refine ⟨?_, ih (r :: L) (by simpa [List.reverse_cons, List.append_assoc] using hn)⟩
      unfold NodupIds at hn
      simp only [List.map_append, List.map_reverse, List.map_cons] at hn
      rw [List.nodup_append] at hn
      intro hin
      exact hn.2.2 r.id (by simpa using hin) r.id (List.mem_cons_self ..) rfl
  exact key rs [] (by simpa using h)

theorem g_build (R : List Route) (h : NodupIds R) (hg : ∀ r ∈ R, GoodR r) :
    RReprG OL (RouterG.build O R) R.reverse := by
  have := g_insertAll E OL hT R hg (RouterG.empty O) [] (g_empty E OL hT) (freshAll_of_nodupIds R h)
  rw [insertAll_eq, List.append_nil] at this
  exact this

end

/-! ### the specification-level tower -/

section
variable (E : Env)

theorem towerL_wf {P0 : MOps} (PL : MLaws P0) {P : Type} [DecidableEq P] (H : HostCfg P)
    (hPw : ∀ r, PL.wf r) (r : Route) (h : WFRoute r) : (towerL E PL H).wf r := by
  have hscheme : Scheme.keysOf r ≠ some [] := by
    unfold Scheme.keysOf
    cases r.scheme with
    | none => simp
    | some s => by_cases e : s = "" <;> simp [e]
  have hhost : Host.keysOf H r ≠ some [] := by
    unfold Host.keysOf
    cases r.host with
    | none => simp
    | some sd =>
      cases sd with
      | static x => by_cases e : x = "" <;> simp [e]
      | dyn p => simp
  have hmethod : Method.keysOf r ≠ some [] := by
    unfold Method.keysOf
    cases r.methods with
    | none => simp
    | some ms =>
      cases ms with
      | nil => simp
      | cons m ms => by_cases e : r.excludeMethods.isSome = true <;> simp [e]
  have hheader : Header.keysOf E r ≠ some [] := by
    unfold Header.keysOf; split <;> simp
  have hdt : DateTime.keysOf r ≠ some [] := by
    unfold DateTime.keysOf; simp only; split <;> simp
  exact ⟨⟨⟨⟨⟨⟨hPw r, hdt⟩, hheader⟩, hmethod⟩, h⟩, hhost⟩, hscheme⟩

theorem tower_wf (r : Route) (h : WFRoute r) : (towerLaws E).wf r :=
  towerL_wf E (pathLaws E) (specHost E) (fun _ => trivial) r h

theorem towerSpec : TowerSpec E (towerLaws E) (fun _ => True) :=
  ⟨tower_sat E, tower_wf E, fun _ _ => trivial⟩

/-- Router state `S` (specification-level tower) represents the list `L` of live routes. -/
abbrev RRepr (S : Router E) (L : List Route) : Prop := RReprG (towerLaws E) S L

theorem rrepr_empty : RRepr E (Router.empty E) [] := g_empty E (towerLaws E) (towerSpec E)

theorem rrepr_mem_match (S : Router E) (L : List Route) (h : RRepr E S L) (q : Req) (r : Route) :
    r ∈ S.matchReq E q ↔ r ∈ L ∧ sat E L r q = true := g_mem_match E _ (towerSpec E) S L h q r

theorem rrepr_nodup_match (S : Router E) (L : List Route) (h : RRepr E S L) (q : Req) :
    (S.matchReq E q).Nodup ∧ ((S.matchReq E q).map (·.id)).Nodup :=
  g_nodup_match E _ (towerSpec E) S L h q

theorem sat_congr (L L' : List Route) (r : Route) (q : Req) (h : ∀ x, x ∈ L ↔ x ∈ L') :
    sat E L r q = sat E L' r q := g_sat_congr E _ (towerSpec E) L L' r q h

theorem rrepr_match_perm (S S' : Router E) (L L' : List Route) (h : RRepr E S L) (h' : RRepr E S' L')
    (hm : ∀ x, x ∈ L ↔ x ∈ L') (q : Req) : (S.matchReq E q).Perm (S'.matchReq E q) :=
  g_match_perm E _ (towerSpec E) S S' L L' h h' hm q

theorem rrepr_mem_rawTrace (S : Router E) (L : List Route) (h : RRepr E S L) (q : Req) (r : Route) :
    r ∈ rawRoutesOfList (S.trace E q) ↔ r ∈ S.matchReq E q := g_mem_rawTrace E _ (towerSpec E) S L h q r

theorem rrepr_mem_trace (S : Router E) (L : List Route) (h : RRepr E S L) (q : Req) (r : Route) :
    r ∈ routesOfList (S.trace E q) ↔ r ∈ S.matchReq E q := g_mem_trace E _ (towerSpec E) S L h q r

theorem rrepr_trace_perm (S : Router E) (L : List Route) (h : RRepr E S L) (q : Req) :
    (routesOfList (S.trace E q)).Perm (S.matchReq E q) := g_trace_perm E _ (towerSpec E) S L h q

theorem rrepr_len (S : Router E) (L : List Route) (h : RRepr E S L) : S.len E = L.length :=
  g_len E _ (towerSpec E) S L h

theorem rrepr_lookup (S : Router E) (L : List Route) (h : RRepr E S L) (id : String) (r : Route) :
    S.getRouteById E id = some r ↔ (r ∈ L ∧ r.id = id) := g_lookup E _ (towerSpec E) S L h id r

theorem rrepr_insert (S : Router E) (L : List Route) (r : Route) (h : RRepr E S L)
    (hfresh : r.id ∉ L.map (·.id)) : RRepr E (S.insert E r) (r :: L) :=
  g_insert E _ (towerSpec E) S L r h hfresh trivial

theorem rrepr_remove (S : Router E) (L : List Route) (id : String) (h : RRepr E S L) :
    RRepr E (S.remove E id).1 (L.filter (fun r => r.id != id)) := g_remove E _ (towerSpec E) S L id h

theorem rrepr_remove_some (S : Router E) (L : List Route) (r : Route) (h : RRepr E S L)
    (hr : r ∈ L) (hwf : WFRoute r) : (S.remove E r.id).2 = some r :=
  g_remove_some E _ (towerSpec E) S L r h hr hwf

theorem rrepr_remove_none (S : Router E) (L : List Route) (id : String) (h : RRepr E S L)
    (hno : ∀ r ∈ L, r.id ≠ id) : (S.remove E id).2 = none := g_remove_none E _ (towerSpec E) S L id h hno

theorem rrepr_batch (S : Router E) (L : List Route) (ids : List String) (h : RRepr E S L) :
    RRepr E (S.batchRemove E ids) (L.filter (fun r => !ids.contains r.id)) :=
  g_batch E _ (towerSpec E) S L ids h

theorem rrepr_changeSet (S : Router E) (L : List Route) (added updated : List Route)
    (removed : List String) (h : RRepr E S L)
    (hf : FreshAll (updated ++ added)
      (L.filter (fun r => !(removed ++ updated.map (·.id)).contains r.id))) :
    RRepr E (S.applyChangeSet E added updated removed) (liveChangeSet added updated removed L) :=
  g_changeSet E _ (towerSpec E) S L added updated removed h hf (fun _ _ => trivial)

theorem rrepr_build (R : List Route) (h : NodupIds R) : RRepr E (Router.build E R) R.reverse :=
  g_build E _ (towerSpec E) R h (fun _ _ => trivial)

end

end Rio.Router
