/-
W21 — helper lemmas for Props/C09gen.lean: the request-side URL normaliser TRANSLATED from src/http/query.rs
(`Rio.Consts.genSanitizeUrl`, `Rio.Consts.genPqsFromConfig`, plugin tools/consts_dev/w21_urlnorm.py) against the hand-written
model `Rio.Url.fromConfig` (Model/Url.lean).

`fromConfigP` is the hand model with its seven external functions (percent-encoder, `PathAndQuery` parse / `path()` /
`query()`, `form_urlencoded::parse`, the `BTreeMap` collect, `to_lowercase`) turned into PARAMETERS; `fromConfigP_standins`
shows that it is `fromConfig` when the parameters are the executable stand-ins of Model/Url.lean, and
`gen_eq_fromConfigP` that the translated code computes it for ARBITRARY parameter functions.
-/
import RioModel.Model.Url
import RioModel.Generated.Consts
set_option linter.unusedSimpArgs false
set_option linter.unusedVariables false

namespace Rio.UrlGen
open Rio.Url Rio.Consts

/-- the four fields of `PathAndQueryWithSkipped` in declaration order (the shape of the translated result). -/
def toTuple (r : PQS) : Bytes × Option Bytes × Option Bytes × Bytes :=
  (r.pathAndQuery, r.matching, r.skipped, r.original)

/-- `reqParam` over an arbitrary encoder. -/
def reqParamP (enc : List Nat → Bytes → Bytes) (kv : Bytes × Bytes) : Bytes :=
  enc querySet kv.1 ++ (if !kv.2.isEmpty then 61 :: enc querySet kv.2 else [])

/-- the step of `splitParams` over an arbitrary encoder: (query_string, skipped_query_params). -/
def stepP (enc : List Nat → Bytes → Bytes) (im : Bool) (mk : List Bytes) (acc : Bytes × Bytes)
    (kv : Bytes × Bytes) : Bytes × Bytes :=
  if im && mk.contains kv.1 then (acc.1, pushParam acc.2 (reqParamP enc kv))
  else (pushParam acc.1 (reqParamP enc kv), acc.2)

/-- `fromConfig` with the external functions as parameters. -/
def fromConfigP {π : Type} (enc : List Nat → Bytes → Bytes) (parse : Bytes → Option π) (path : π → Bytes)
    (query : π → Option Bytes) (pq : Bytes → List (Bytes × Bytes))
    (bt : List (Bytes × Bytes) → List (Bytes × Bytes)) (lower : Bytes → Bytes) (cfg : Cfg) (u : Bytes) : PQS :=
  match parse (enc urlSet u) with
  | none =>
    { pathAndQuery := enc urlSet u,
      matching := some (if cfg.ignoreCase then lower (enc urlSet u) else enc urlSet u),
      skipped := none, original := u }
  | some p =>
    let sp : Bytes × Bytes :=
      match query p with
      | none => ([], [])
      | some q => (bt (pq q)).foldl (stepP enc cfg.ignoreMarketing cfg.marketing) ([], [])
    let npq := if !sp.1.isEmpty then path p ++ 63 :: sp.1 else path p
    { pathAndQuery := npq,
      matching := some (if cfg.ignoreCase then lower npq else npq),
      skipped := if cfg.passMarketing && !sp.2.isEmpty then some sp.2 else none,
      original := u }

theorem stepP_standin (cfg : Cfg) :
    stepP pctEncode cfg.ignoreMarketing cfg.marketing =
      (fun (acc : Bytes × Bytes) kv =>
        if isMarketing cfg kv.1 then (acc.1, pushParam acc.2 (reqParam kv))
        else (pushParam acc.1 (reqParam kv), acc.2)) := by
  funext acc kv
  simp [stepP, isMarketing, reqParam, reqParamP]

/-- the parametrised model at the stand-ins of Model/Url.lean IS the hand-written model. -/
theorem fromConfigP_standins (cfg : Cfg) (u : Bytes) :
    fromConfigP pctEncode pqParse (fun x => pqPath x.1) (fun x => x.2) parseQuery btCollect lowerAscii cfg u =
      fromConfig cfg u := by
  unfold fromConfigP fromConfig sanitize
  cases h : pqParse (pctEncode urlSet u) with
  | none => simp [lowerIf, h]
  | some x =>
    obtain ⟨p, q⟩ := x
    cases q with
    | none => simp [lowerIf, h]
    | some q => simp [lowerIf, h, splitParams, stepP_standin]

/-- a fold whose state is kept in the other order. -/
theorem foldl_swap {α β γ : Type} (f : β × α → γ → β × α) (g : α × β → γ → α × β)
    (h : ∀ st kv, f st kv = ((g (st.2, st.1) kv).2, (g (st.2, st.1) kv).1)) (m : List γ) (a : α) (b : β) :
    List.foldl f (b, a) m = ((List.foldl g (a, b) m).2, (List.foldl g (a, b) m).1) := by
  induction m generalizing a b with
  | nil => rfl
  | cons x xs ih =>
    simp only [List.foldl_cons]
    rw [h]
    exact ih _ _

theorem querySet_eq : encSetQueryRsQueryEncodeSet = querySet := rfl
theorem urlSet_eq : encSetQueryRsUrlEncodeSet = urlSet := rfl

/-- **translated = parametrised model, for arbitrary parameter functions.** -/
theorem gen_eq_fromConfigP {π : Type} (enc : List Nat → Bytes → Bytes) (parse : Bytes → Option π)
    (path : π → Bytes) (query : π → Option Bytes) (pq : Bytes → List (Bytes × Bytes))
    (bt : List (Bytes × Bytes) → List (Bytes × Bytes)) (lower : Bytes → Bytes) (cfg : Cfg) (u : Bytes) :
    genPqsFromConfig enc parse path query pq bt lower cfg.ignoreCase cfg.ignoreMarketing cfg.passMarketing
        cfg.marketing u =
      toTuple (fromConfigP enc parse path query pq bt lower cfg u) := by
  obtain ⟨ic, im, pm, mk, hc, hh⟩ := cfg
  unfold genPqsFromConfig fromConfigP toTuple genSanitizeUrl
  simp only [querySet_eq, urlSet_eq]
  cases ic <;> cases pm <;> cases h : parse (enc urlSet u) with
  | none => simp
  | some p =>
    simp only []
    cases hq : query p with
    | none => simp
    | some q =>
      simp only []
      rw [foldl_swap (g := stepP enc im mk)]
      · simp [List.append_assoc]
      · intro st kv
        simp only [stepP, pushParam, reqParamP]
        by_cases hm : (im = true ∧ kv.1 ∈ mk) <;>
          by_cases hv : kv.2.isEmpty = true <;>
          by_cases h1 : st.1.isEmpty = true <;> by_cases h2 : st.2.isEmpty = true <;>
          simp [hm, hv, h1, h2, List.append_assoc]

/-! ### rule side: `Request::build_sorted_query` -/

/-- `sortedParam` over an arbitrary encoder. -/
def sortedParamP (enc : List Nat → Bytes → Bytes) (kv : Bytes × Bytes) : Bytes :=
  enc sortedQuerySet kv.1 ++ (if !kv.2.isEmpty then 61 :: enc sortedQuerySet kv.2 else []) ++ [38]

/-- `buildSortedQuery` with the external functions as parameters. -/
def buildSortedQueryP (enc : List Nat → Bytes → Bytes) (pq : Bytes → List (Bytes × Bytes))
    (bt : List (Bytes × Bytes) → List (Bytes × Bytes)) (q : Bytes) : Option Bytes :=
  if (((bt (pq q)).flatMap (sortedParamP enc)).dropLast).isEmpty then none
  else some ((bt (pq q)).flatMap (sortedParamP enc)).dropLast

theorem buildSortedQueryP_standins (q : Bytes) :
    buildSortedQueryP pctEncode parseQuery btCollect q = buildSortedQuery q := by
  unfold buildSortedQueryP buildSortedQuery
  have : sortedParamP pctEncode = sortedParam := by
    funext kv; simp [sortedParamP, sortedParam]
  simp [this]

/-- a loop that only appends is a `flatMap`. -/
theorem foldl_eq_flatMap {γ : Type} (g : Bytes → γ → Bytes) (f : γ → Bytes)
    (h : ∀ st kv, g st kv = st ++ f kv) (m : List γ) (acc : Bytes) :
    List.foldl g acc m = acc ++ m.flatMap f := by
  induction m generalizing acc with
  | nil => simp
  | cons x xs ih => simp [List.foldl_cons, h, ih, List.append_assoc]

theorem sortedQuerySet_eq : encSetRequestRsQueryEncodeSet = sortedQuerySet := rfl

/-- **translated `build_sorted_query` = parametrised model, for arbitrary parameter functions.** -/
theorem gen_sorted_eq_P (enc : List Nat → Bytes → Bytes) (pq : Bytes → List (Bytes × Bytes))
    (bt : List (Bytes × Bytes) → List (Bytes × Bytes)) (q : Bytes) :
    genBuildSortedQuery enc pq bt q = buildSortedQueryP enc pq bt q := by
  unfold genBuildSortedQuery buildSortedQueryP
  dsimp only
  rw [foldl_eq_flatMap (f := sortedParamP enc)]
  · simp
  · intro st kv
    simp only [sortedParamP, ← sortedQuerySet_eq]
    by_cases hv : kv.2.isEmpty = true <;> simp [hv, List.append_assoc]

/-- what `query_string.pop()` removes is the ASCII `&` just pushed (or nothing): the string built by the loop is empty
or ends in 38, for every encoder and every map. -/
theorem flatMap_sortedParamP_last (enc : List Nat → Bytes → Bytes) (m : List (Bytes × Bytes)) :
    m.flatMap (sortedParamP enc) = [] ∨ ∃ t, m.flatMap (sortedParamP enc) = t ++ [38] := by
  induction m with
  | nil => exact Or.inl rfl
  | cons x xs ih =>
    right
    rcases ih with h | ⟨t, h⟩
    · exact ⟨enc sortedQuerySet x.1 ++ (if !x.2.isEmpty then 61 :: enc sortedQuerySet x.2 else []), by
        simp [List.flatMap_cons, h, sortedParamP]⟩
    · exact ⟨sortedParamP enc x ++ t, by simp [List.flatMap_cons, h, List.append_assoc]⟩

theorem ite_some_ne_nil (c : Bool) (s : Bytes) :
    (if (c && !s.isEmpty) = true then some s else none) ≠ some [] := by
  cases s <;> cases c <;> simp

end Rio.UrlGen
