/-
Bridge between the router model (W2: `Rio.Router.Route`, the part of a route that matching reads)
and the action model (`Rio.Action.Rule`, the part of `route.handler()` that the action reads).

The two record types do not meet: a `Router.Route` has no handler field, an `Action.Rule` has no
triggers.  The composition theorems therefore take the projection `ruleOf : Route → Rule`
("`route.handler()`, seen by the action code") as a PARAMETER and need one fact about it:
`HandlerOf ruleOf` — routes with different ids carry rules with different ids (in the code
`Route.id = rule.id.clone()`).  `handlerOfRoute` is the canonical instance (id = UTF-8 bytes of the
route id, rank = `-priority`, any assignment of effects to ids), so the hypothesis is not vacuous.
-/
import RioModel.Model.RouterBase
import RioModel.Proofs.ActionSort
set_option linter.unusedSimpArgs false

namespace Rio.Action

/-- `ruleOf` is faithful on ids. -/
structure HandlerOf (ruleOf : Rio.Router.Route → Rule) : Prop where
  id_inj : ∀ a b : Rio.Router.Route, (ruleOf a).id = (ruleOf b).id → a.id = b.id

/-- Routes with pairwise distinct ids carry rules with pairwise distinct ids. -/
theorem HandlerOf.nodupIds {ruleOf : Rio.Router.Route → Rule} (h : HandlerOf ruleOf)
    (L : List Rio.Router.Route) (hL : (L.map (·.id)).Nodup) : NodupIds (L.map ruleOf) := by
  unfold NodupIds
  induction L with
  | nil => simp
  | cons x xs ih =>
    simp only [List.map_cons, List.nodup_cons, List.mem_map, not_exists, not_and] at hL ⊢
    refine ⟨?_, ih hL.2⟩
    intro r ⟨y, hy, hry⟩ hid
    subst hry
    exact hL.1 y hy (h.id_inj y x hid)

/-- UTF-8 bytes of a Rust `String`. -/
def utf8 (s : String) : RuleId := s.toUTF8.data.toList.map (·.toNat)

theorem utf8_inj (a b : String) (h : utf8 a = utf8 b) : a = b := by
  unfold utf8 at h
  have h1 : a.toUTF8.data.toList = b.toUTF8.data.toList :=
    (List.map_inj_right (fun x y hxy => UInt8.toNat_inj.mp hxy)).mp h
  have h2 : a.toUTF8 = b.toUTF8 := by
    apply ByteArray.ext
    exact Array.toList_inj.mp h1
  exact String.toByteArray_inj.mp h2

/-- The canonical projection: the rule of a route has the route's id (as bytes), rank `-priority`
(`IntoRoute`: `priority = 0 - rank`) and the effects `effects id` says. -/
def handlerOfRoute (effects : String → Rule) (r : Rio.Router.Route) : Rule :=
  { effects r.id with id := utf8 r.id, rank := (-r.priority).toNat }

theorem handlerOfRoute_ok (effects : String → Rule) : HandlerOf (handlerOfRoute effects) :=
  ⟨fun a b h => utf8_inj a.id b.id h⟩

end Rio.Action
