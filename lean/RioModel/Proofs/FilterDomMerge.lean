/-
C15 (W13): adjacent verbatim pieces.  The reference edit leaves the inserted value as ONE verbatim node next to whatever
stood there: two adjacent text pieces (`a` + value `b`, or `a`, EMPTY value, `b` after a replace) are ONE text token for
the tokenizer, so the document the next filter sees is outside `Simple2` although its bytes are fine.

`mergeL` merges every run of adjacent verbatim pieces into one piece (recursively); the bytes do not change, the merged
piece is read as a forest by `vtP` (Proofs/FilterDomUniv2.lean), and the reference edit commutes with merging:

  `serializeList_mergeL`   `serializeList (mergeL d) = serializeList d`
  `mergeL_idem`            `mergeL (mergeL d) = mergeL d`
  `mergeL_editD`           `mergeL (editD dec (mergeL d) f) = mergeL (editD dec d f)` when `dec` depends on the bytes only
  `mergeL_editAllM`        hence `serializeList (editAllM dec d fs) = serializeList (editAllD dec d fs)` where `editAllM`
                           merges before every edit
-/
import RioModel.Proofs.FilterDomUniv3
set_option linter.unusedSimpArgs false
set_option linter.unusedVariables false
set_option linter.unusedSectionVars false

namespace Rio.Filter

/-- put a node in front of a merged list -/
def consM : Node → List Node → List Node
  | .verb a m, .verb b m' :: rest => .verb (a ++ b) (m ++ m') :: rest
  | x, l => x :: l

mutual
  def mergeN : Node → Node
    | .verb r m => .verb r m
    | .el nm d a k cs => .el nm d a k (mergeL cs)
  /-- every run of adjacent verbatim pieces merged into one, at every level -/
  def mergeL : List Node → List Node
    | [] => []
    | n :: ns => consM (mergeN n) (mergeL ns)
end

theorem consM_el (nm d a : Bytes) (k : ElKind) (cs : List Node) (l : List Node) :
    consM (.el nm d a k cs) l = .el nm d a k cs :: l := by
  simp [consM]

theorem consM_verb_cases (a : Bytes) (m : List Bytes) (l : List Node) :
    (∃ b m' r, l = .verb b m' :: r ∧ consM (.verb a m) l = .verb (a ++ b) (m ++ m') :: r) ∨
    consM (.verb a m) l = .verb a m :: l := by
  match l with
  | [] => exact Or.inr rfl
  | .verb b m' :: r => exact Or.inl ⟨b, m', r, rfl, rfl⟩
  | .el _ _ _ _ _ :: r => exact Or.inr rfl

theorem consM_assoc (a b : Bytes) (m m' : List Bytes) (l : List Node) :
    consM (.verb a m) (consM (.verb b m') l) = consM (.verb (a ++ b) (m ++ m')) l := by
  match l with
  | [] => rfl
  | .verb c m'' :: r => simp [consM, List.append_assoc]
  | .el _ _ _ _ _ :: r => rfl

theorem serializeList_consM (x : Node) (l : List Node) :
    serializeList (consM x l) = serialize x ++ serializeList l := by
  match x, l with
  | .verb a m, [] => rfl
  | .verb a m, .verb b m' :: r => simp [consM, serializeList, serialize, List.append_assoc]
  | .verb a m, .el _ _ _ _ _ :: r => rfl
  | .el _ _ _ _ _, l => simp [consM, serializeList]

mutual
  theorem serialize_mergeN : ∀ n : Node, serialize (mergeN n) = serialize n
    | .verb r m => by simp [mergeN]
    | .el nm d a k cs => by
      cases k <;> simp [mergeN, serialize, serializeList_mergeL cs]
  /-- **merging does not change a byte** -/
  theorem serializeList_mergeL : ∀ ns : List Node, serializeList (mergeL ns) = serializeList ns
    | [] => by simp [mergeL]
    | n :: ns => by
      simp [mergeL, serializeList_consM, serializeList, serialize_mergeN n, serializeList_mergeL ns]
end

theorem mergeL_cons (n : Node) (ns : List Node) : mergeL (n :: ns) = consM (mergeN n) (mergeL ns) := by
  simp [mergeL]

theorem mergeN_verb (r : Bytes) (m : List Bytes) : mergeN (.verb r m) = .verb r m := by simp [mergeN]

theorem mergeN_el (nm d a : Bytes) (k : ElKind) (cs : List Node) :
    mergeN (.el nm d a k cs) = .el nm d a k (mergeL cs) := by simp [mergeN]

/-- `mergeL` of a list with a node put in front by `consM`, followed by anything -/
theorem mergeL_consM_append (x : Node) (l b : List Node) :
    mergeL (consM x l ++ b) = consM (mergeN x) (mergeL (l ++ b)) := by
  match x with
  | .el nm d a k cs => simp [consM_el, mergeL_cons]
  | .verb a m =>
    rcases consM_verb_cases a m l with ⟨c, m', r, rfl, h⟩ | h
    · rw [h]
      simp only [List.cons_append, mergeL_cons, mergeN_verb, consM_assoc]
    · rw [h]
      simp only [List.cons_append, mergeL_cons, mergeN_verb]

theorem mergeL_consM (x : Node) (l : List Node) : mergeL (consM x l) = consM (mergeN x) (mergeL l) := by
  have := mergeL_consM_append x l []
  simpa using this

mutual
  theorem mergeN_idem : ∀ n : Node, mergeN (mergeN n) = mergeN n
    | .verb r m => by simp [mergeN]
    | .el nm d a k cs => by simp [mergeN, mergeL_idem cs]
  theorem mergeL_idem : ∀ ns : List Node, mergeL (mergeL ns) = mergeL ns
    | [] => by simp [mergeL]
    | n :: ns => by rw [mergeL_cons, mergeL_consM, mergeN_idem n, mergeL_idem ns]
end

theorem mergeL_append_left : ∀ (a b : List Node), mergeL (mergeL a ++ b) = mergeL (a ++ b)
  | [], b => by simp [mergeL]
  | n :: a, b => by
    rw [mergeL_cons, mergeL_consM_append, mergeN_idem, mergeL_append_left a b, List.cons_append, mergeL_cons]

/-! ### the reference edit commutes with merging -/

section
variable (dec : Node → Bytes → Bool) (hdec : ∀ n s, dec (mergeN n) s = dec n s)
variable (op : EditOp) (sel : Option Bytes) (ins : Node)

/-- a verbatim piece in front: the edit leaves it, merging joins it with what follows -/
theorem mergeL_edit_consM_verb (p : Bytes) (ps : List Bytes) (aw : Bool) (a : Bytes) (m : List Bytes) (l : List Node) :
    mergeL (editListD dec op sel ins p ps aw (consM (.verb a m) l)) =
      consM (.verb a m) (mergeL (editListD dec op sel ins p ps aw l)) := by
  rcases consM_verb_cases a m l with ⟨c, m', r, rfl, h⟩ | h
  · rw [h]
    simp only [editListD, editNodeD, mergeL_cons, mergeN_verb, consM_assoc]
  · rw [h]
    simp only [editListD, editNodeD, mergeL_cons, mergeN_verb]

include hdec in
theorem mergeN_applyOpD (nm d a : Bytes) (k : ElKind) (cs : List Node) :
    mergeN (applyOpD dec op sel ins (.el nm d a k (mergeL cs))) = mergeN (applyOpD dec op sel ins (.el nm d a k cs)) := by
  have hd : ∀ s, dec (.el nm d a k (mergeL cs)) s = dec (.el nm d a k cs) s := by
    intro s
    have := hdec (.el nm d a k cs) s
    rwa [mergeN_el] at this
  have hmap : sel.map (dec (.el nm d a k (mergeL cs))) = sel.map (dec (.el nm d a k cs)) := by
    cases sel <;> simp [hd]
  have hmap' : (sel.map fun s => !dec (.el nm d a k (mergeL cs)) s) = (sel.map fun s => !dec (.el nm d a k cs) s) := by
    cases sel <;> simp [hd]
  cases op with
  | replace =>
    simp only [applyOpD, hmap]
    split
    · rfl
    · simp [mergeN_el, mergeL_idem]
  | append =>
    simp only [applyOpD, hmap']
    split
    · simp only [mergeN_el, mergeL_append_left]
    · simp [mergeN_el, mergeL_idem]
  | prepend =>
    simp only [applyOpD, hmap']
    split
    · simp only [mergeN_el, mergeL_cons, mergeL_idem]
    · simp [mergeN_el, mergeL_idem]

include hdec in
mutual
  theorem mergeN_editNodeD : ∀ (n : Node) (p : Bytes) (ps : List Bytes) (aw : Bool),
      mergeN (editNodeD dec op sel ins p ps aw (mergeN n)) = mergeN (editNodeD dec op sel ins p ps aw n)
    | .verb r m, _, _, _ => by simp [mergeN, editNodeD]
    | .el nm d a k cs, p, ps, aw => by
      rw [mergeN_el]
      unfold editNodeD
      by_cases hb : (nm == p) = true
      · simp only [hb, if_true]
        cases ps with
        | nil => exact mergeN_applyOpD dec hdec op sel ins nm d a k cs
        | cons q qs => simp only [mergeN_el, mergeL_editListD cs q qs false]
      · simp only [hb, Bool.false_eq_true, if_false]
        split
        · simp only [mergeN_el, mergeL_editListD cs p ps true]
        · simp [mergeN_el, mergeL_idem]
  /-- **the reference edit of a merged forest, merged, is the merged reference edit** -/
  theorem mergeL_editListD : ∀ (ns : List Node) (p : Bytes) (ps : List Bytes) (aw : Bool),
      mergeL (editListD dec op sel ins p ps aw (mergeL ns)) = mergeL (editListD dec op sel ins p ps aw ns)
    | [], _, _, _ => by simp [mergeL]
    | .verb r m :: rest, p, ps, aw => by
      rw [mergeL_cons, mergeN_verb, mergeL_edit_consM_verb, mergeL_editListD rest p ps aw]
      simp only [editListD, editNodeD, mergeL_cons, mergeN_verb]
    | .el nm d a k cs :: rest, p, ps, aw => by
      rw [mergeL_cons, mergeN_el, consM_el]
      simp only [editListD, mergeL_cons]
      rw [mergeL_editListD rest p ps aw]
      have := mergeN_editNodeD (.el nm d a k cs) p ps aw
      rw [mergeN_el] at this
      rw [this]
end

include hdec in
theorem mergeL_editD (doc : List Node) (f : BodyFilter) :
    mergeL (editD dec (mergeL doc) f) = mergeL (editD dec doc f) := by
  unfold editD
  split
  · simp only
    split
    · exact mergeL_editListD dec hdec _ _ _ doc _ _ true
    · exact mergeL_idem doc
  · exact mergeL_idem doc

/-- the reference edits with a merge before every edit -/
def editAllM : List Node → List BodyFilter → List Node
  | d, [] => d
  | d, f :: fs => editAllM (editD dec (mergeL d) f) fs

include hdec in
theorem mergeL_editAllM : ∀ (fs : List BodyFilter) (d d' : List Node), mergeL d = mergeL d' →
    mergeL (editAllM dec d fs) = mergeL (editAllD dec d' fs)
  | [], d, d', h => by simpa [editAllM, editAllD] using h
  | f :: fs, d, d', h => by
    simp only [editAllM, editAllD, List.foldl_cons]
    apply mergeL_editAllM fs
    rw [h, mergeL_editD dec hdec d' f]

include hdec in
/-- **merging before every edit does not change the bytes of the result** -/
theorem serializeList_editAllM (doc : List Node) (fs : List BodyFilter) :
    serializeList (editAllM dec doc fs) = serializeList (editAllD dec doc fs) := by
  rw [← serializeList_mergeL (editAllM dec doc fs), mergeL_editAllM dec hdec fs doc doc rfl, serializeList_mergeL]

end

theorem decOf_mergeN (ev : Bytes → Bytes → Bool) (n : Node) (s : Bytes) : decOf ev (mergeN n) s = decOf ev n s := by
  simp [decOf, serialize_mergeN]

/-! ### several filters, the document merged before every filter -/

open Rio.Html Rio.Html.Tokenizer Rio.Consts in
/-- several filters: the MERGED form of every document a filter sees is `Simple2`, valid UTF-8, not empty, holds nothing
back; the filter is in its domain or in its no-op domain on it -/
def StepsSimple4 (L : Laws) (ev : Bytes → Bytes → Bool) : List Node → List BodyFilter → Prop
  | _, [] => True
  | d, f :: fs =>
    Simple2L L (mergeL d) ∧ utf8Split (serializeList d) = some (serializeList d, []) ∧ NoHeld2 (mergeL d) ∧
    (InDomain htmlTokenize vtP (mergeL d) f ∨ NoOp vtP (mergeL d) f) ∧
    (fs ≠ [] → serializeList (editD (decOf ev) (mergeL d) f) ≠ []) ∧
    StepsSimple4 L ev (editD (decOf ev) (mergeL d) f) fs

theorem chained_of_steps4 (L : Laws) (ev : Bytes → Bytes → Bool) :
    ∀ (fs : List BodyFilter) (d : List Node), StepsSimple4 L ev d fs →
      ∃ vs, VisitorsOf fs vs ∧
        Chained htmlTokenize ev vs (serializeList d) (serializeList (editAllM (decOf ev) d fs))
  | [], d, _ => ⟨[], trivial, by simp [Chained, editAllM]⟩
  | f :: fs, d, h => by
    obtain ⟨hs, hu, hh, hdom, hne, hrest⟩ := h
    have hu' : utf8Split (serializeList (mergeL d)) = some (serializeList (mergeL d), []) := by
      rw [serializeList_mergeL]; exact hu
    have hag := tokAgree2_of_laws L (mergeL d) hs hu' hh
    obtain ⟨v, s, hv, hfold, hst⟩ : ∃ v s, VisitorsOf [f] [v] ∧
        (tokensOfList vtP (mergeL d)).foldl (stepTok htmlTokenize ev) (HtmlSt.new v, []) =
          (s, serializeList (editD (decOf ev) (mergeL d) f)) ∧ s.stack = [] := by
      rcases hdom with hdom | hdom
      · exact fold_inDomain htmlTokenize ev vtP vtP_lossless hdom
      · exact fold_noOp vtP htmlTokenize ev vtP_lossless hdom
    obtain ⟨vs, hvs, hch⟩ := chained_of_steps4 L ev fs _ hrest
    refine ⟨v :: vs, ⟨hv.1, hvs⟩, ?_⟩
    have hstage := stageOK_of_fold htmlTokenize ev vtP hag hfold hst
    rw [serializeList_mergeL] at hstage
    refine ⟨_, hstage, ?_, ?_⟩
    · intro hvsne
      apply hne
      intro e; subst e
      cases vs with
      | nil => exact hvsne rfl
      | cons _ _ => simp [VisitorsOf] at hvs
    · simpa [editAllM] using hch

open Rio.Html Rio.Html.Tokenizer Rio.Consts in
/-- decidable `StepsSimple4 simpleLaws ev` -/
def stepsSimple4B (ev : Bytes → Bytes → Bool) : List Node → List BodyFilter → Bool
  | _, [] => true
  | d, f :: fs =>
    simple2LB (mergeL d) && decide (utf8Split (serializeList d) = some (serializeList d, [])) &&
    decide (NoHeld2 (mergeL d)) &&
    (inDomainB htmlTokenize vtP (mergeL d) f || noOpB vtP (mergeL d) f) &&
    (fs.isEmpty || !(serializeList (editD (decOf ev) (mergeL d) f)).isEmpty) &&
    stepsSimple4B ev (editD (decOf ev) (mergeL d) f) fs

theorem stepsSimple4B_sound (ev : Bytes → Bytes → Bool) : ∀ (fs : List BodyFilter) (d : List Node),
    stepsSimple4B ev d fs = true → StepsSimple4 simpleLaws ev d fs
  | [], _, _ => trivial
  | f :: fs, d, h => by
    unfold stepsSimple4B at h
    simp only [Bool.and_eq_true, Bool.or_eq_true, Bool.not_eq_true', List.isEmpty_eq_false_iff,
      decide_eq_true_eq] at h
    obtain ⟨⟨⟨⟨⟨h1, h2⟩, hh⟩, h3⟩, h4⟩, h5⟩ := h
    refine ⟨simple2LB_sound _ h1, h2, hh, ?_, ?_, stepsSimple4B_sound ev fs _ h5⟩
    · rcases h3 with h3 | h3
      · exact Or.inl (inDomainB_sound htmlTokenize vtP h3)
      · exact Or.inr (noOpB_sound vtP h3)
    · intro hne
      rcases h4 with h4 | h4
      · exact absurd (List.isEmpty_iff.mp h4) hne
      · exact h4

end Rio.Filter
