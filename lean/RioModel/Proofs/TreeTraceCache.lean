/-
`trace.rs` vs `cache`: the whole trace tree (`Item::trace` = per node the `original` text, `count`, the `matched`
flag, the children – present only under a matched node –, and the leaf values) is a function of the flag-stripped
tree as soon as the tree satisfies the invariant and stores no empty pattern; `cache` changes nothing but cached
values (`cache_spec_inv`), so it changes no trace.

Read off `regex_radix_tree/trace.rs`: the only field of `Trace` that reads the compiled state is `matched`
(`self.regex.is_match(haystack)`), and through it `children` of a node (`if matched { … }`); `regex` is
`self.regex.original`, `count` is `len()`, `values` are the leaf's values – none of them reads `compiled`.

Also: `Item.mapVals` (the tree with every stored value replaced, structure kept), what `retain` with a closure that
never drops computes on a tree satisfying the invariant (`HostMatcher::cache` stores the warmed buckets back this way).
-/
import RioModel.Proofs.TreeCacheSim
import RioModel.Proofs.TreeTrace
set_option linter.unusedSimpArgs false
set_option linter.unusedVariables false
set_option linter.unusedSectionVars false

namespace Rio.Tree
open Rio.Scan Rio.Regex

variable {ι V : Type} [DecidableEq ι]

/-! ### the trace factors through `strip` -/

theorem lenL_map_strip (cs : List (Item ι V)) : lenL (cs.map Item.strip) = lenL cs := by
  rw [lenL_eq, lenL_eq, List.map_map]
  congr 1
  exact List.map_congr_left fun c _ => by simp [len_strip]

/-- **The trace does not read cached values**: on a tree satisfying the invariant whose stored patterns are non-empty, the
trace of the tree with every cached value dropped is the trace of the tree – the whole `Trace` value, every level. -/
theorem trace_strip (E : Engine) {ic : Bool} (t : Item ι V) (h : t.inv ic = true)
    (hne : ∀ e ∈ t.contents, e.pat ≠ []) (s : List Char) : t.strip.trace E s = t.trace E s := by
  induction t using Item.ind with
  | hE ic' => simp
  | hL rx vs =>
    obtain ⟨h1, _, h3, _⟩ := inv_leaf_iff.1 h
    have : rx.original ≠ [] := by
      cases vs with
      | nil => exact absurd rfl h3
      | cons kv _ => exact hne ⟨rx.original, kv.1, kv.2⟩ (by simp)
    rw [strip_leaf, trace_leaf, trace_leaf, isMatch_strip E rx (Or.inr ⟨h1, this⟩), strip_original]
  | hN rx cs ih =>
    obtain ⟨h1, _, _, _, _, _, h7⟩ := inv_node_iff.1 h
    rw [strip_node, trace_node, trace_node, isMatch_strip E rx (Or.inl h1), strip_original, lenL_map_strip,
      List.map_map]
    have : (cs.map ((fun c => c.trace E s) ∘ Item.strip)) = cs.map fun c => c.trace E s :=
      List.map_congr_left fun c hc => ih c hc (h7 c hc)
        (fun e he => hne e (by simp [mem_contentsL]; exact ⟨c, hc, he⟩))
    rw [this]

/-- Two trees equal up to cached values, both satisfying the invariant, non-empty patterns: identical traces. -/
theorem trace_eq_of_strip_eq (E : Engine) {ic : Bool} {t t' : Item ι V} (hs : t'.strip = t.strip)
    (h : t.inv ic = true) (h' : t'.inv ic = true) (hne : ∀ e ∈ t.contents, e.pat ≠ []) (s : List Char) :
    t'.trace E s = t.trace E s := by
  have hne' : ∀ e ∈ t'.contents, e.pat ≠ [] := by rw [← contents_strip, hs, contents_strip]; exact hne
  rw [← trace_strip E t' h' hne' s, hs, trace_strip E t h hne s]

/-- `Item::cache(left, cache_level, current_level)` at any position, any budget, any level: the trace is unchanged. -/
theorem trace_item_cache (E : Engine) {ic : Bool} (t : Item ι V) (h : t.inv ic = true)
    (hne : ∀ e ∈ t.contents, e.pat ≠ []) (left lvl cur : Nat) {t' : Item ι V} {n : Nat}
    (hc : t.cache E left lvl cur = some (t', n)) (s : List Char) : t'.trace E s = t.trace E s := by
  obtain ⟨t'', n', h', hs, _, hi⟩ := cache_spec_inv E t left lvl cur
  rw [hc] at h'; simp only [Option.some.injEq, Prod.mk.injEq] at h'
  obtain ⟨rfl, rfl⟩ := h'
  exact trace_eq_of_strip_eq E hs h (by rw [hi]; exact h) hne s

/-- `RegexTreeMap::cache(limit, level)` (one level, or the `while left > 0` loop over the levels): the trace is unchanged. -/
theorem trace_treeCache (E : Engine) {ic : Bool} (t : Item ι V) (h : t.inv ic = true)
    (hne : ∀ e ∈ t.contents, e.pat ≠ []) (limit : Nat) (level : Option Nat) {t' : Item ι V} {n : Nat}
    (hc : treeCache E t limit level = some (t', n)) (s : List Char) : t'.trace E s = t.trace E s := by
  obtain ⟨t'', n', h', hs, _, hi⟩ := treeCache_spec_inv E t limit level
  rw [hc] at h'; simp only [Option.some.injEq, Prod.mk.injEq] at h'
  obtain ⟨rfl, rfl⟩ := h'
  exact trace_eq_of_strip_eq E hs h (by rw [hi]; exact h) hne s

/-! ### `retain` with a closure that keeps everything = replacing the values -/

mutual
/-- The tree with every stored value `v` under id `id` replaced by `g id v`; regexes (cached values included) and
structure untouched. -/
def Item.mapVals (g : ι → V → V) : Item ι V → Item ι V
  | .empty ic => .empty ic
  | .leaf rx vs => .leaf rx (vs.map fun kv => (kv.1, g kv.1 kv.2))
  | .node rx cs => .node rx (mapValsL g cs)
def mapValsL (g : ι → V → V) : List (Item ι V) → List (Item ι V)
  | [] => []
  | c :: cs => Item.mapVals g c :: mapValsL g cs
end

theorem mapValsL_eq (g : ι → V → V) (cs : List (Item ι V)) : mapValsL g cs = cs.map (Item.mapVals g) := by
  induction cs with
  | nil => simp [mapValsL]
  | cons c cs ih => simp [mapValsL, ih]

theorem mapVals_empty (g : ι → V → V) (ic : Bool) : (Item.empty ic : Item ι V).mapVals g = .empty ic := by
  rw [Item.mapVals]
theorem mapVals_leaf (g : ι → V → V) (rx) (vs : List (ι × V)) :
    (Item.leaf rx vs).mapVals g = .leaf rx (vs.map fun kv => (kv.1, g kv.1 kv.2)) := by rw [Item.mapVals]
theorem mapVals_node (g : ι → V → V) (rx) (cs : List (Item ι V)) :
    (Item.node rx cs).mapVals g = .node rx (cs.map (Item.mapVals g)) := by rw [Item.mapVals, mapValsL_eq]

theorem retainVals_some (g : ι → V → V) (vs : List (ι × V)) :
    retainVals (fun id v => some (g id v)) vs = vs.map fun kv => (kv.1, g kv.1 kv.2) := by
  unfold retainVals
  induction vs with
  | nil => rfl
  | cons kv vs ih => simp [ih]

/-- Under the invariant only the constructor `Empty` is empty (leaves hold a value, nodes hold ≥ 2 non-`Empty` children). -/
theorem isEmpty_false_of_inv {ic : Bool} (t : Item ι V) (h : t.inv ic = true) (hne : ∀ ic', t ≠ .empty ic') :
    t.isEmpty = false := by
  induction t using Item.ind with
  | hE ic' => exact absurd rfl (hne ic')
  | hL rx vs =>
    obtain ⟨_, _, h3, _⟩ := inv_leaf_iff.1 h
    rw [isEmpty_leaf]; cases vs <;> simp_all
  | hN rx cs ih =>
    obtain ⟨_, _, _, h4, h5, _, h7⟩ := inv_node_iff.1 h
    rw [isEmpty_node]
    cases cs with
    | nil => simp at h4
    | cons c cs' =>
      have hc : c.isEmpty = false := by
        apply ih c (by simp) (h7 c (by simp))
        intro ic' e
        have := h5 c (by simp)
        rw [e] at this; simp [childOk] at this
      simp [hc]

/-- **`retain` with a closure that never drops** (`|id, v| { *v = g(id, v); true }`) on a tree satisfying the invariant
replaces the values and nothing else – no leaf empties, no node collapses. -/
theorem retain_some_eq_mapVals {ic : Bool} (g : ι → V → V) (t : Item ι V) (h : t.inv ic = true) :
    t.retain (fun id v => some (g id v)) = t.mapVals g := by
  induction t using Item.ind with
  | hE ic' => rw [retain_empty, mapVals_empty]
  | hL rx vs =>
    obtain ⟨_, _, h3, _⟩ := inv_leaf_iff.1 h
    rw [retain_leaf, mapVals_leaf, retainVals_some]
    have : (vs.map fun kv => (kv.1, g kv.1 kv.2)).isEmpty = false := by cases vs <;> simp_all
    simp [this]
  | hN rx cs ih =>
    obtain ⟨_, _, _, h4, h5, _, h7⟩ := inv_node_iff.1 h
    have hkeep : ∀ c ∈ cs, keepNonEmpty (c.retain fun id v => some (g id v)) = [c.mapVals g] := by
      intro c hc
      rw [ih c hc (h7 c hc)]
      have hinv' : (c.mapVals g).inv ic = true := by
        rw [← ih c hc (h7 c hc)]; exact inv_retain _ _ (h7 c hc)
      have hnotE : ∀ ic', c.mapVals g ≠ .empty ic' := by
        intro ic' e
        have hco := h5 c hc
        cases c with
        | empty _ => simp [childOk] at hco
        | leaf rx' vs' => rw [mapVals_leaf] at e; cases e
        | node rx' cs' => rw [mapVals_node] at e; cases e
      unfold keepNonEmpty
      rw [isEmpty_false_of_inv _ hinv' hnotE]; simp
    have hL : retainL cs (fun id v => some (g id v)) = cs.map (Item.mapVals g) := by
      rw [retainL_eq]
      have : ∀ (l : List (Item ι V)), (∀ c ∈ l, c ∈ cs) →
          (l.flatMap fun c => keepNonEmpty (c.retain fun id v => some (g id v))) = l.map (Item.mapVals g) := by
        intro l
        induction l with
        | nil => intro _; rfl
        | cons c l ihl =>
          intro hsub
          rw [List.flatMap_cons, hkeep c (hsub c (by simp)), ihl (fun d hd => hsub d (by simp [hd]))]
          rfl
      exact this cs (fun _ hc => hc)
    rw [retain_node, mapVals_node, hL]
    have hlen : 2 ≤ (cs.map (Item.mapVals g)).length := by simpa using h4
    have hne : (cs.map (Item.mapVals g)).isEmpty = false := by
      cases hcs : cs.map (Item.mapVals g) with
      | nil => rw [hcs] at hlen; simp at hlen
      | cons _ _ => rfl
    rw [hne]
    simp only [Bool.false_eq_true, if_false]
    unfold collapse1
    split
    · next c heq => rw [heq] at hlen; simp at hlen
    · rfl

theorem len_mapVals (g : ι → V → V) (t : Item ι V) : (t.mapVals g).len = t.len := by
  induction t using Item.ind with
  | hE ic => rw [mapVals_empty]
  | hL rx vs => rw [mapVals_leaf]; simp [Item.len]
  | hN rx cs ih =>
    rw [mapVals_node]
    simp only [Item.len]
    rw [lenL_eq, lenL_eq, List.map_map]
    congr 1
    exact List.map_congr_left fun c hc => ih c hc

theorem lenL_map_mapVals (g : ι → V → V) (cs : List (Item ι V)) : lenL (cs.map (Item.mapVals g)) = lenL cs := by
  rw [lenL_eq, lenL_eq, List.map_map]
  congr 1
  exact List.map_congr_left fun c _ => len_mapVals g c

end Rio.Tree
