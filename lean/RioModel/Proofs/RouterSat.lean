/-
Router proofs, part 6: the tower of the seven layers satisfies `MLaws`, and its layered `sat`
is the flat specification `sat` of RouterSpec.lean.
-/
import RioModel.Proofs.RouterTower

set_option linter.unusedSimpArgs false
set_option linter.unusedVariables false
set_option linter.unusedSectionVars false

namespace Rio.Router

/-! The tower is assembled over an arbitrary innermost layer `P0` with laws `PL` whose `sat` is the
path trigger, and an arbitrary host configuration `H` agreeing with the environment – so that the
same lemmas serve the specification-level tower (`towerLaws`) and the tower over the real
regex-tree model (RouterTreeTop.lean). -/

section
variable (E : Env) {P0 : MOps} (PL : MLaws P0)

def dateTimeL := dateTimeLaws PL
def headerL := headerLaws (dateTimeL PL) E
def methodL := methodLaws (headerL E PL)
def ipL := ipLaws (methodL E PL)

variable {P : Type} [DecidableEq P] (H : HostCfg P)

def hostL := hostLaws (ipL E PL) H
/-- The laws of a whole tower `SchemeMatcher<T>`. -/
def towerL := schemeLaws (hostL E PL H)

variable (hP : ∀ L r q, PL.sat L r q = pathOk E r q)
  (hfind : ∀ p h, H.find (H.pk p) h = E.hostFind p h) (halways : H.always = E.alwaysAnyHost)

/-! ### the layers below the host layer: `sat` does not depend on the rule set -/

omit PL in
theorem any_and_const {α : Type} (l : List α) (a : α → Bool) (c : Bool) :
    l.any (fun k => a k && c) = (l.any a && c) := by
  induction l with
  | nil => simp
  | cons x l ih => simp only [List.any_cons, ih]; cases a x <;> cases c <;> simp

omit E PL in
theorem dateOk_eq (r : Route) (q : Req) :
    dateOk r q = (DateTime.conds r).all (fun c => DCond.eval c q) := by
  unfold dateOk DateTime.conds DCond.eval
  cases r.datetime <;> cases r.time <;> cases r.weekdays <;> cases q.createdAt <;> simp [Bool.and_assoc]

include hP in
theorem dateTime_sat (L : List Route) (r : Route) (q : Req) :
    (dateTimeL PL).sat L r q = (dateOk r q && pathOk E r q) := by
  show lSat PL DateTime.keysOf (groupAccepts DCond.eval) L r q = _
  unfold lSat
  simp only [hP]
  rw [dateOk_eq]
  unfold DateTime.keysOf
  by_cases he : (DateTime.conds r).isEmpty = true
  · have : DateTime.conds r = [] := by simpa using he
    simp [this]
  · simp only [he, if_false, Bool.false_eq_true, List.any_cons, List.any_nil, Bool.or_false]
    rfl

omit E PL in
theorem mem_insertCond (c x : HCond) (l : List HCond) : x ∈ insertCond c l ↔ x = c ∨ x ∈ l := by
  induction l with
  | nil => simp [insertCond]
  | cons d ds ih =>
    simp only [insertCond]
    by_cases e : c = d
    · subst e; simp
    · simp only [e, if_false]
      by_cases hl : c.lt d = true
      · simp [hl]
      · simp only [hl, if_false, Bool.false_eq_true, List.mem_cons, ih]
        constructor
        · rintro (h | h | h)
          · exact Or.inr (Or.inl h)
          · exact Or.inl h
          · exact Or.inr (Or.inr h)
        · rintro (h | h | h)
          · exact Or.inr (Or.inl h)
          · exact Or.inl h
          · exact Or.inr (Or.inr h)

omit E PL in
theorem mem_canonH_aux (cs : List HCond) (x : HCond) :
    ∀ acc, x ∈ cs.foldl (fun acc c => insertCond c acc) acc ↔ x ∈ acc ∨ x ∈ cs := by
  induction cs with
  | nil => intro acc; simp
  | cons c cs ih =>
    intro acc
    simp only [List.foldl_cons, ih, mem_insertCond, List.mem_cons]
    constructor
    · rintro ((h | h) | h)
      · exact Or.inr (Or.inl h)
      · exact Or.inl h
      · exact Or.inr (Or.inr h)
    · rintro (h | h | h)
      · exact Or.inl (Or.inr h)
      · exact Or.inl (Or.inl h)
      · exact Or.inr h

omit E PL in
/-- the canonical form of a condition set has the same elements -/
theorem mem_canonH (cs : List HCond) (x : HCond) : x ∈ canonH cs ↔ x ∈ cs := by
  unfold canonH; rw [mem_canonH_aux]; simp

omit E PL in
theorem all_congr_mem {α : Type} (l l' : List α) (p : α → Bool) (h : ∀ x, x ∈ l ↔ x ∈ l') :
    l.all p = l'.all p := by
  rw [Bool.eq_iff_iff]
  simp only [List.all_eq_true]
  constructor
  · intro hx x hx'; exact hx x ((h x).2 hx')
  · intro hx x hx'; exact hx x ((h x).1 hx')

include hP in
theorem header_sat (L : List Route) (r : Route) (q : Req) :
    (headerL E PL).sat L r q = (headersOk E r q && (dateOk r q && pathOk E r q)) := by
  show lSat (dateTimeL PL) (Header.keysOf E) (groupAccepts (HCond.eval E)) L r q = _
  unfold lSat Header.keysOf headersOk
  by_cases he : r.headers.isEmpty = true
  · have : r.headers = [] := by simpa using he
    simp only [he, if_true, this, List.all_nil, Bool.true_and]
    exact dateTime_sat E PL hP _ r q
  · simp only [he, if_false, Bool.false_eq_true, List.any_cons, List.any_nil, Bool.or_false]
    rw [dateTime_sat E PL hP]
    congr 1
    unfold groupAccepts
    rw [all_congr_mem _ _ _ (mem_canonH _), List.all_map]
    rfl

include hP in
theorem method_sat (L : List Route) (r : Route) (q : Req) :
    (methodL E PL).sat L r q = (methodOk r q && (headersOk E r q && (dateOk r q && pathOk E r q))) := by
  show lSat (headerL E PL) Method.keysOf Method.accepts L r q = _
  unfold lSat Method.keysOf methodOk
  cases hm : r.methods with
  | none => simp only [Bool.true_and]; exact header_sat E PL hP _ r q
  | some ms =>
    simp only
    by_cases he : ms.isEmpty = true
    · simp only [he, if_true, Bool.true_or, Bool.true_and]; exact header_sat E PL hP _ r q
    · simp only [he, if_false, Bool.false_eq_true, Bool.false_or]
      by_cases hx : r.excludeMethods.isSome = true
      · simp only [hx, if_true, List.any_cons, List.any_nil, Bool.or_false, header_sat E PL hP]
        rfl
      · simp only [hx, if_false, Bool.false_eq_true, header_sat E PL hP]
        rw [any_and_const, List.any_map]
        congr 1
        rw [Bool.eq_iff_iff]
        simp only [List.any_eq_true, Function.comp, Method.accepts, beq_iff_eq, List.contains_iff_mem]
        constructor
        · rintro ⟨x, hx1, hx2⟩; rw [← hx2]; exact hx1
        · intro h; exact ⟨_, h, rfl⟩

include hP in
theorem ip_sat (L : List Route) (r : Route) (q : Req) :
    (ipL E PL).sat L r q =
      (ipOk r q && (methodOk r q && (headersOk E r q && (dateOk r q && pathOk E r q)))) := by
  show lSat (methodL E PL) Ip.keysOf Ip.accepts L r q = _
  unfold lSat Ip.keysOf ipOk
  cases hi : r.ips with
  | none => simp only [Bool.true_and]; exact method_sat E PL hP _ r q
  | some ks =>
    simp only [method_sat E PL hP]
    rw [any_and_const]
    congr 1
    unfold Ip.accepts
    cases q.ip <;> simp

/-- the triggers below the host layer -/
def lowerOk (r : Route) (q : Req) : Bool :=
  ipOk r q && (methodOk r q && (headersOk E r q && (dateOk r q && pathOk E r q)))

include hP in
theorem ip_sat' (L : List Route) (r : Route) (q : Req) : (ipL E PL).sat L r q = lowerOk E r q :=
  ip_sat E PL hP L r q

omit PL in
theorem triggersOk_eq (r : Route) (q : Req) :
    triggersOk E r q = (schemeOk r q && (hostOk E r q && lowerOk E r q)) := by
  unfold triggersOk lowerOk
  simp only [Bool.and_assoc]

/-! ### host layer -/

omit E PL in
theorem hostBound_iff (r : Route) : hostBound r = (Host.keysOf H r).isSome := by
  unfold hostBound Host.keysOf
  cases r.host with
  | none => rfl
  | some sd =>
    cases sd with
    | static h => by_cases e : h = "" <;> simp [e]
    | dyn p => rfl

include hP hfind in
theorem hostBoundSat_eq (L : List Route) (r : Route) (q : Req) :
    hostBoundSat (ipL E PL) H L r q = (hostBound r && (hostOk E r q && lowerOk E r q)) := by
  unfold hostBoundSat
  simp only [ip_sat' E PL hP]
  rw [any_and_const]
  unfold keysL Host.keysOf hostBound hostOk Host.accepts
  generalize lowerOk E r q = c
  cases r.host with
  | none => simp
  | some sd =>
    cases sd with
    | static h =>
      by_cases e : h = ""
      · simp [e]
      · cases hq : q.host with
        | none => simp [e]
        | some hh =>
          have h1 : (h != "") = true := by simpa using e
          have h2 : (h == "") = false := by simpa using e
          have h3 : (h == hh) = (hh == h) := by
            rw [Bool.eq_iff_iff]; simp only [beq_iff_eq]; exact eq_comm
          simp only [e, if_false, Option.getD_some, List.any_cons, List.any_nil, Bool.or_false,
            h1, h2, h3, Bool.true_and, Bool.false_or, Option.some_beq_some]
    | dyn p => cases q.host <;> simp [hfind]

include hP hfind halways in
theorem host_sat (L : List Route) (r : Route) (q : Req) :
    (hostL E PL H).sat L r q =
      (hostOk E r q && lowerOk E r q &&
        (hostBound r || E.alwaysAnyHost ||
          !(L.any (fun r' => hostBound r' && (hostOk E r' q && lowerOk E r' q))))) := by
  show hostSat (ipL E PL) H L r q = _
  unfold hostSat
  simp only [hostBoundSat_eq E PL H hP hfind]
  cases hk : Host.keysOf H r with
  | none =>
    have hb : hostBound r = false := by rw [hostBound_iff H, hk]; rfl
    have ho : hostOk E r q = true := by
      unfold Host.keysOf at hk
      unfold hostOk
      cases hh : r.host with
      | none => rfl
      | some sd =>
        cases sd with
        | static h =>
          by_cases e : h = ""
          · simp [e]
          · simp [hh, e] at hk
        | dyn p => simp [hh] at hk
    simp only [ip_sat' E PL hP, hb, ho, Bool.true_and, Bool.false_or, halways]
  | some ks =>
    have hb : hostBound r = true := by rw [hostBound_iff H, hk]; rfl
    simp only [hb, Bool.true_and, Bool.true_or, Bool.and_true]

/-! ### scheme layer and the flat specification -/

omit E PL in
theorem any_filter {α : Type} (l : List α) (p f : α → Bool) :
    (l.filter p).any f = l.any (fun x => p x && f x) := by
  induction l with
  | nil => simp
  | cons a l ih =>
    simp only [List.filter_cons, List.any_cons]
    cases p a <;> simp [ih]

omit E PL in
theorem any_congr_mem {α : Type} (l : List α) (f g : α → Bool) (h : ∀ x ∈ l, f x = g x) :
    l.any f = l.any g := by
  induction l with
  | nil => rfl
  | cons a l ih =>
    simp only [List.any_cons]
    rw [h a (List.mem_cons_self ..), ih (fun x hx => h x (List.mem_cons_of_mem _ hx))]

omit E PL in
theorem schemeKey_keysOf (r : Route) :
    Scheme.keysOf r = (schemeKey r).map (fun s => [s]) := by
  unfold Scheme.keysOf schemeKey
  cases r.scheme with
  | none => rfl
  | some s => by_cases e : s = "" <;> simp [e]

include hP hfind halways in
/-- The layered `sat` of the tower is the flat specification. -/
theorem towerL_sat (R : List Route) (r : Route) (q : Req) :
    (towerL E PL H).sat R r q = sat E R r q := by
  show lSat (hostL E PL H) Scheme.keysOf Scheme.accepts R r q = _
  unfold lSat sat
  rw [triggersOk_eq]
  simp only [host_sat E PL H hP hfind halways, any_filter, triggersOk_eq]
  rw [schemeKey_keysOf]
  cases hk : schemeKey r with
  | none =>
    have hso : schemeOk r q = true := by unfold schemeOk; rw [hk]
    simp only [Option.map_none, hso, Bool.true_and]
    congr 2
    congr 1
    apply any_congr_mem
    intro r' _
    have hany : isAnyR Scheme.keysOf r' = (schemeKey r' == none) := by
      unfold isAnyR; rw [schemeKey_keysOf]; cases schemeKey r' <;> rfl
    rw [hany]
    cases hk' : schemeKey r' with
    | some s' => simp
    | none =>
      have : schemeOk r' q = true := by unfold schemeOk; rw [hk']
      simp [this]
  | some s =>
    simp only [Option.map_some, List.any_cons, List.any_nil, Bool.or_false]
    have hso : schemeOk r q = Scheme.accepts s q := by unfold schemeOk; rw [hk]; rfl
    rw [hso]
    cases ha : Scheme.accepts s q
    · simp
    · simp only [Bool.true_and]
      congr 2
      congr 1
      apply any_congr_mem
      intro r' _
      have hin : inKey Scheme.keysOf s r' = (schemeKey r' == some s) := by
        unfold inKey keysL; rw [schemeKey_keysOf]
        cases hk' : schemeKey r' with
        | none => simp
        | some s' =>
          simp only [Option.map_some, Option.getD_some, List.mem_singleton]
          rw [Bool.eq_iff_iff]
          simp only [decide_eq_true_eq, beq_iff_eq, Option.some.injEq]
          exact eq_comm
      rw [hin]
      cases hk' : schemeKey r' with
      | none => simp
      | some s' =>
        by_cases e : s' = s
        · subst e
          have : schemeOk r' q = true := by unfold schemeOk; rw [hk']; exact ha
          simp [this]
        · have : (s' == s) = false := by simpa using e
          simp [this]

end

/-! ### the specification-level tower -/

section
variable (E : Env)

/-- The laws of the specification-level tower. -/
def towerLaws : MLaws (towerOps E) := towerL E (pathLaws E) (specHost E)

/-- The layered `sat` of the tower is the flat specification. -/
theorem tower_sat (R : List Route) (r : Route) (q : Req) : (towerLaws E).sat R r q = sat E R r q :=
  towerL_sat E (pathLaws E) (specHost E) (fun _ _ _ => rfl) (fun _ _ => rfl) rfl R r q

end
end Rio.Router
