/-
Closed form of a chain of text stages (C03 `text_chunk_invariant`): whatever the chunking — empty chunks, the `break`
of `do_filter` on an empty intermediate result, the feeding order of `do_end` — the concatenated output is
`textTotal` of the concatenated input.
-/
import RioModel.Proofs.Filter
set_option linter.unusedSimpArgs false
set_option linter.unusedVariables false

namespace Rio.Filter

/-- what a text stage in state `s` makes of the whole remaining stream `b` (its `filter` outputs, then `end`) -/
def stageTotal (s : TextSt) (b : Bytes) : Bytes :=
  match s.action with
  | .append => b ++ (if s.executed then [] else s.content)
  | .prepend => if s.executed then b else s.content ++ b
  | .replace => if s.executed then [] else s.content

theorem stageTotal_filter (s : TextSt) (x b : Bytes) :
    stageTotal s (x ++ b) = (filterText s x).2 ++ stageTotal (filterText s x).1 b := by
  obtain ⟨a, c, e⟩ := s
  cases a <;> cases e <;> simp [stageTotal, filterText]

theorem stageTotal_end (s : TextSt) : stageTotal s [] = (endText s).2 := by
  obtain ⟨a, c, e⟩ := s
  cases a <;> cases e <;> simp [stageTotal, endText]

variable {D E : Type}

def textOf : Stage D E → Option TextSt
  | .text s => some s
  | _ => none

/-- all stages are text stages -/
def AllText (items : List (Stage D E)) : Prop := ∀ st ∈ items, ∃ s, st = .text s

/-- the whole chain on the whole remaining stream -/
def textTotal : List (Stage D E) → Bytes → Bytes
  | [], b => b
  | .text s :: rest, b => textTotal rest (stageTotal s b)
  | _ :: rest, b => textTotal rest b

variable (tk : Tokenize) (ev : Bytes → Bytes → Bool) (codec : Codec D E)

theorem doFilter_text : ∀ (items : List (Stage D E)) (x : Bytes), AllText items →
    ∃ items' out, doFilter tk ev codec items x = (items', some out) ∧ AllText items' ∧
      ∀ b, textTotal items (x ++ b) = out ++ textTotal items' b
  | [], x, _ => ⟨[], x, rfl, fun _ h => by simp at h, fun b => rfl⟩
  | st :: rest, x, hall => by
    obtain ⟨s, rfl⟩ := hall st (by simp)
    have hrest : AllText rest := fun st h => hall st (by simp [h])
    rw [doFilter]
    simp only [Stage.filter]
    by_cases hemp : (filterText s x).2.isEmpty = true
    · rw [if_pos hemp]
      refine ⟨_, _, rfl, ?_, ?_⟩
      · intro st h; simp at h; rcases h with rfl | h
        · exact ⟨_, rfl⟩
        · exact hrest st h
      · intro b
        have ho : (filterText s x).2 = [] := by simpa using hemp
        simp only [textTotal]
        rw [stageTotal_filter, ho]
        simp
    · rw [if_neg hemp]
      obtain ⟨rest', out, h1, h2, h3⟩ := doFilter_text rest (filterText s x).2 hrest
      rw [h1]
      refine ⟨_, out, rfl, ?_, ?_⟩
      · intro st h; simp at h; rcases h with rfl | h
        · exact ⟨_, rfl⟩
        · exact h2 st h
      · intro b
        simp only [textTotal]
        rw [stageTotal_filter, h3]

theorem endWith_text_none (s : TextSt) :
    (Stage.text s : Stage D E).endWith tk ev codec none = (.text (endText s).1, some (endText s).2) := rfl

theorem endWith_text_some (s : TextSt) (str : Bytes) :
    (Stage.text s : Stage D E).endWith tk ev codec (some str) =
      (.text (endText (filterText s str).1).1, some ((filterText s str).2 ++ (endText (filterText s str).1).2)) := rfl

theorem doEnd_text : ∀ (items : List (Stage D E)) (d : Option Bytes), AllText items →
    ∃ items' r, doEnd tk ev codec items d = (items', .ok r) ∧ textTotal items (d.getD []) = r.getD []
  | [], d, _ => ⟨[], d, rfl, rfl⟩
  | st :: rest, d, hall => by
    obtain ⟨s, rfl⟩ := hall st (by simp)
    have hrest : AllText rest := fun st h => hall st (by simp [h])
    rw [doEnd]
    -- the output of this stage
    have hw : ∃ st' nd, (Stage.text s : Stage D E).endWith tk ev codec d = (st', some nd) ∧ stageTotal s (d.getD []) = nd := by
      cases d with
      | none => exact ⟨_, _, endWith_text_none tk ev codec s, stageTotal_end s⟩
      | some str =>
        refine ⟨_, _, endWith_text_some tk ev codec s str, ?_⟩
        have := stageTotal_filter s str []
        simp only [List.append_nil] at this
        show stageTotal s str = _
        rw [this, stageTotal_end]
    obtain ⟨st', nd, hw1, hw2⟩ := hw
    rw [hw1]
    simp only
    obtain ⟨rest', r, h1, h2⟩ := doEnd_text rest (if nd.isEmpty = true then none else some nd) hrest
    rw [h1]
    refine ⟨_, r, rfl, ?_⟩
    simp only [textTotal]
    rw [hw2, ← h2]
    by_cases hemp : nd.isEmpty = true
    · have : nd = [] := by simpa using hemp
      simp [this]
    · simp [hemp]

/-- closed form of a run of a chain of text stages -/
theorem run_text (ch : Chain D E) (hall : AllText ch.items) (herr : ch.inError = false) (cs : List Bytes) :
    ch.run tk ev codec cs = textTotal ch.items cs.flatten := by
  have key : ∀ (cs : List Bytes) (ch : Chain D E), AllText ch.items → ch.inError = false →
      ∃ ch', AllText ch'.items ∧ ch'.inError = false ∧
        ∀ b, textTotal ch.items (cs.flatten ++ b) = (ch.feed tk ev codec cs).2.flatten ++ textTotal ch'.items b ∧
        (ch.feed tk ev codec cs).1 = ch' := by
    intro cs
    induction cs with
    | nil => intro ch h1 h2; exact ⟨ch, h1, h2, fun b => ⟨by simp [Chain.feed], rfl⟩⟩
    | cons x xs ih =>
      intro ch h1 h2
      obtain ⟨items', out, f1, f2, f3⟩ := doFilter_text tk ev codec ch.items x h1
      have hf : ch.filter tk ev codec x = ({ ch with items := items' }, out) := by
        simp [Chain.filter, h2, f1]
      obtain ⟨ch', g1, g2, g3⟩ := ih { ch with items := items' } f2 h2
      refine ⟨ch', g1, g2, fun b => ?_⟩
      obtain ⟨g3a, g3b⟩ := g3 b
      simp only [Chain.feed, hf, List.flatten_cons, List.append_assoc]
      refine ⟨?_, g3b⟩
      rw [f3, g3a]
  obtain ⟨ch', k1, k2, k3⟩ := key cs ch hall herr
  obtain ⟨k3a, k3b⟩ := k3 []
  obtain ⟨items', r, e1, e2⟩ := doEnd_text tk ev codec ch'.items none k1
  simp only [Chain.run, Chain.runOuts, k3b, Chain.end, k2, e1]
  simp only [List.append_nil] at k3a
  rw [k3a]
  simp at e2
  simp [e2]

/-- **Text filters are invariant under chunking** (no hypothesis on the bytes or on the cuts). -/
theorem text_chunk_invariant' (ch : Chain D E) (hall : AllText ch.items) (herr : ch.inError = false) (cs : List Bytes) :
    ch.run tk ev codec cs = ch.run tk ev codec [cs.flatten] := by
  rw [run_text tk ev codec ch hall herr cs, run_text tk ev codec ch hall herr [cs.flatten]]
  simp

end Rio.Filter
