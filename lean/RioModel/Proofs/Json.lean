/-
Generic lemmas about the building blocks of Model/Json.lean: each primitive `de` inverts its
`ser`, `LinkedHashSet` insertion keeps lists duplicate-free, field lookup is insensitive to key
order and to unknown keys.
-/
import RioModel.Model.Json
set_option linter.unusedSimpArgs false

namespace Rio.Json

/-! ### primitives -/

@[simp] theorem deString_str (s : String) : deString (.str s) = some s := rfl
@[simp] theorem deBool_bool (b : Bool) : deBool (.bool b) = some b := rfl

@[simp] theorem deU16_serU16 (c : UInt16) : deU16 (serU16 c) = some c := by
  have h : c.toNat < 65536 := UInt16.toNat_lt c
  have h2 : (c.toNat : Int) < 65536 := by omega
  simp [serU16, deU16, h2]

theorem deOption_serOption {α} (d : Json → Option α) (s : α → Json)
    (hnn : ∀ a, s a ≠ .null) (o : Option α) (h : ∀ a, o = some a → d (s a) = some a) :
    deOption d (serOption s o) = some o := by
  cases o with
  | none => rfl
  | some a =>
    have hd := h a rfl
    simp only [serOption]
    cases hs : s a with
    | null => exact absurd hs (hnn a)
    | _ => simp [deOption, ← hs, hd]

@[simp] theorem deOption_str (o : Option String) : deOption deString (serOption .str o) = some o :=
  deOption_serOption _ _ (by intro a h; cases h) o (by intro a _; rfl)

@[simp] theorem deOption_bool (o : Option Bool) : deOption deBool (serOption .bool o) = some o :=
  deOption_serOption _ _ (by intro a h; cases h) o (by intro a _; rfl)

theorem mapOpt_map {α} (d : Json → Option α) (s : α → Json) (l : List α)
    (h : ∀ a ∈ l, d (s a) = some a) : mapOpt d (l.map s) = some l := by
  induction l with
  | nil => rfl
  | cons a t ih =>
    have ha := h a (by simp)
    have ht := ih (fun b hb => h b (by simp [hb]))
    simp [mapOpt, ha, ht]

theorem deVec_serVec {α} (d : Json → Option α) (s : α → Json) (l : List α)
    (h : ∀ a ∈ l, d (s a) = some a) : deVec d (serVec s l) = some l := by
  simp [deVec, serVec, mapOpt_map d s l h]

@[simp] theorem deVec_u16 (l : List UInt16) : deVec deU16 (serVec serU16 l) = some l :=
  deVec_serVec _ _ _ (by intro a _; simp)

@[simp] theorem deVec_str (l : List String) : deVec deString (serVec .str l) = some l :=
  deVec_serVec _ _ _ (by intro a _; rfl)

/-! ### `LinkedHashSet` -/

theorem insertBack_of_not_mem (l : List String) (x : String) (h : x ∉ l) :
    insertBack l x = l ++ [x] := by
  simp [insertBack, List.erase_of_not_mem h]

theorem foldl_insertBack_nodup_aux (l acc : List String) (h : (acc ++ l).Nodup) :
    l.foldl insertBack acc = acc ++ l := by
  induction l generalizing acc with
  | nil => simp
  | cons x t ih =>
    have hx : x ∉ acc := by
      intro hm
      have := List.nodup_append.mp h
      exact this.2.2 x hm x (by simp) rfl
    simp only [List.foldl_cons]
    rw [insertBack_of_not_mem acc x hx, ih (acc ++ [x]) (by simpa using h)]
    simp

/-- Re-inserting the elements of a duplicate-free list one by one rebuilds the same list. -/
theorem foldl_insertBack_nodup (l : List String) (h : l.Nodup) : l.foldl insertBack [] = l := by
  simpa using foldl_insertBack_nodup_aux l [] (by simpa using h)

theorem insertBack_nodup (l : List String) (x : String) (h : l.Nodup) : (insertBack l x).Nodup := by
  unfold insertBack
  rw [List.nodup_append]
  refine ⟨h.erase x, by simp, ?_⟩
  intro a ha b hb
  have hb' : b = x := by simpa using hb
  subst hb'
  intro hab
  subst hab
  exact (List.Nodup.mem_erase_iff h).mp ha |>.1 rfl

/-- Whatever is inserted, in whatever order, a `LinkedHashSet` stays duplicate-free. -/
theorem foldl_insertBack_is_nodup (l acc : List String) (h : acc.Nodup) :
    (l.foldl insertBack acc).Nodup := by
  induction l generalizing acc with
  | nil => simpa using h
  | cons x t ih => exact ih _ (insertBack_nodup acc x h)

theorem deSet_serSet (l : List String) (h : l.Nodup) : deSet (serSet l) = some l := by
  have hm : mapOpt deString (l.map .str) = some l := mapOpt_map _ _ _ (by intro a _; rfl)
  simp [deSet, serSet, hm, foldl_insertBack_nodup l h]

theorem deSet_nodup (j : Json) (l : List String) (h : deSet j = some l) : l.Nodup := by
  cases j with
  | arr xs =>
    simp only [deSet] at h
    cases hm : mapOpt deString xs with
    | none => simp [hm] at h
    | some ys =>
      simp only [hm, Option.map_some, Option.some.injEq] at h
      subst h
      exact foldl_insertBack_is_nodup ys [] (by simp)
  | _ => simp [deSet] at h

/-! ### field lookup: unknown keys and key order do not matter -/

/-- An entry under a key other than `k` is invisible to the lookup of `k` (unknown fields are
ignored, wherever they are inserted). -/
theorem find_cons_ne (k' : String) (v : Json) (rest : List (String × Json)) (k : String)
    (h : k' ≠ k) : find ((k', v) :: rest) k = find rest k := by
  simp [find, keyEq, h]

theorem find_append_ne (pre : List (String × Json)) (k' : String) (v : Json)
    (post : List (String × Json)) (k : String) (h : k' ≠ k) :
    find (pre ++ (k', v) :: post) k = find (pre ++ post) k := by
  induction pre with
  | nil => simpa using find_cons_ne k' v post k h
  | cons e t ih =>
    obtain ⟨ke, ve⟩ := e
    simp only [List.cons_append, find]
    rw [ih]

/-- `find` only depends on the sub-list of entries with that key. -/
theorem find_eq_filter (kvs : List (String × Json)) (k : String) :
    find kvs k = find (kvs.filter (fun e => keyEq e.1 k)) k := by
  induction kvs with
  | nil => rfl
  | cons e t ih =>
    obtain ⟨ke, ve⟩ := e
    by_cases h : keyEq ke k = true
    · simp only [find, h, if_true, List.filter_cons_of_pos, ← ih]
    · simp only [Bool.not_eq_true] at h
      simp [find, h, List.filter_cons, ← ih]

/-- number of entries with key `k` -/
def countKey (kvs : List (String × Json)) (k : String) : Nat :=
  (kvs.filter (fun e => keyEq e.1 k)).length

theorem find_perm (kvs kvs' : List (String × Json)) (k : String) (hp : kvs.Perm kvs')
    (hu : countKey kvs k ≤ 1) : find kvs k = find kvs' k := by
  rw [find_eq_filter kvs k, find_eq_filter kvs' k]
  have hp' : (kvs.filter (fun e => keyEq e.1 k)).Perm (kvs'.filter (fun e => keyEq e.1 k)) :=
    hp.filter _
  unfold countKey at hu
  generalize kvs.filter (fun e => keyEq e.1 k) = a at hp' hu
  generalize kvs'.filter (fun e => keyEq e.1 k) = b at hp'
  match a, hu with
  | [], _ =>
    have : b = [] := by simpa using hp'.symm.eq_nil
    rw [this]
  | [x], _ =>
    have : b = [x] := by simpa using (List.perm_singleton.mp hp'.symm)
    rw [this]
  | _ :: _ :: _, hu => simp at hu

end Rio.Json
