/-
Stream laws, part 7 (for the repaired chunked html filter, /repo fe7eac6): the raw-text CONTEXT.
  * which contexts exist: `new_fragment` accepts exactly the names `read_start_tag` can set as `raw_tag` (both tables
    are regenerated from the source), and `raw_tag` is always "" or one of them;
  * RESTART in any context: a tokenizer at a token boundary, EOF not reached, continues exactly like
    `Tokenizer::new_fragment(unread bytes, raw_tag)` (+ `allow_cdata`), positions shifted;
  * cut tokens: a call of `next()` that sets `err` ends at the end of the buffer, so `raw() ++ buffered()` of the cut token
    is the unread suffix that started at the token's `raw.start`; calls that leave `err` unset are prefix-stable.
-/
import RioModel.Proofs.HtmlStream3
set_option linter.unusedSimpArgs false
set_option linter.unusedVariables false

namespace Rio.Html
namespace Tokenizer
open Rio.Consts

/-! ### the table of contexts -/

/-- every name `read_start_tag` can store in `raw_tag` is a context `new_fragment` accepts … -/
theorem rawNames_sub_fragment : ∀ s ∈ htmlRawDispatch.flatMap (·.2), s ∈ htmlFragmentRawTags := by decide

/-- … and conversely -/
theorem fragment_sub_rawNames : ∀ s ∈ htmlFragmentRawTags, s ∈ htmlRawDispatch.flatMap (·.2) := by decide

/-- the ten raw-text contexts, spelled out (regenerated from `new_fragment`'s `match`): iframe, noembed, noframes,
noscript, plaintext, script, style, title, textarea, xmp -/
theorem fragmentTags_eq : htmlFragmentRawTags =
    ["iframe", "noembed", "noframes", "noscript", "plaintext", "script", "style", "title", "textarea", "xmp"].map
      (fun s => s.toList.map Char.toNat) := by decide

/-- a legal value of `raw_tag`: "" or one of the ten names -/
def RawCtx (l : List Nat) : Prop := l = [] ∨ l ∈ htmlFragmentRawTags

instance (l : List Nat) : Decidable (RawCtx l) := by unfold RawCtx; exact inferInstance

theorem RawCtx.tagOk {l : List Nat} (h : RawCtx l) : TagOk l := by
  rcases h with rfl | h
  · exact TagOk_nil
  · intro c hc
    have := rawNames_letters l (fragment_sub_rawNames l h) c hc
    omega

/-- **what `new_fragment` does with its (lower-cased) context tag**: a raw-text element name becomes the context, any
other name (and "") is ignored -/
theorem newFragment_rawTag (b : Array Nat) (c : List Nat) :
    (newFragment b c).rawTag = if c ∈ htmlFragmentRawTags then c else [] := by
  unfold newFragment
  by_cases h : c ∈ htmlFragmentRawTags
  · rw [if_pos (by simpa using h), if_pos h]
  · rw [if_neg (by simpa using h), if_neg h]

theorem newFragment_of_ctx (b : Array Nat) {c : List Nat} (h : RawCtx c) : (newFragment b c).rawTag = c := by
  rw [newFragment_rawTag]
  rcases h with rfl | h
  · rfl
  · rw [if_pos h]

theorem newFragment_nil (b : Array Nat) : newFragment b [] = Tokenizer.new b := rfl

theorem newFragment_fields (b : Array Nat) (c : List Nat) :
    (newFragment b c).buf = b ∧ (newFragment b c).rawE = 0 ∧ (newFragment b c).rawS = 0 ∧ (newFragment b c).err = false ∧
    (newFragment b c).allowCdata = true ∧ (newFragment b c).panic = false ∧ (newFragment b c).hang = false ∧
    (newFragment b c).utf8Err = false := by
  unfold newFragment; split <;> exact ⟨rfl, rfl, rfl, rfl, rfl, rfl, rfl, rfl⟩

theorem newFragment_rawCtx (b : Array Nat) (c : List Nat) : RawCtx (newFragment b c).rawTag := by
  rw [newFragment_rawTag]; split
  · exact Or.inr ‹_›
  · exact Or.inl rfl

/-- letter case: `new_fragment` lower-cases its argument first, so the context is decided by the lower-cased name -/
example : (newFragment #[] ("TiTlE".toList.map fun c => lowerByte c.toNat)).rawTag = "title".toList.map Char.toNat := by
  decide
example : (newFragment #[] ("SCRIPT".toList.map fun c => lowerByte c.toNat)).rawTag = "script".toList.map Char.toNat := by
  decide
example : (newFragment #[] ("scriptx".toList.map fun c => lowerByte c.toNat)).rawTag = [] := by decide
example : (newFragment #[] ("div".toList.map fun c => lowerByte c.toNat)).rawTag = [] := by decide

/-! ### `raw_tag` after `next` -/

/-- `read_start_tag`'s raw-text detection stores a name of the table or nothing -/
theorem startTagRaw_ctx (t1 : Tokenizer) (hd : t1.dataS < t1.dataE) (hs : t1.dataE ≤ t1.buf.size) :
    startTagRaw t1 = t1 ∨ ∃ bs, startTagRaw t1 = { t1 with rawTag := bs } ∧ bs ∈ htmlFragmentRawTags := by
  unfold startTagRaw
  have hlt : t1.dataS < t1.buf.size := by omega
  simp only [hlt, dite_true]
  have hl := rawLookup_spec t1 (lowerByte t1.buf[t1.dataS]) htmlRawDispatch (by omega) hs
  split
  · rename_i hnone; exact absurd hnone hl.1
  · exact Or.inl rfl
  · rename_i htrue
    obtain ⟨s, hmem, hs'⟩ := hl.2 htrue
    have hsl : t1.slice? t1.dataS t1.dataE = some (t1.buf.extract t1.dataS t1.dataE).toList := by
      unfold slice?
      have : t1.dataS ≤ t1.dataE ∧ t1.dataE ≤ t1.buf.size := ⟨by omega, hs⟩
      simp [this]
    rw [hsl]
    simp only
    have hlet := rawNames_letters s hmem
    have hascii : ∀ b ∈ (t1.buf.extract t1.dataS t1.dataE).toList, b < 128 := by
      intro b hb
      have : lowerByte b ∈ s := by rw [← hs']; exact List.mem_map_of_mem hb
      have := hlet _ this
      have := le_lowerByte b
      omega
    rw [validUtf8_of_ascii _ hascii]
    simp only [if_true]
    exact Or.inr ⟨_, rfl, by rw [hs']; exact rawNames_sub_fragment s hmem⟩

/-- how a step changes the context: not at all, or to a table name — and then the token is a start tag -/
def CtxStep (t t' : Tokenizer) : Prop :=
  t'.rawTag = t.rawTag ∨
  (t'.rawTag ∈ htmlFragmentRawTags ∧ (t'.token = .startTag ∨ t'.token = .selfClosing) ∧ t'.err = false)

theorem readStartTag_ctx (t : Tokenizer) (ok : Ok t) (h2 : 2 ≤ t.rawE) :
    (readStartTag t).1.rawTag = t.rawTag ∨
    ((readStartTag t).1.rawTag ∈ htmlFragmentRawTags ∧
      ((readStartTag t).2 = .startTag ∨ (readStartTag t).2 = .selfClosing) ∧ (readStartTag t).1.err = false) := by
  have a1 := readTag_adv t true ok (by omega)
  have s1 := readTag_spec t true ok (by omega)
  unfold readStartTag
  simp only
  generalize t.readTag true = t1 at *
  have hle := a1.ok.le
  have hm := a1.mono
  by_cases he : t1.err = true
  · rw [if_pos he]; exact Or.inl a1.rawTag
  · rw [if_neg he]
    have hr := startTagRaw_ctx t1 (by omega) (by omega)
    have hflags : (startTagRaw t1).panic = false ∧ (startTagRaw t1).utf8Err = false ∧
        (startTagRaw t1).rawE = t1.rawE ∧ (startTagRaw t1).buf = t1.buf ∧ (startTagRaw t1).err = t1.err := by
      rcases hr with h | ⟨bs, h, _⟩
      · rw [h]; exact ⟨a1.ok.panic, a1.ok.utf8, rfl, rfl, rfl⟩
      · rw [h]; exact ⟨a1.ok.panic, a1.ok.utf8, rfl, rfl, rfl⟩
    obtain ⟨f1, f2, f3, f4, f5⟩ := hflags
    have hno : ¬ ((startTagRaw t1).rawE < 2 || (startTagRaw t1).buf.size ≤ (startTagRaw t1).rawE - 2) = true := by
      simp only [Bool.or_eq_true, decide_eq_true_eq, not_or]; rw [f3, f4]; omega
    have hpf : ¬ ((startTagRaw t1).panic || (startTagRaw t1).utf8Err) = true := by simp [f1, f2]
    rw [if_neg hpf, if_neg hno]
    simp only
    rcases hr with h | ⟨bs, h, hbs⟩
    · left; rw [h]; exact a1.rawTag
    · right
      refine ⟨by rw [h]; exact hbs, ?_, by rw [f5]; simpa using he⟩
      unfold startTagKind
      have hlt : (startTagRaw t1).rawE - 2 < (startTagRaw t1).buf.size := by rw [f3, f4]; omega
      simp only [hlt, dite_true]
      split
      · exact Or.inr rfl
      · exact Or.inl rfl

theorem dispatchTag_ctx (t : Tokenizer) (b : Nat) (ok : Ok t) (h2 : 2 ≤ t.rawE) : CtxStep t (dispatchTag t b) := by
  unfold dispatchTag
  simp only [htmlTagOpenLen]
  have hn : ¬ t.rawE < 2 := by omega
  rw [if_neg hn]
  split
  · exact Or.inl rfl
  · split
    · exact readStartTag_ctx t ok h2
    · split
      · have a3 := readByte_adv ok
        split
        · unfold finishText
          split
          · exact Or.inl a3.rawTag
          · exact Or.inl a3.rawTag
        · rename_i he
          split
          · exact Or.inl a3.rawTag
          · split
            · have a4 := readTag_adv t.readByte.1 false a3.ok (readByte_pos he)
              split
              · exact Or.inl (a3.trans a4).rawTag
              · exact Or.inl (a3.trans a4).rawTag
            · have a4 := (read_unread_adv ok he)
              exact Or.inl (a4.trans (readUntilCloseAngle_adv _ a4.ok)).rawTag
      · split
        · exact Or.inl (readMarkupDeclaration_adv t ok h2).rawTag
        · have hb : Adv { t with rawE := t.rawE - 1 } t := ⟨rfl, rfl, by simp, ok, rfl, rfl⟩
          have a4 := unread_adv 1 hb (by simp only; omega)
          have a5 := readUntilCloseAngle_adv _ a4.ok
          exact Or.inl (a5.rawTag.trans a4.rawTag)

theorem CtxStep.rebase {t t1 t' : Tokenizer} (h : CtxStep t1 t') (e : t1.rawTag = t.rawTag) : CtxStep t t' := by
  rcases h with h | h
  · exact Or.inl (h.trans e)
  · exact Or.inr h

theorem mainLoop_ctx (t : Tokenizer) (ok : Ok t) : CtxStep t (mainLoop t) := by
  fun_induction mainLoop t
  all_goals (try simp +zetaDelta only at *)
  case case1 t _ he =>
    have a1 := readByte_adv ok
    unfold finishText
    split
    · exact Or.inl a1.rawTag
    · exact Or.inl a1.rawTag
  case case2 ih =>
    have a1 := readByte_adv ok
    exact (ih a1.ok).rebase a1.rawTag
  case case3 t _ _ _ _ he =>
    have a1 := readByte_adv ok
    have a2 := a1.trans (readByte_adv a1.ok)
    unfold finishText
    split
    · exact Or.inl a2.rawTag
    · exact Or.inl a2.rawTag
  case case4 t _ herr1 _ _ herr2 _ ih =>
    have a1 := readByte_adv ok
    have a2 := a1.trans (read_unread_adv a1.ok herr2)
    exact (ih a2.ok).rebase a2.rawTag
  case case5 t _ herr1 _ _ herr2 _ =>
    have a1 := readByte_adv ok
    have a2 := readByte_adv a1.ok
    have a12 := a1.trans a2
    have e1 := readByte_succ herr1
    have e2 := readByte_succ herr2
    exact (dispatchTag_ctx _ t.readByte.1.readByte.2 a2.ok (by omega)).rebase a12.rawTag

/-- **the context after `next`**: empty; or a raw-text element name, and then the token is a (self-closing) start tag that
did not hit EOF; or unchanged — which happens only once `err` is set or in the `plaintext` context (which never ends) -/
theorem nextGo_ctx (t : Tokenizer) (ok : Ok t) (htag : TagOk t.rawTag) :
    (nextGo t).rawTag = [] ∨
    ((nextGo t).rawTag ∈ htmlFragmentRawTags ∧ ((nextGo t).token = .startTag ∨ (nextGo t).token = .selfClosing) ∧
      (nextGo t).err = false) ∨
    ((nextGo t).rawTag = t.rawTag ∧ (t.err = true ∨ t.rawTag = htmlPlaintext)) := by
  unfold nextGo
  simp only
  by_cases h0 : t.err = true
  · rw [if_pos h0]; exact Or.inr (Or.inr ⟨rfl, Or.inl h0⟩)
  · rw [if_neg h0]
    have cont : ∀ t1 : Tokenizer, Ok t1 → (t1.rawTag = [] ∨ (t1.rawTag = t.rawTag ∧ t.rawTag = htmlPlaintext)) →
        (mainLoop { t1 with textIsRaw := false, convertNull := false }).rawTag = [] ∨
        ((mainLoop { t1 with textIsRaw := false, convertNull := false }).rawTag ∈ htmlFragmentRawTags ∧
          ((mainLoop { t1 with textIsRaw := false, convertNull := false }).token = .startTag ∨
           (mainLoop { t1 with textIsRaw := false, convertNull := false }).token = .selfClosing) ∧
          (mainLoop { t1 with textIsRaw := false, convertNull := false }).err = false) ∨
        ((mainLoop { t1 with textIsRaw := false, convertNull := false }).rawTag = t.rawTag ∧
          (t.err = true ∨ t.rawTag = htmlPlaintext)) := by
      intro t1 ok1 h1
      have := mainLoop_ctx { t1 with textIsRaw := false, convertNull := false } ⟨ok1.le, ok1.panic, ok1.hang, ok1.utf8⟩
      rcases this with h | h
      · rcases h1 with e | ⟨e, ep⟩
        · exact Or.inl (h.trans e)
        · exact Or.inr (Or.inr ⟨h.trans e, Or.inr ep⟩)
      · exact Or.inr (Or.inl h)
    by_cases h1 : (t.rawTag != []) = true
    · rw [if_pos h1]
      by_cases h2 : (t.rawTag == htmlPlaintext) = true
      · rw [if_pos h2]
        have hp : t.rawTag = htmlPlaintext := by simpa using h2
        have a := readToEnd_adv t ok
        simp only
        split
        · exact Or.inr (Or.inr ⟨a.rawTag, Or.inr hp⟩)
        · exact cont { t.readToEnd with dataE := t.readToEnd.rawE, textIsRaw := true }
            ⟨a.ok.le, a.ok.panic, a.ok.hang, a.ok.utf8⟩ (Or.inr ⟨a.rawTag, hp⟩)
      · rw [if_neg h2]
        have s := readRawOrCdata_spec t ok htag
        split
        · exact Or.inl s.2.1
        · exact cont _ s.1.ok (Or.inl s.2.1)
    · rw [if_neg h1]
      have hnil : t.rawTag = [] := by simpa using h1
      exact cont t ok (Or.inl hnil)

theorem next_ctx (t : Tokenizer) (inv : Inv t) :
    (next t).rawTag = [] ∨
    ((next t).rawTag ∈ htmlFragmentRawTags ∧ ((next t).token = .startTag ∨ (next t).token = .selfClosing) ∧
      (next t).err = false) ∨
    ((next t).rawTag = t.rawTag ∧ (t.err = true ∨ t.rawTag = htmlPlaintext)) :=
  nextGo_ctx _ ⟨inv.ok.le, inv.ok.panic, inv.ok.hang, inv.ok.utf8⟩ inv.tag

/-- `raw_tag` is always "" or one of the ten names -/
theorem next_rawCtx (t : Tokenizer) (inv : Inv t) (h : RawCtx t.rawTag) : RawCtx (next t).rawTag := by
  rcases next_ctx t inv with e | ⟨e, _⟩ | ⟨e, _⟩
  · exact Or.inl e
  · exact Or.inr e
  · rw [e]; exact h

theorem nexts_rawCtx (n : Nat) (t : Tokenizer) (inv : Inv t) (h : RawCtx t.rawTag) : RawCtx (nexts n t).rawTag := by
  induction n with
  | zero => exact h
  | succ n ih => exact next_rawCtx _ (nexts_inv n t inv) ih

theorem new_rawCtx (b : Array Nat) : RawCtx (Tokenizer.new b).rawTag := Or.inl rfl

/-! ### RESTART in any context -/

/-- `Tokenizer::new_fragment(unread bytes of t, t.raw_tag)` with `t`'s `allow_cdata` -/
def restartCtx (t : Tokenizer) : Tokenizer :=
  (newFragment (t.buf.extract t.rawE t.buf.size) t.rawTag).setAllowCdata t.allowCdata

theorem restartCtx_fields (t : Tokenizer) (hc : RawCtx t.rawTag) :
    (restartCtx t).buf = t.buf.extract t.rawE t.buf.size ∧ (restartCtx t).rawE = 0 ∧ (restartCtx t).rawS = 0 ∧
    (restartCtx t).err = false ∧ (restartCtx t).allowCdata = t.allowCdata ∧ (restartCtx t).panic = false ∧
    (restartCtx t).hang = false ∧ (restartCtx t).utf8Err = false ∧ (restartCtx t).rawTag = t.rawTag := by
  obtain ⟨f1, f2, f3, f4, f5, f6, f7, f8⟩ := newFragment_fields (t.buf.extract t.rawE t.buf.size) t.rawTag
  have f9 := newFragment_of_ctx (t.buf.extract t.rawE t.buf.size) hc
  unfold restartCtx setAllowCdata
  exact ⟨f1, f2, f3, f4, rfl, f6, f7, f8, f9⟩

theorem restartCtx_inv (t : Tokenizer) (inv : Inv t) (hc : RawCtx t.rawTag) : Inv (restartCtx t) := by
  obtain ⟨f1, f2, f3, f4, f5, f6, f7, f8, f9⟩ := restartCtx_fields t hc
  exact ⟨by rw [f2, f3]; exact Nat.le_refl _, ⟨by rw [f2]; exact Nat.zero_le _, f6, f7, f8⟩, by rw [f9]; exact inv.tag⟩

theorem pre_restart_ctx (t : Tokenizer) (inv : Inv t) (herr : t.err = false) (hc : RawCtx t.rawTag) :
    Pre True t.rawE t (restartCtx t) := by
  obtain ⟨f1, f2, f3, f4, f5, f6, f7, f8, f9⟩ := restartCtx_fields t hc
  have hle := inv.ok.le
  have hsz : (restartCtx t).buf.size = t.buf.size - t.rawE := by rw [f1]; simp
  refine ⟨by omega, ?_, fun _ => by omega, by rw [f2]; rfl, herr.trans f4.symm, f9.symm, f5.symm,
    inv.ok.panic.trans f6.symm, inv.ok.hang.trans f7.symm, inv.ok.utf8.trans f8.symm⟩
  intro i hi
  rw [hsz] at hi
  rw [f1, Array.getElem?_extract]
  have : i < min t.buf.size t.buf.size - t.rawE := by simpa using hi
  simp [this]
  omega

/-- **RESTART in any context**: at a token boundary where EOF has not been reached, whatever the raw-text context
(`raw_tag` = "" or one of the ten names; `script` included: `next()` in the script context always starts in the plain
script-data state) and whatever `allow_cdata`, the tokenizer continues exactly like
`Tokenizer::new_fragment(unread bytes, raw_tag)`, all positions shifted by `raw.end`: for every number of further calls,
same token type, same raw / data spans (shifted), same `err`, same `raw_tag`. -/
theorem nexts_restart_ctx (n : Nat) (t : Tokenizer) (inv : Inv t) (herr : t.err = false) (hc : RawCtx t.rawTag)
    (hn : 0 < n) : CoreT True t.rawE (nexts n t) (nexts n (restartCtx t)) :=
  (nexts_sim n t (restartCtx t) (pre_restart_ctx t inv herr hc) (restartCtx_inv t inv hc) (Or.inl trivial)).2 hn

/-- … attributes included: the attribute spans of a tag token are those of the restarted tokenizer, shifted -/
theorem nexts_restart_ctxA (n : Nat) (t : Tokenizer) (inv : Inv t) (herr : t.err = false) (hc : RawCtx t.rawTag)
    (hn : 0 < n) : CoreTA True t.rawE (nexts n t) (nexts n (restartCtx t)) :=
  nexts_simA n t (restartCtx t) (pre_restart_ctx t inv herr hc) (restartCtx_inv t inv hc) (Or.inl trivial) hn

theorem next_restart_ctx (t : Tokenizer) (inv : Inv t) (herr : t.err = false) (hc : RawCtx t.rawTag) :
    CoreT True t.rawE (next t) (next (restartCtx t)) :=
  next_sim _ _ (pre_restart_ctx t inv herr hc) (restartCtx_inv t inv hc) (Or.inl trivial)

/-- the restart of a fresh `new_fragment` tokenizer is itself -/
theorem restartCtx_newFragment (b : List Nat) (c : List Nat) (hc : RawCtx c) :
    restartCtx (newFragment b.toArray c) = newFragment b.toArray c := by
  have f := newFragment_fields b.toArray c
  have f9 := newFragment_of_ctx b.toArray hc
  unfold restartCtx
  rw [f9, f.2.1, f.1, f.2.2.2.2.1]
  have : b.toArray.extract 0 b.toArray.size = b.toArray := by simp
  rw [this]
  unfold setAllowCdata newFragment
  split <;> rfl

/-! ### cut tokens -/

/-- **a call of `next()` that sets (or finds) `err` ends at the end of the buffer**: nothing is left unread -/
theorem next_cut_end (t : Tokenizer) (inv : Inv t) (eg : ErrGe t) (h : (next t).err = true) :
    (next t).rawE = (next t).buf.size :=
  err_rawE_eq (next t) (next_inv' t inv) (next_errGe t eg) h

/-- `raw() ++ buffered()` after a call is the unread suffix before it: a cut token and the bytes after it are exactly the
suffix of the input that starts at the token's `raw.start` -/
theorem next_held (t : Tokenizer) (inv : Inv t) : rawL (next t) ++ restL (next t) = restL t := by
  have hi1 := next_inv' t inv
  have hb := next_buf' t inv
  have hs := next_rawS' t inv
  unfold restL rawL
  rw [hb, hs]
  rw [← extract_split t.buf t.rawE (next t).rawE t.buf.size (by rw [← hs]; exact hi1.raw)
    (by rw [← hb]; exact hi1.ok.le)]

theorem next_cut_buffered (t : Tokenizer) (inv : Inv t) (eg : ErrGe t) (h : (next t).err = true) :
    restL (next t) = [] ∧ rawL (next t) = restL t := by
  have e := next_cut_end t inv eg h
  have hr : restL (next t) = [] := by unfold restL; rw [e]; simp
  have := next_held t inv
  rw [hr, List.append_nil] at this
  exact ⟨hr, this⟩

/-- once `err` is set every further call returns the `ErrorToken` with an empty raw span at the end of the buffer -/
theorem next_after_err (t : Tokenizer) (h : t.err = true) :
    (next t).token = .error ∧ (next t).rawS = t.rawE ∧ (next t).rawE = t.rawE ∧ (next t).err = true ∧
    (next t).rawTag = t.rawTag ∧ (next t).buf = t.buf := by
  unfold next nextGo
  simp only
  rw [if_pos (by exact h)]
  exact ⟨rfl, rfl, rfl, h, rfl, rfl⟩

/-- tag tokens are never cut: a tag that runs into the end of the data is reported as the `ErrorToken` -/
theorem next_tag_not_cut (t : Tokenizer) (inv : Inv t) (hk : isTagLike (next t).token = true) : (next t).err = false :=
  (next_tag t inv hk).noErr

/-- **uncut tokens are stable**: a call that leaves `err` unset returns the same token (type, spans, context, flags) on
every extension of the buffer -/
theorem next_uncut_stable (u : Tokenizer) (inv : Inv u) (x : Array Nat) (hne : (next u).err = false) :
    CoreT False 0 (next (extend u x)) (next u) := next_prefix_stable u inv x hne

/-- appending to the buffer of a `new_fragment` tokenizer -/
theorem newFragment_append (a1 a' : List Nat) (c : List Nat) :
    newFragment (a1 ++ a').toArray c = extend (newFragment a1.toArray c) a'.toArray := by
  unfold extend newFragment
  split <;> simp

end Tokenizer
end Rio.Html
