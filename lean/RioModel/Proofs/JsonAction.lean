/-
Round-trip lemmas, type by type, for the serde representation modelled in Model/JsonAction.lean.
-/
import RioModel.Model.JsonAction
import RioModel.Proofs.Json
set_option linter.unusedSimpArgs false

namespace Rio.Json

/-! ### leaves -/

theorem headerFilter_roundtrip (f : HeaderFilter) : deHeaderFilter (serHeaderFilter f) = some f := by
  simp [deHeaderFilter, serHeaderFilter, reqField, optField, find, keyEq]

theorem htmlBodyFilter_roundtrip (f : HtmlBodyFilter) :
    deHtmlBodyFilter (serHtmlBodyFilter f) = some f := by
  simp [deHtmlBodyFilter, serHtmlBodyFilter, reqField, optField, find, keyEq]

@[simp] theorem textAction_ofName_name (a : TextAction) : TextAction.ofName a.name = some a := by
  cases a <;> simp [TextAction.ofName, TextAction.name]

theorem textBodyFilter_roundtrip (f : TextBodyFilter) :
    deTextBodyFilter (serTextBodyFilter f) = some f := by
  simp [deTextBodyFilter, serTextBodyFilter, reqField, optField, find, keyEq, deTextAction]

/-! ### the untagged union: the variants do not overlap on serialised values -/

/-- An HTML filter's JSON is never accepted by the `Text` variant (tried first): it has no
`content` key, which `TextBodyFilter` requires. -/
theorem deText_serHtml (h : HtmlBodyFilter) : deTextBodyFilter (serHtmlBodyFilter h) = none := by
  simp [deTextBodyFilter, serHtmlBodyFilter, reqField, optField, find, keyEq]

/-- …and a text filter's JSON is never accepted by the `HTML` variant (no `value`, no
`element_tree`), so the declaration order of the variants is immaterial for serialised values. -/
theorem deHtml_serText (t : TextBodyFilter) : deHtmlBodyFilter (serTextBodyFilter t) = none := by
  simp [deHtmlBodyFilter, serTextBodyFilter, reqField, optField, find, keyEq]

theorem depth_serOption_str (o : Option String) : depth (serOption .str o) = 0 := by
  cases o <;> simp [serOption, depth]

theorem depthList_str (l : List String) : depthList (l.map .str) = 0 := by
  induction l with
  | nil => simp [depthList]
  | cons a t ih => simp [depthList, depth, ih]

theorem depth_serBodyFilter_le (f : BodyFilter) : depth (serBodyFilter f) ≤ 2 := by
  cases f with
  | text t =>
    simp [serBodyFilter, serTextBodyFilter, depth, depthFields, depth_serOption_str]
  | html h =>
    simp [serBodyFilter, serHtmlBodyFilter, depth, depthFields, depth_serOption_str, serVec,
      depthList_str]

theorem hasJunk_serOption_str (o : Option String) : hasJunk (serOption .str o) = false := by
  cases o <;> simp [serOption, hasJunk]

theorem hasJunkList_str (l : List String) : hasJunkList (l.map .str) = false := by
  induction l with
  | nil => simp [hasJunkList]
  | cons a t ih => simp [hasJunkList, hasJunk, ih]

theorem hasJunk_serBodyFilter (f : BodyFilter) : hasJunk (serBodyFilter f) = false := by
  cases f with
  | text t =>
    simp [serBodyFilter, serTextBodyFilter, hasJunk, hasJunkFields, hasJunk_serOption_str]
  | html h =>
    simp [serBodyFilter, serHtmlBodyFilter, hasJunk, hasJunkFields, hasJunk_serOption_str, serVec,
      hasJunkList_str]

theorem bodyFilter_roundtrip (base : Nat) (hb : base + 2 ≤ recursionLimit) (f : BodyFilter) :
    deBodyFilter base (serBodyFilter f) = some f := by
  have hd := depth_serBodyFilter_le f
  have hlim : ¬ (base + depth (serBodyFilter f) > recursionLimit) := by omega
  unfold deBodyFilter
  simp only [hasJunk_serBodyFilter, Bool.false_or, decide_eq_true_eq, if_neg hlim]
  cases f with
  | text t => simp [serBodyFilter, textBodyFilter_roundtrip]
  | html h => simp [serBodyFilter, deText_serHtml, htmlBodyFilter_roundtrip]

/-! ### composite values -/

theorem statusCodeUpdate_roundtrip (s : StatusCodeUpdate) :
    deStatusCodeUpdate (serStatusCodeUpdate s) = some s := by
  simp [deStatusCodeUpdate, serStatusCodeUpdate, reqField, optField, find, keyEq]

theorem logOverride_roundtrip (l : LogOverride) : deLogOverride (serLogOverride l) = some l := by
  simp [deLogOverride, serLogOverride, reqField, optField, find, keyEq]

theorem ruleTrace_roundtrip (t : RuleTrace) : deRuleTrace (serRuleTrace t) = some t := by
  simp [deRuleTrace, serRuleTrace, reqField, optField, find, keyEq]

theorem headerFilterAction_roundtrip (f : HeaderFilterAction) :
    deHeaderFilterAction (serHeaderFilterAction f) = some f := by
  simp [deHeaderFilterAction, serHeaderFilterAction, reqField, optField, find, keyEq,
    headerFilter_roundtrip]

theorem bodyFilterAction_roundtrip (base : Nat) (hb : base + 3 ≤ recursionLimit)
    (f : BodyFilterAction) : deBodyFilterAction base (serBodyFilterAction f) = some f := by
  have h := bodyFilter_roundtrip (base + 1) (by omega) f.filter
  simp [deBodyFilterAction, serBodyFilterAction, reqField, optField, find, keyEq, h]

theorem serStatusCodeUpdate_ne_null (s : StatusCodeUpdate) : serStatusCodeUpdate s ≠ .null := by
  simp [serStatusCodeUpdate]

theorem serLogOverride_ne_null (l : LogOverride) : serLogOverride l ≠ .null := by
  simp [serLogOverride]

theorem action_roundtrip (a : Action) (h : a.WF) : deAction (serAction a) = some a := by
  have h1 : deOption deStatusCodeUpdate (serOption serStatusCodeUpdate a.status_code_update)
      = some a.status_code_update :=
    deOption_serOption _ _ serStatusCodeUpdate_ne_null _ (fun s _ => statusCodeUpdate_roundtrip s)
  have h2 : deVec deHeaderFilterAction (serVec serHeaderFilterAction a.header_filters)
      = some a.header_filters :=
    deVec_serVec _ _ _ (fun f _ => headerFilterAction_roundtrip f)
  have h3 : deVec (deBodyFilterAction 2) (serVec serBodyFilterAction a.body_filters)
      = some a.body_filters :=
    deVec_serVec _ _ _ (fun f _ => bodyFilterAction_roundtrip 2 (by decide) f)
  have h4 : deSet (serSet a.rule_ids) = some a.rule_ids := deSet_serSet _ h.1
  have h5 : deVec deRuleTrace (serVec serRuleTrace a.rule_traces) = some a.rule_traces :=
    deVec_serVec _ _ _ (fun t _ => ruleTrace_roundtrip t)
  have h6 : deSet (serSet a.rules_applied) = some a.rules_applied := deSet_serSet _ h.2
  have h7 : deOption deLogOverride (serOption serLogOverride a.log_override) = some a.log_override :=
    deOption_serOption _ _ serLogOverride_ne_null _ (fun l _ => logOverride_roundtrip l)
  simp [deAction, serAction, reqField, optField, defaultField, find, keyEq, h1, h2, h3, h4, h5, h6, h7]

/-- Whatever JSON an `Action` is read from, its two sets are duplicate-free: `WF` is the
representation invariant of `LinkedHashSet`, not an assumption about the caller. -/
theorem deAction_wf (j : Json) (a : Action) (h : deAction j = some a) : a.WF := by
  unfold deAction at h
  split at h
  · rename_i kvs
    simp only [Option.bind_eq_bind, Option.bind_eq_some_iff, Option.pure_def, Option.some.injEq] at h
    obtain ⟨s, _, hf, _, bf, _, ri, hri, rt, _, ra, hra, lo, _, rfl⟩ := h
    refine ⟨?_, ?_⟩
    · unfold reqField at hri
      split at hri
      · exact deSet_nodup _ _ hri
      · exact absurd hri (by simp)
    · unfold defaultField at hra
      split at hra
      · simp only [Option.some.injEq] at hra; subst hra; simp
      · exact deSet_nodup _ _ hra
      · exact absurd hra (by simp)
  · simp only [Option.bind_eq_bind, Option.bind_eq_some_iff, Option.pure_def, Option.some.injEq] at h
    obtain ⟨s, _, hf, _, bf, _, ri, hri, rt, _, ra, hra, lo, _, rfl⟩ := h
    exact ⟨deSet_nodup _ _ hri, deSet_nodup _ _ hra⟩
  · exact absurd h (by simp)

/-! ### requests -/

theorem header_roundtrip (h : Header) : deHeader (serHeader h) = some h := by
  simp [deHeader, serHeader, reqField, optField, find, keyEq]

theorem pathAndQuery_roundtrip (p : PathAndQuery) : dePathAndQuery (serPathAndQuery p) = some p := by
  simp [dePathAndQuery, serPathAndQuery, reqField, optField, find, keyEq]

end Rio.Json
