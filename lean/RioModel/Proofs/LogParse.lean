/-
Lemmas about `Rio.AddrParse` / `Rio.LogParse`: trimming ignores padding, `split` inverts `join`, `splitn(2)` finds the first
separator, piece counts.
-/
import RioModel.Model.LogParse
set_option linter.unusedSimpArgs false

namespace Rio.AddrParse

theorem dropWhile_all {p : Char → Bool} : ∀ {a : List Char}, (∀ c ∈ a, p c = true) → ∀ x, (a ++ x).dropWhile p = x.dropWhile p
  | [], _, x => rfl
  | c :: r, h, x => by
    have hc : p c = true := h c (by simp)
    simp only [List.cons_append, List.dropWhile_cons, hc, if_true]
    exact dropWhile_all (fun d hd => h d (by simp [hd])) x

theorem dropWhile_nil_of_all {p : Char → Bool} {a : List Char} (h : ∀ c ∈ a, p c = true) : a.dropWhile p = [] := by
  have := dropWhile_all h []
  simpa using this

/-- trailing padding does not change what remains after trimming -/
theorem trim_back_pad {p : Char → Bool} {b : List Char} (hb : ∀ c ∈ b, p c = true) :
    ∀ s, ((s ++ b).dropWhile p).reverse.dropWhile p = (s.dropWhile p).reverse.dropWhile p
  | [] => by simp [dropWhile_nil_of_all hb]
  | c :: r => by
    cases hc : p c with
    | true =>
      simp only [List.cons_append, List.dropWhile_cons, hc, if_true]
      exact trim_back_pad hb r
    | false =>
      simp only [List.cons_append, List.dropWhile_cons, hc, Bool.false_eq_true, if_false]
      have : (c :: (r ++ b)).reverse = b.reverse ++ (c :: r).reverse := by simp
      rw [this]
      exact dropWhile_all (fun d hd => hb d (by simpa using hd)) _

/-- **trimming ignores padding** on both sides -/
theorem trimChars_pad {p : Char → Bool} {a b : List Char} (ha : ∀ c ∈ a, p c = true) (hb : ∀ c ∈ b, p c = true)
    (s : List Char) : trimChars p (a ++ s ++ b) = trimChars p s := by
  unfold trimChars
  rw [List.append_assoc, dropWhile_all ha, trim_back_pad hb]

end Rio.AddrParse

namespace Rio.LogParse
open Rio.AddrParse

theorem splitOn_ne_nil (sep : Char) : ∀ s, splitOn sep s ≠ []
  | [] => by simp [splitOn]
  | c :: r => by
    unfold splitOn
    split
    · simp
    · split <;> simp

/-- `join` with a separator -/
def joinSep (sep : Char) : List (List Char) → List Char
  | [] => []
  | [p] => p
  | p :: q :: r => p ++ sep :: joinSep sep (q :: r)

theorem splitOn_piece (sep : Char) : ∀ (p : List Char), sep ∉ p → ∀ rest, splitOn sep (p ++ sep :: rest) = p :: splitOn sep rest
  | [], _, rest => by simp [splitOn]
  | c :: r, h, rest => by
    have hc : c ≠ sep := fun e => h (by simp [e])
    have hr : sep ∉ r := fun e => h (by simp [e])
    simp only [List.cons_append, splitOn, hc, if_false]
    rw [splitOn_piece sep r hr rest]

theorem splitOn_single (sep : Char) : ∀ (p : List Char), sep ∉ p → splitOn sep p = [p]
  | [], _ => by simp [splitOn]
  | c :: r, h => by
    have hc : c ≠ sep := fun e => h (by simp [e])
    have hr : sep ∉ r := fun e => h (by simp [e])
    simp only [splitOn, hc, if_false]
    rw [splitOn_single sep r hr]

/-- **`split` inverts `join`** for pieces that do not contain the separator -/
theorem splitOn_join (sep : Char) : ∀ (ps : List (List Char)), ps ≠ [] → (∀ p ∈ ps, sep ∉ p) →
    splitOn sep (joinSep sep ps) = ps
  | [], h, _ => absurd rfl h
  | [p], _, hp => by simp [joinSep, splitOn_single sep p (hp p (by simp))]
  | p :: q :: r, _, hp => by
    simp only [joinSep]
    rw [splitOn_piece sep p (hp p (by simp))]
    rw [splitOn_join sep (q :: r) (by simp) (fun x hx => hp x (by simp [hx]))]

/-- `splitn(2, sep)` cuts at the FIRST separator -/
theorem splitFirst_append (sep : Char) : ∀ (name : List Char), sep ∉ name → ∀ val,
    splitFirst sep (name ++ sep :: val) = some (name, val)
  | [], _, val => by simp [splitFirst]
  | c :: r, h, val => by
    have hc : c ≠ sep := fun e => h (by simp [e])
    have hr : sep ∉ r := fun e => h (by simp [e])
    simp only [List.cons_append, splitFirst, hc, if_false]
    rw [splitFirst_append sep r hr val]
    rfl

theorem splitFirst_none (sep : Char) : ∀ (s : List Char), sep ∉ s → splitFirst sep s = none
  | [], _ => rfl
  | c :: r, h => by
    have hc : c ≠ sep := fun e => h (by simp [e])
    have hr : sep ∉ r := fun e => h (by simp [e])
    simp [splitFirst, hc, splitFirst_none sep r hr]

/-- n separators give n + 1 pieces -/
theorem splitOn_length (sep : Char) : ∀ s, (splitOn sep s).length = countSep sep s + 1
  | [] => by simp [splitOn, countSep]
  | c :: r => by
    have ih := splitOn_length sep r
    unfold splitOn
    by_cases hc : c = sep
    · simp only [hc, if_true, List.length_cons, ih]
      simp [countSep]
    · simp only [hc, if_false]
      have hne := splitOn_ne_nil sep r
      cases hs : splitOn sep r with
      | nil => exact absurd hs hne
      | cons p ps =>
        rw [hs] at ih
        simp only [List.length_cons] at ih ⊢
        have : countSep sep (c :: r) = countSep sep r := by
          simp [countSep, List.filter_cons, hc]
        rw [this]; exact ih

end Rio.LogParse
