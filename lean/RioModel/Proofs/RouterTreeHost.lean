/-
Router proofs, part 11: `HostMatcher` over the real regex-tree model satisfies the layer laws.

The state `HostTState` (static map + tree of buckets + any bucket) is abstracted to the shared
shape `LState I (HKeyG (List Char))` by listing the static buckets and then the tree's stored
buckets (`absH`).  On that abstraction every operation of the real tree is the
specification-level operation (exactly for `retain` / `modifyAt` / `find` / `trace`, up to a
permutation of the bucket list for `insert`), by the `contents_*` theorems of property C08, so the
laws of the host layer proved in RouterTower.lean (`hostLaws`, incl. the any-host fallback)
transfer.
-/
import RioModel.Proofs.RouterTreePath

set_option linter.unusedSimpArgs false
set_option linter.unusedVariables false
set_option linter.unusedSectionVars false

namespace Rio.Router
open Rio.Regex Rio.Tree

/-! ### `LRepr` does not depend on the order of the bucket list -/

section
variable {K : Type} [DecidableEq K] {I : MOps} (IL : MLaws I) (keysOf : Route → Option (List K))

theorem lrepr_perm (s s' : LState I K) (L : List Route) (h : LRepr IL keysOf s L)
    (hany : s'.any = s.any) (hcount : s'.count = s.count) (hp : s.map.Perm s'.map) :
    LRepr IL keysOf s' L where
  len := by rw [hcount]; exact h.len
  any := by rw [hany]; exact h.any
  nodup := (hp.map _).nodup_iff.1 h.nodup
  some := by intro k b hk; rw [← alookup_perm h.nodup hp] at hk; exact h.some k b hk
  none := by intro k hk; rw [← alookup_perm h.nodup hp] at hk; exact h.none k hk

end

/-! ### the abstraction -/

section
variable {I : MOps}

abbrev HK := HKeyG (List Char)

def staticMap (st : List (String × I.M)) : List (HK × I.M) := st.map (fun e => (HKeyG.static e.1, e.2))
def treeMap (t : Item (List Char) I.M) : List (HK × I.M) := t.contents.map (fun e => (HKeyG.dyn e.pat, e.val))

/-- the shared-shape view of the state: static buckets, then the tree's buckets -/
def absH (s : HostTState I) : LState I HK := ⟨s.any, staticMap s.statics ++ treeMap s.tree, s.count⟩

theorem alookup_staticMap (st : List (String × I.M)) (h : String) :
    alookup (HKeyG.static h) (staticMap st) = alookup h st := by
  induction st with
  | nil => rfl
  | cons e st ih =>
    obtain ⟨k, b⟩ := e
    simp only [staticMap, List.map_cons, alookup_cons] at ih ⊢
    by_cases hk : k = h
    · simp [hk]
    · have : ¬ (HKeyG.static k : HK) = HKeyG.static h := by intro e; apply hk; injection e
      simp [hk, this, ih]

theorem alookup_append {K V : Type} [DecidableEq K] (a b : List (K × V)) (k : K) :
    alookup k (a ++ b) = (alookup k a).orElse (fun _ => alookup k b) := by
  induction a with
  | nil => simp
  | cons e a ih =>
    obtain ⟨ka, va⟩ := e
    simp only [List.cons_append, alookup_cons]
    by_cases h : ka = k <;> simp [h, ih]

theorem alookup_static_treeMap (t : Item (List Char) I.M) (h : String) :
    alookup (HKeyG.static h) (treeMap t) = none := by
  rw [alookup_eq_none_iff]
  intro hk
  obtain ⟨e, _, he⟩ := List.mem_map.mp hk
  obtain ⟨e0, _, rfl⟩ := List.mem_map.mp ‹e ∈ treeMap t›
  simp at he

theorem alookup_dyn_staticMap (st : List (String × I.M)) (k : List Char) :
    alookup (HKeyG.dyn k : HK) (staticMap st) = none := by
  rw [alookup_eq_none_iff]
  intro hk
  obtain ⟨e, he1, he⟩ := List.mem_map.mp hk
  obtain ⟨e0, _, rfl⟩ := List.mem_map.mp he1
  simp at he

theorem alookup_absH_static (s : HostTState I) (h : String) :
    alookup (HKeyG.static h) (absH s).map = alookup h s.statics := by
  simp only [absH, alookup_append, alookup_staticMap, alookup_static_treeMap]
  cases alookup h s.statics <;> rfl

/-! ### pruning and upserting commute with the abstraction -/

theorem pruneMap_append {K : Type} (g : I.M → I.M) (a b : List (K × I.M)) :
    pruneMap I g (a ++ b) = pruneMap I g a ++ pruneMap I g b := by
  simp [pruneMap, List.filterMap_append]

theorem pruneMap_staticMap (g : I.M → I.M) (st : List (String × I.M)) :
    pruneMap I g (staticMap st) = staticMap (pruneMap I g st) := by
  induction st with
  | nil => rfl
  | cons e st ih =>
    simp only [pruneMap, staticMap, List.map_cons, List.filterMap_cons] at ih ⊢
    cases hc : I.isEmpty (g e.2) <;> simp [hc, ih]

theorem treeMap_retain (g : I.M → I.M) (t : Item (List Char) I.M) :
    treeMap (t.retain (fun _ m => pruneVal I g m)) = pruneMap I g (treeMap t) := by
  unfold treeMap
  rw [contents_retain]
  unfold refRetain pruneMap pruneVal
  induction t.contents with
  | nil => rfl
  | cons e L ih =>
    simp only [List.filterMap_cons, List.map_cons]
    cases hc : I.isEmpty (g e.val) <;> simp [hc, ih]

theorem foldl_hitStep (id : String) (ms : List I.M) (acc : Option Route) :
    ms.foldl (hitStep I id) acc = (lastHit I id ms).orElse (fun _ => acc) := by
  unfold lastHit
  induction ms generalizing acc with
  | nil => simp
  | cons m ms ih =>
    simp only [List.foldl_cons]
    rw [ih, ih (hitStep I id none m)]
    unfold hitStep
    cases h1 : ms.foldl (hitStep I id) none <;> cases h2 : (I.remove id m).2 <;> simp

/-- `removed_in_tree` / the `removed` of a `retain` pass: the last hit in visiting order -/
theorem removeAll_snd_eq_lastHit {K : Type} (id : String) (m : List (K × I.M)) :
    (removeAll I id m).2 = lastHit I id (m.map Prod.snd) := by
  induction m with
  | nil => simp [removeAll, lastHit]
  | cons a m ih =>
    obtain ⟨k, b⟩ := a
    simp only [removeAll, List.map_cons, ih]
    conv => rhs; unfold lastHit
    simp only [List.foldl_cons]
    rw [foldl_hitStep]
    unfold hitStep
    cases h1 : lastHit I id (m.map Prod.snd) <;> cases h2 : (I.remove id b).2 <;> simp

theorem lastHit_append (id : String) (a b : List I.M) :
    lastHit I id (a ++ b) = (lastHit I id b).orElse (fun _ => lastHit I id a) := by
  conv => lhs; unfold lastHit
  rw [List.foldl_append, foldl_hitStep]
  rfl

theorem staticMap_vals (st : List (String × I.M)) : (staticMap st).map Prod.snd = st.map Prod.snd := by
  simp [staticMap, List.map_map, Function.comp]

theorem treeMap_vals (t : Item (List Char) I.M) : (treeMap t).map Prod.snd = t.contents.map (·.val) := by
  simp [treeMap, List.map_map, Function.comp]

/-! ### association-list facts about `aupsert` -/

theorem aupsert_append_left {K V : Type} [DecidableEq K] (f : V → V) (emp : V) (k : K)
    (a b : List (K × V)) (h : k ∈ akeys a) : aupsert f emp k (a ++ b) = aupsert f emp k a ++ b := by
  induction a with
  | nil => simp at h
  | cons e a ih =>
    obtain ⟨ka, va⟩ := e
    simp only [List.cons_append, aupsert]
    by_cases hk : ka = k
    · simp [hk]
    · simp only [hk, if_false, List.cons_append]
      rw [ih]
      simp only [akeys_cons, List.mem_cons] at h
      rcases h with h | h
      · exact absurd h.symm hk
      · exact h

theorem aupsert_append_right {K V : Type} [DecidableEq K] (f : V → V) (emp : V) (k : K)
    (a b : List (K × V)) (h : k ∉ akeys a) : aupsert f emp k (a ++ b) = a ++ aupsert f emp k b := by
  induction a with
  | nil => rfl
  | cons e a ih =>
    obtain ⟨ka, va⟩ := e
    simp only [akeys_cons, List.mem_cons, not_or] at h
    have hk : ¬ ka = k := fun e => h.1 e.symm
    simp only [List.cons_append, aupsert, hk, if_false, ih h.2]

theorem aupsert_eq_map_of_mem {K V : Type} [DecidableEq K] (f : V → V) (emp : V) (k : K)
    (l : List (K × V)) (hn : (akeys l).Nodup) (h : k ∈ akeys l) :
    aupsert f emp k l = l.map (fun e => if e.1 = k then (e.1, f e.2) else e) := by
  induction l with
  | nil => simp at h
  | cons e l ih =>
    obtain ⟨ka, va⟩ := e
    simp only [akeys_cons, List.nodup_cons] at hn
    simp only [aupsert, List.map_cons]
    by_cases hk : ka = k
    · subst hk
      simp only [if_true, List.cons.injEq, true_and]
      have : ∀ (l' : List (K × V)), (∀ e ∈ l', e.1 ≠ ka) →
          l'.map (fun e => if e.1 = ka then (e.1, f e.2) else e) = l' := by
        intro l'
        induction l' with
        | nil => intro _; rfl
        | cons e l' ih' =>
          intro hall
          have h1 := hall e (List.mem_cons_self ..)
          simp only [List.map_cons, h1, if_false]
          rw [ih' (fun e' he' => hall e' (List.mem_cons_of_mem _ he'))]
      rw [this l (fun e he hh => hn.1 (hh ▸ List.mem_map.mpr ⟨e, he, rfl⟩))]
    · simp only [hk, if_false, List.cons.injEq, true_and]
      apply ih hn.2
      simp only [akeys_cons, List.mem_cons] at h
      rcases h with h | h
      · exact absurd h.symm hk
      · exact h

theorem aupsert_staticMap (f : I.M → I.M) (emp : I.M) (h : String) (st : List (String × I.M)) :
    staticMap (aupsert f emp h st) = aupsert f emp (HKeyG.static h) (staticMap st) := by
  induction st with
  | nil => rfl
  | cons e st ih =>
    obtain ⟨k, b⟩ := e
    simp only [staticMap, List.map_cons, aupsert] at ih ⊢
    by_cases hk : k = h
    · simp [hk]
    · have : ¬ (HKeyG.static k : HK) = HKeyG.static h := by intro e; apply hk; injection e
      simp only [hk, if_false, this, List.map_cons, ih]

theorem static_notin_treeMap (t : Item (List Char) I.M) (h : String) :
    (HKeyG.static h : HK) ∉ akeys (treeMap t) := by
  rw [← alookup_eq_none_iff]; exact alookup_static_treeMap t h

theorem dyn_notin_staticMap (st : List (String × I.M)) (k : List Char) :
    (HKeyG.dyn k : HK) ∉ akeys (staticMap st) := by
  rw [← alookup_eq_none_iff]; exact alookup_dyn_staticMap st k

theorem dyn_mem_treeMap (t : Item (List Char) I.M) (k : List Char) :
    (HKeyG.dyn k : HK) ∈ akeys (treeMap t) ↔ ∃ e ∈ t.contents, e.pat = k := by
  unfold akeys treeMap
  simp only [List.map_map, List.mem_map, Function.comp]
  constructor
  · rintro ⟨e, he, hk⟩; injection hk with hk; exact ⟨e, he, hk⟩
  · rintro ⟨e, he, hk⟩; exact ⟨e, he, by rw [hk]⟩

/-! ### `get_mut` finds a bucket iff the pattern is stored -/

theorem uGet_none_iff {ic : Bool} (t : Item (List Char) I.M) (hinv : t.inv ic = true) (k : List Char) :
    uGet t k = none ↔ ∀ e ∈ t.contents, e.pat ≠ k := by
  unfold uGet
  rw [get_eq_filter t hinv k, List.getLast?_eq_none_iff, List.map_eq_nil_iff, List.filter_eq_nil_iff]
  simp

/-! ### the representation relation of the host layer over the real tree -/

section
variable (T : TEnv) (Good : List Char → Prop) (IL : MLaws I)

/-- the route's host pattern, if any, is in the domain of C08 -/
def HostGood (r : Route) : Prop := ∀ p, r.host = some (.dyn p) → Good (T.render p) ∧ T.render p ≠ []

structure HTRepr (s : HostTState I) (L : List Route) : Prop where
  inv : s.tree.inv T.icHost = true
  dom : ∀ e ∈ s.tree.contents, Good e.pat ∧ e.pat ≠ []
  /-- `UniqueRegexTreeMap`: a bucket is stored under its pattern as id -/
  uniq : ∀ e ∈ s.tree.contents, e.id = e.pat
  repr : LRepr IL (Host.keysOf T.host) (absH s) L

theorem htrepr_insert (s : HostTState I) (L : List Route) (r : Route) (h : HTRepr T Good IL s L)
    (hU : UIds (r :: L)) (hok : IL.okIns r) (hg : HostGood T Good r) :
    HTRepr T Good IL (HostT.insert T I r s) (r :: L) := by
  have hgen := lrepr_insert IL (Host.keysOf T.host) (absH s) L r h.repr hU hok
  have hnodup := h.repr.nodup
  unfold HostT.insert
  cases hh : r.host with
  | none =>
    refine ⟨h.inv, h.dom, h.uniq, ?_⟩
    have : lInsert I (Host.keysOf T.host) r (absH s) =
        absH { s with any := I.insert r s.any, count := s.count + 1 } := by
      simp [lInsert, Host.keysOf, hh, absH]
    rw [this] at hgen; exact hgen
  | some sd =>
    cases sd with
    | static x =>
      by_cases hx : x = ""
      · simp only [hx, if_true]
        refine ⟨h.inv, h.dom, h.uniq, ?_⟩
        have : lInsert I (Host.keysOf T.host) r (absH s) =
            absH { s with any := I.insert r s.any, count := s.count + 1 } := by
          simp [lInsert, Host.keysOf, hh, hx, absH]
        rw [this] at hgen; exact hgen
      · simp only [hx, if_false]
        refine ⟨h.inv, h.dom, h.uniq, ?_⟩
        apply lrepr_perm IL _ _ _ (r :: L) hgen
        · simp [lInsert, Host.keysOf, hh, hx, absH]
        · simp [lInsert, Host.keysOf, hh, hx, absH]
        · simp only [lInsert, Host.keysOf, hh, hx, if_false, absH, List.foldl_cons, List.foldl_nil]
          rw [aupsert_staticMap]
          by_cases hm : (HKeyG.static x : HK) ∈ akeys (staticMap s.statics)
          · rw [aupsert_append_left _ _ _ _ _ hm]
          · rw [aupsert_fresh _ _ _ _ hm,
              aupsert_fresh _ _ _ (staticMap s.statics ++ treeMap s.tree) (by
                simp only [akeys, List.map_append, List.mem_append, not_or]
                exact ⟨hm, static_notin_treeMap s.tree x⟩)]
            simp only [List.append_assoc]
            exact List.Perm.append_left _ List.perm_append_comm
    | dyn p =>
      simp only
      have hkey : Host.keysOf T.host r = some [HKeyG.dyn (T.render p)] := by
        simp [Host.keysOf, hh, TEnv.host]
      have hgood := hg p hh
      cases hu : uGet s.tree (T.render p) with
      | some b0 =>
        simp only
        have hex : ∃ e ∈ s.tree.contents, e.pat = T.render p := by
          apply Classical.byContradiction; intro hne
          have := (uGet_none_iff s.tree h.inv (T.render p)).2 (fun e he hp => hne ⟨e, he, hp⟩)
          rw [this] at hu; cases hu
        have hc := contents_modifyAt s.tree (T.render p) (fun _ m => I.insert r m) h.inv
        refine ⟨inv_modifyAt _ _ _ h.inv, ?_, ?_, ?_⟩
        · intro e he
          rw [hc] at he
          obtain ⟨e0, he0, hp0, _⟩ := mem_refModify he
          rw [hp0]; exact h.dom e0 he0
        · intro e he
          rw [hc] at he
          obtain ⟨e0, he0, hp0, hi0⟩ := mem_refModify he
          rw [hp0, hi0]; exact h.uniq e0 he0
        · have hmem : (HKeyG.dyn (T.render p) : HK) ∈ akeys (treeMap s.tree) :=
            (dyn_mem_treeMap s.tree _).2 hex
          have hnt : (akeys (treeMap s.tree)).Nodup := by
            have : (akeys (staticMap s.statics ++ treeMap s.tree)).Nodup := hnodup
            simp only [akeys, List.map_append] at this
            exact (List.nodup_append.mp this).2.1
          have : lInsert I (Host.keysOf T.host) r (absH s) =
              absH { s with tree := s.tree.modifyAt (T.render p) (fun _ m => I.insert r m),
                            count := s.count + 1 } := by
            simp only [lInsert, hkey, absH, List.foldl_cons, List.foldl_nil]
            rw [aupsert_append_right _ _ _ _ _ (dyn_notin_staticMap s.statics _),
              aupsert_eq_map_of_mem _ _ _ _ hnt hmem]
            congr 2
            unfold treeMap
            rw [hc]
            unfold refModify
            rw [List.map_map, List.map_map]
            apply List.map_congr_left
            intro e _
            simp only [Function.comp]
            by_cases hp : e.pat = T.render p
            · simp [hp]
            · have : ¬ (HKeyG.dyn e.pat : HK) = HKeyG.dyn (T.render p) := by
                intro hh; apply hp; injection hh
              simp [hp, this]
          rw [this] at hgen; exact hgen
      | none =>
        simp only
        have hno := (uGet_none_iff s.tree h.inv (T.render p)).1 hu
        have hperm := contents_insert s.tree (T.render p) (T.render p) (I.insert r I.empty) h.inv
        rw [refInsert_of_no_pat hno] at hperm
        refine ⟨inv_insert _ _ _ _ h.inv, ?_, ?_, ?_⟩
        · intro e he
          rcases List.mem_append.mp (hperm.subset he) with he | he
          · exact h.dom e he
          · simp only [List.mem_singleton] at he; rw [he]; exact hgood
        · intro e he
          rcases List.mem_append.mp (hperm.subset he) with he | he
          · exact h.uniq e he
          · simp only [List.mem_singleton] at he; rw [he]
        · apply lrepr_perm IL _ _ _ (r :: L) hgen
          · simp [lInsert, hkey, absH]
          · simp [lInsert, hkey, absH]
          · simp only [lInsert, hkey, absH, List.foldl_cons, List.foldl_nil]
            have hfresh : (HKeyG.dyn (T.render p) : HK) ∉ akeys (staticMap s.statics ++ treeMap s.tree) := by
              simp only [akeys, List.map_append, List.mem_append, not_or]
              refine ⟨dyn_notin_staticMap s.statics _, ?_⟩
              intro hm
              obtain ⟨e, he, hp⟩ := (dyn_mem_treeMap s.tree _).1 hm
              exact hno e he hp
            rw [aupsert_fresh _ _ _ _ hfresh, List.append_assoc]
            apply List.Perm.append_left
            unfold treeMap uInsert
            have := hperm.map (fun e : Entry (List Char) I.M => ((HKeyG.dyn e.pat : HK), e.val))
            simp only [List.map_append, List.map_cons, List.map_nil] at this
            exact this.symm

/-! ### remove -/

omit T Good IL in
theorem HostT.remove_of_some (id : String) (s : HostTState I) (r0 : Route)
    (h : (I.remove id s.any).2 = some r0) :
    HostT.remove I id s = ({ s with any := (I.remove id s.any).1, count := s.count - 1 }, some r0) := by
  simp [HostT.remove, h]

/-- the `removed` value of `HostMatcher::remove` when the any-host bucket did not hold the route -/
def HostT.removedIn (I : MOps) (id : String) (s : HostTState I) : Option Route :=
  if (removeAll I id s.statics).2.isSome then (removeAll I id s.statics).2
  else lastHit I id (s.tree.contents.map (·.val))

omit T Good IL in
theorem HostT.remove_of_none (id : String) (s : HostTState I) (h : (I.remove id s.any).2 = none) :
    HostT.remove I id s =
      ({ statics := (removeAll I id s.statics).1,
         tree := s.tree.retain (fun _ m => pruneVal I (fun m => (I.remove id m).1) m),
         any := (I.remove id s.any).1,
         count := if (HostT.removedIn I id s).isSome then s.count - 1 else s.count },
       HostT.removedIn I id s) := by
  unfold HostT.remove HostT.removedIn
  simp only [h, Option.isSome_none, Bool.false_eq_true, if_false]

omit T Good IL in
theorem removedIn_isSome (id : String) (s : HostTState I) :
    (HostT.removedIn I id s).isSome = (removeAll I id (absH s).map).2.isSome := by
  unfold HostT.removedIn
  rw [removeAll_snd_eq_lastHit id (absH s).map, removeAll_snd_eq_lastHit id s.statics]
  simp only [absH, List.map_append, lastHit_append, staticMap_vals, treeMap_vals]
  cases h1 : lastHit I id (s.statics.map Prod.snd) <;>
    cases h2 : lastHit I id (s.tree.contents.map (·.val)) <;> simp

omit T Good IL in
theorem absH_remove (id : String) (s : HostTState I) :
    absH (HostT.remove I id s).1 = (lRemove I id (absH s)).1 := by
  cases hra : (I.remove id s.any).2 with
  | some r0 =>
    rw [HostT.remove_of_some id s r0 hra, lRemove_of_some id (absH s) r0 hra]
    rfl
  | none =>
    rw [HostT.remove_of_none id s hra, lRemove_of_none id (absH s) hra]
    simp only [absH]
    rw [removedIn_isSome, removeAll_fst, removeAll_fst, pruneMap_append, pruneMap_staticMap, treeMap_retain]
    rfl

omit T Good in
/-- a bucket that reports a removed route reports the route of that id -/
theorem bucket_hit_eq (L : List Route) (hU : UIds L) (r : Route) (hr : r ∈ L) (hwf : IL.wf r) (id : String)
    (hid : r.id = id) (b : I.M) (p : Route → Bool) (hb : IL.Repr b (L.filter p)) (x : Route)
    (hx : (I.remove id b).2 = some x) : x = r := by
  have hex : ∃ y ∈ L.filter p, y.id = id := by
    apply Classical.byContradiction; intro hne
    have := IL.remove_none _ _ id hb (fun y hy e => hne ⟨y, hy, e⟩)
    rw [this] at hx; cases hx
  obtain ⟨y, hy, hyid⟩ := hex
  have hyr : y = r := hU y (List.mem_filter.mp hy).1 r hr (hyid.trans hid.symm)
  rw [hyr] at hy
  have := IL.remove_some _ _ id r hb (hU.filter _) hy hwf hid
  rw [this] at hx
  exact (Option.some.inj hx).symm

omit T Good IL in
theorem foldl_hitStep_mem (id : String) (ms : List I.M) (x : Route) :
    ∀ acc, ms.foldl (hitStep I id) acc = some x → acc = some x ∨ ∃ m ∈ ms, (I.remove id m).2 = some x := by
  induction ms with
  | nil => intro acc h; exact Or.inl h
  | cons m ms ih =>
    intro acc h
    simp only [List.foldl_cons] at h
    rcases ih _ h with h1 | ⟨m', hm', hx⟩
    · unfold hitStep at h1
      cases hm : (I.remove id m).2 with
      | some y =>
        rw [hm] at h1
        simp only [Option.orElse_some, Option.some.injEq] at h1
        exact Or.inr ⟨m, List.mem_cons_self .., by rw [hm, h1]⟩
      | none =>
        rw [hm] at h1
        simp only [Option.orElse_none] at h1
        exact Or.inl h1
    · exact Or.inr ⟨m', List.mem_cons_of_mem _ hm', hx⟩

omit T Good IL in
theorem lastHit_mem (id : String) (ms : List I.M) (x : Route) (h : lastHit I id ms = some x) :
    ∃ m ∈ ms, (I.remove id m).2 = some x := by
  rcases foldl_hitStep_mem id ms x none h with h1 | h1
  · cases h1
  · exact h1

theorem htrepr_remove (s : HostTState I) (L : List Route) (id : String) (h : HTRepr T Good IL s L)
    (hU : UIds L) : HTRepr T Good IL (HostT.remove I id s).1 (L.filter (fun r => r.id != id)) := by
  have hgen := lrepr_remove IL (Host.keysOf T.host) (absH s) L id h.repr hU
  rw [← absH_remove] at hgen
  cases hra : (I.remove id s.any).2 with
  | some r0 =>
    rw [HostT.remove_of_some id s r0 hra] at hgen ⊢
    exact ⟨h.inv, h.dom, h.uniq, hgen⟩
  | none =>
    rw [HostT.remove_of_none id s hra] at hgen ⊢
    have hc := contents_retain s.tree (fun _ m => pruneVal I (fun m => (I.remove id m).1) m)
    refine ⟨inv_retain _ _ h.inv, ?_, ?_, hgen⟩
    · intro e he
      simp only at he
      rw [hc] at he
      obtain ⟨e0, he0, hp0, _⟩ := mem_refRetain he
      rw [hp0]; exact h.dom e0 he0
    · intro e he
      simp only at he
      rw [hc] at he
      obtain ⟨e0, he0, hp0, hi0, _⟩ := mem_refRetain he
      rw [hp0, hi0]; exact h.uniq e0 he0

omit T Good IL in
theorem htremove_isSome (id : String) (s : HostTState I) :
    (HostT.remove I id s).2.isSome = (lRemove I id (absH s)).2.isSome := by
  cases hra : (I.remove id s.any).2 with
  | some r0 => rw [HostT.remove_of_some id s r0 hra, lRemove_of_some id (absH s) r0 hra]
  | none =>
    rw [HostT.remove_of_none id s hra, lRemove_of_none id (absH s) hra]
    exact removedIn_isSome id s

theorem htremove_none (s : HostTState I) (L : List Route) (id : String) (h : HTRepr T Good IL s L)
    (hno : ∀ r ∈ L, r.id ≠ id) : (HostT.remove I id s).2 = none := by
  have := lremove_none IL (Host.keysOf T.host) (absH s) L id h.repr hno
  have h2 := htremove_isSome id s
  rw [this] at h2
  simpa using h2

theorem htremove_some (s : HostTState I) (L : List Route) (id : String) (r : Route)
    (h : HTRepr T Good IL s L) (hU : UIds L) (hr : r ∈ L)
    (hwf : lWf IL (Host.keysOf T.host) r) (hid : r.id = id) : (HostT.remove I id s).2 = some r := by
  have hgen := lremove_some IL (Host.keysOf T.host) (absH s) L id r h.repr hU hr hwf hid
  have h2 := htremove_isSome id s
  rw [hgen] at h2
  -- some route is returned; every bucket that reports one reports `r`
  cases hx : (HostT.remove I id s).2 with
  | none => rw [hx] at h2; simp at h2
  | some x =>
    congr 1
    cases hra : (I.remove id s.any).2 with
    | some r0 =>
      rw [HostT.remove_of_some id s r0 hra] at hx
      simp only [Option.some.injEq] at hx
      rw [← hx]
      exact bucket_hit_eq IL L hU r hr hwf.1 id hid s.any _ h.repr.any r0 hra
    | none =>
      rw [HostT.remove_of_none id s hra] at hx
      simp only [HostT.removedIn] at hx
      by_cases hs : (removeAll I id s.statics).2.isSome = true
      · simp only [hs, if_true] at hx
        rw [removeAll_snd_eq_lastHit] at hx
        obtain ⟨m, hm, hmx⟩ := lastHit_mem id _ x hx
        obtain ⟨e, he, rfl⟩ := List.mem_map.mp hm
        have hl : alookup (HKeyG.static e.1) (absH s).map = some e.2 := by
          rw [alookup_absH_static]
          have hn : (akeys s.statics).Nodup := by
            have h0 : (akeys (staticMap s.statics ++ treeMap s.tree)).Nodup := h.repr.nodup
            simp only [akeys, List.map_append] at h0
            have h1 := (List.nodup_append.mp h0).1
            have h2 : (staticMap s.statics).map Prod.fst =
                (s.statics.map Prod.fst).map (fun k => (HKeyG.static k : HK)) := by
              simp [staticMap, List.map_map, Function.comp]
            rw [h2] at h1
            exact nodup_of_map_nodup _ _ h1
          exact alookup_of_mem hn (show (e.1, e.2) ∈ s.statics from he)
        exact bucket_hit_eq IL L hU r hr hwf.1 id hid e.2 _ (h.repr.some _ _ hl) x hmx
      · simp only [hs, if_false, Bool.false_eq_true] at hx
        obtain ⟨m, hm, hmx⟩ := lastHit_mem id _ x hx
        obtain ⟨e, he, rfl⟩ := List.mem_map.mp hm
        have hmem : ((HKeyG.dyn e.pat : HK), e.val) ∈ (absH s).map := by
          simp only [absH, List.mem_append]
          right
          exact List.mem_map.mpr ⟨e, he, rfl⟩
        have hl := alookup_of_mem h.repr.nodup hmem
        exact bucket_hit_eq IL L hU r hr hwf.1 id hid e.val _ (h.repr.some _ _ hl) x hmx

/-! ### batch_remove -/

omit T Good IL in
theorem absH_batch (ids : List String) (s : HostTState I) :
    absH (HostT.batchRemove I ids s) = lBatchRemove I ids (absH s) := by
  simp only [HostT.batchRemove, lBatchRemove, absH, batchAll_eq, pruneMap_append, pruneMap_staticMap,
    treeMap_retain]

theorem htrepr_batch (s : HostTState I) (L : List Route) (ids : List String) (h : HTRepr T Good IL s L) :
    HTRepr T Good IL (HostT.batchRemove I ids s) (L.filter (fun r => !ids.contains r.id)) := by
  have hgen := lrepr_batch IL (Host.keysOf T.host) (absH s) L ids h.repr
  rw [← absH_batch] at hgen
  have hc := contents_retain s.tree (fun _ m => pruneVal I (I.batchRemove ids) m)
  refine ⟨inv_retain _ _ h.inv, ?_, ?_, hgen⟩
  · intro e he
    simp only [HostT.batchRemove] at he
    rw [hc] at he
    obtain ⟨e0, he0, hp0, _⟩ := mem_refRetain he
    rw [hp0]; exact h.dom e0 he0
  · intro e he
    simp only [HostT.batchRemove] at he
    rw [hc] at he
    obtain ⟨e0, he0, hp0, hi0, _⟩ := mem_refRetain he
    rw [hp0, hi0]; exact h.uniq e0 he0

/-! ### matching -/

variable (hPS : PrefixSound T.engine Good)

omit T Good IL in
theorem flatMap_filter_map {α β γ : Type} (l : List α) (p : α → Bool) (f : α → β) (g : β → List γ) :
    ((l.filter p).map f).flatMap g = l.flatMap (fun a => if p a then g (f a) else []) := by
  induction l with
  | nil => rfl
  | cons a l ih =>
    simp only [List.filter_cons, List.flatMap_cons]
    cases p a <;> simp [ih]

include hPS in
theorem ht_matchBound_eq (s : HostTState I) (L : List Route) (h : HTRepr T Good IL s L) (q : Req) :
    HostT.matchBound T I s q = Host.matchBound T.host I (absH s) q := by
  unfold HostT.matchBound Host.matchBound
  cases hq : q.host with
  | none => rfl
  | some hh =>
    simp only [Host.boundFor, alookup_absH_static]
    congr 1
    rw [find_eq_scan hPS s.tree h.inv h.dom hh.toList, flatMap_filter_map]
    simp only [absH, List.flatMap_append]
    have h1 : (staticMap s.statics).flatMap (Host.dynPart T.host I hh q) = [] := by
      rw [List.flatMap_eq_nil_iff]
      intro e he
      obtain ⟨e0, _, rfl⟩ := List.mem_map.mp he
      rfl
    rw [h1, List.nil_append]
    unfold treeMap
    rw [List.flatMap_map]
    rfl

include hPS in
theorem ht_matchReq_eq (s : HostTState I) (L : List Route) (h : HTRepr T Good IL s L) (q : Req) :
    HostT.matchReq T I s q = Host.matchReq T.host I (absH s) q := by
  unfold HostT.matchReq Host.matchReq
  rw [ht_matchBound_eq T Good IL hPS s L h q]
  rfl

/-! ### trace -/

omit T Good IL in
theorem hostTreeTraceL_eq (q : Req) (ts : List (Tree.Trace I.M)) :
    hostTreeTraceL I q ts = ts.map (hostTreeTrace I q) := by
  induction ts with
  | nil => simp [hostTreeTraceL]
  | cons t ts ih => simp [hostTreeTraceL, ih]

omit T Good IL in
theorem hostTreeTrace_mk (q : Req) (rx : List Char) (c : Nat) (m : Bool) (cs : List (Tree.Trace I.M))
    (vs : List I.M) :
    hostTreeTrace I q (.mk rx c m cs vs) =
      Trace.mk m true c (.other "regex")
        (cs.map (hostTreeTrace I q) ++ (if m then vs.flatMap (fun b => I.trace b q) else [])) := by
  rw [hostTreeTrace, hostTreeTraceL_eq]

omit T Good IL in
theorem rawRoutesOfList_flatMap {α : Type} (l : List α) (f : α → List Trace) :
    rawRoutesOfList (l.flatMap f) = l.flatMap (fun a => rawRoutesOfList (f a)) := by
  induction l with
  | nil => simp
  | cons a l ih => simp [rawRoutesOfList_append, ih]

omit T Good IL in
/-- the routes stored in the converted tree trace: those of the traces of the buckets `find` returns -/
theorem raw_hostTreeTrace (E : Engine) (q : Req) (t : Item (List Char) I.M) (hay : List Char) :
    (hostTreeTrace I q (t.trace E hay)).rawRoutes =
      (t.find E hay).flatMap (fun b => rawRoutesOfList (I.trace b q)) := by
  induction t using Item.ind with
  | hE ic =>
    rw [trace_empty, hostTreeTrace_mk, find_empty]
    simp [Trace.rawRoutes_mk, TInfo.routes]
  | hL rx vs =>
    rw [trace_leaf, hostTreeTrace_mk, find_leaf]
    cases hm : rx.isMatch E hay <;>
      simp [Trace.rawRoutes_mk, TInfo.routes, rawRoutesOfList_flatMap]
  | hN rx cs ih =>
    rw [trace_node, hostTreeTrace_mk, find_node, findL_eq]
    cases hm : rx.isMatch E hay
    · simp [Trace.rawRoutes_mk, TInfo.routes]
    · simp only [if_true, List.flatMap_nil, List.append_nil, Trace.rawRoutes_mk, TInfo.routes,
        List.nil_append, List.map_map]
      clear hm
      induction cs with
      | nil => simp
      | cons c cs ihc =>
        simp only [List.map_cons, rawRoutesOfList_cons, List.flatMap_cons, Function.comp,
          List.flatMap_append]
        rw [ih c (List.mem_cons_self ..), ihc (fun d hd => ih d (List.mem_cons_of_mem _ hd))]

include hPS in
theorem ht_traceBound_mem (s : HostTState I) (L : List Route) (h : HTRepr T Good IL s L) (hU : UIds L)
    (q : Req) (r : Route) :
    r ∈ rawRoutesOfList (HostT.traceBound T I s q) ↔ r ∈ HostT.matchBound T I s q := by
  rw [ht_matchBound_eq T Good IL hPS s L h q, (host_bound_perm T.host (absH s) h.repr.nodup q).mem_iff,
    ← mem_trace_buckets IL (Host.keysOf T.host) (Host.accepts T.host) (absH s) L h.repr hU q r]
  unfold HostT.traceBound
  rw [rawRoutesOfList_append, List.mem_append, mem_rawRoutesOfList_map]
  have hstat : (∃ a ∈ s.statics, r ∈ (HostT.staticNode I q a).rawRoutes) ↔
      ∃ e ∈ staticMap s.statics, Host.accepts T.host e.1 q = true ∧ r ∈ rawRoutesOfList (I.trace e.2 q) := by
    constructor
    · rintro ⟨a, ha, hr⟩
      unfold HostT.staticNode at hr
      by_cases hc : (q.host == some a.1) = true
      · simp only [hc, if_true, Trace.rawRoutes_mk, TInfo.routes, List.nil_append] at hr
        refine ⟨(HKeyG.static a.1, a.2), List.mem_map.mpr ⟨a, ha, rfl⟩, ?_, hr⟩
        have : q.host = some a.1 := by simpa using hc
        simp [Host.accepts, this]
      · simp [hc, Trace.rawRoutes_mk, TInfo.routes] at hr
    · rintro ⟨e, he, hacc, hr⟩
      obtain ⟨a, ha, rfl⟩ := List.mem_map.mp he
      refine ⟨a, ha, ?_⟩
      unfold Host.accepts at hacc
      cases hq : q.host with
      | none => rw [hq] at hacc; simp at hacc
      | some hh =>
        rw [hq] at hacc
        simp only [beq_iff_eq] at hacc
        unfold HostT.staticNode
        have hc : (q.host == some a.1) = true := by rw [hq, hacc]; simp
        simp only [hc, if_true, Trace.rawRoutes_mk, TInfo.routes, List.nil_append]
        exact hr
  rw [hstat]
  have hsplit : (∃ e ∈ (absH s).map, Host.accepts T.host e.1 q = true ∧ r ∈ rawRoutesOfList (I.trace e.2 q)) ↔
      ((∃ e ∈ staticMap s.statics, Host.accepts T.host e.1 q = true ∧ r ∈ rawRoutesOfList (I.trace e.2 q)) ∨
       (∃ e ∈ treeMap s.tree, Host.accepts T.host e.1 q = true ∧ r ∈ rawRoutesOfList (I.trace e.2 q))) := by
    simp only [absH, List.mem_append]
    constructor
    · rintro ⟨e, he | he, h2⟩
      · exact Or.inl ⟨e, he, h2⟩
      · exact Or.inr ⟨e, he, h2⟩
    · rintro (⟨e, he, h2⟩ | ⟨e, he, h2⟩)
      · exact ⟨e, Or.inl he, h2⟩
      · exact ⟨e, Or.inr he, h2⟩
  rw [hsplit]
  apply or_congr_right
  cases hq : q.host with
  | none =>
    simp only [rawRoutesOfList_nil, List.not_mem_nil, false_iff]
    rintro ⟨e, _, hacc, _⟩
    simp [Host.accepts, hq] at hacc
  | some hh =>
    simp only
    have htree : r ∈ (hostTreeTrace I q (s.tree.trace T.engine hh.toList)).rawRoutes ↔
        ∃ e ∈ treeMap s.tree, Host.accepts T.host e.1 q = true ∧ r ∈ rawRoutesOfList (I.trace e.2 q) := by
      rw [raw_hostTreeTrace, find_eq_scan hPS s.tree h.inv h.dom hh.toList, flatMap_filter_map,
        List.mem_flatMap]
      constructor
      · rintro ⟨e, he, hr⟩
        by_cases hc : T.engine.full T.icHost e.pat hh.toList = true
        · simp only [hc, if_true] at hr
          exact ⟨(HKeyG.dyn e.pat, e.val), List.mem_map.mpr ⟨e, he, rfl⟩,
            by simp [Host.accepts, hq, TEnv.host, hc], hr⟩
        · simp [hc] at hr
      · rintro ⟨e, he, hacc, hr⟩
        obtain ⟨e0, he0, rfl⟩ := List.mem_map.mp he
        refine ⟨e0, he0, ?_⟩
        have hc : T.engine.full T.icHost e0.pat hh.toList = true := by
          simpa [Host.accepts, hq, TEnv.host] using hacc
        simp only [hc, if_true]
        exact hr
    rw [← htree]
    cases hx : (alookup hh s.statics).isNone
    · simp only [Bool.false_eq_true, if_false, rawRoutesOfList_append, rawRoutesOfList_singleton,
        Trace.rawRoutes_mk, TInfo.routes, List.nil_append, List.append_nil, rawRoutesOfList_nil]
    · simp only [if_true, rawRoutesOfList_append, rawRoutesOfList_singleton, Trace.rawRoutes_mk,
        TInfo.routes, List.nil_append, List.append_nil, rawRoutesOfList_nil]

include hPS in
theorem ht_mem_trace (s : HostTState I) (L : List Route) (h : HTRepr T Good IL s L) (hU : UIds L)
    (q : Req) (r : Route) :
    r ∈ rawRoutesOfList (HostT.trace T I s q) ↔ r ∈ HostT.matchReq T I s q := by
  have hb := ht_traceBound_mem T Good IL hPS s L h hU q
  have hbm : ∀ y, y ∈ HostT.matchBound T I s q → y ∈ L := by
    intro y hy
    rw [ht_matchBound_eq T Good IL hPS s L h q] at hy
    exact ((host_mem_bound IL T.host (absH s) L h.repr hU q y).1 hy).1
  have hraw : ∀ y ∈ rawRoutesOfList (HostT.traceBound T I s q), y ∈ L :=
    fun y hy => hbm y ((hb y).1 hy)
  have hempty : (routesOfList (HostT.traceBound T I s q)).isEmpty = (HostT.matchBound T I s q).isEmpty := by
    rw [Bool.eq_iff_iff, isEmpty_iff_forall, isEmpty_iff_forall]
    constructor
    · intro hx x hx2
      exact hx x ((mem_routesOfList_iff L hU _ hraw x).2 ((hb x).2 hx2))
    · intro hx x hx2
      exact hx x ((hb x).1 ((mem_routesOfList_iff L hU _ hraw x).1 hx2))
  have hany : r ∈ rawRoutesOfList (I.trace s.any q) ↔ r ∈ I.matchReq s.any q :=
    IL.mem_trace _ _ q r h.repr.any (hU.filter _)
  unfold HostT.trace HostT.matchReq
  simp only [hempty]
  cases hc : (T.alwaysAnyHost || (HostT.matchBound T I s q).isEmpty)
  · simp only [Bool.false_eq_true, if_false, hb]
  · simp only [if_true, rawRoutesOfList_append, List.mem_append, hb, hany]

/-! ### cache -/

omit T Good in
theorem cacheRelL_map {α : Type} (l : List α) (f f' : α → HK × I.M)
    (h : ∀ a ∈ l, (f' a).1 = (f a).1 ∧ CacheRel IL (f a).2 (f' a).2) :
    CacheRelL IL (l.map f) (l.map f') := by
  induction l with
  | nil => trivial
  | cons a l ih =>
    exact ⟨h a (List.mem_cons_self ..), ih (fun b hb => h b (List.mem_cons_of_mem _ hb))⟩

omit T Good in
theorem cacheRelL_staticMap : ∀ {a a' : List (String × I.M)}, CacheRelL IL a a' →
    CacheRelL IL (staticMap a) (staticMap a')
  | [], [], _ => trivial
  | [], _ :: _, h => h.elim
  | _ :: _, [], h => h.elim
  | e :: l, e' :: l', h => by
    refine ⟨⟨?_, h.1.2⟩, cacheRelL_staticMap h.2⟩
    show (HKeyG.static e'.1 : HK) = HKeyG.static e.1
    rw [h.1.1]

omit T Good in
theorem cacheRel_refl (b : I.M) : CacheRel IL b b := fun _ h => h

/-- `HostMatcher::cache` returns normally, hands back at most the budget it got, and the new state
is the old one with every bucket replaced by a cached version and the tree's flags changed. -/
theorem htrepr_cache (s : HostTState I) (L : List Route) (limit level : Nat) (h : HTRepr T Good IL s L) :
    HTRepr T Good IL (HostT.cache T I limit level s).1 L ∧ (HostT.cache T I limit level s).2 ≤ limit := by
  obtain ⟨t1, n1, h1, hs, hn1⟩ := treeCache_spec T.engine s.tree limit (some level)
  have hc : t1.contents = s.tree.contents := by rw [← contents_strip, hs, contents_strip]
  have hi : t1.inv T.icHost = true := by rw [inv_of_treeCache h1 T.icHost]; exact h.inv
  unfold HostT.cache
  simp only [h1, Option.getD_some]
  have hst := cacheAll_spec IL level s.statics n1
  have hbk := cacheAll_spec IL level (t1.contents.map (fun e => (e.id, e.val))) (cacheAll I level s.statics n1).2
  generalize hrb : cacheAll I level (t1.contents.map (fun e => (e.id, e.val))) (cacheAll I level s.statics n1).2 = rb at hbk
  have hret := contents_retain t1 (fun id m => some ((alookup id rb.1).getD m))
  have hcont : (t1.retain (fun id m => some ((alookup id rb.1).getD m))).contents =
      s.tree.contents.map (fun e => ⟨e.pat, e.id, (alookup e.id rb.1).getD e.val⟩) := by
    rw [hret, hc]
    unfold refRetain
    induction s.tree.contents with
    | nil => rfl
    | cons e l ih => simp [ih]
  refine ⟨⟨inv_retain _ _ hi, ?_, ?_, ?_⟩, ?_⟩
  · intro e he
    simp only at he
    rw [hcont] at he
    obtain ⟨e0, he0, rfl⟩ := List.mem_map.mp he
    exact h.dom e0 he0
  · intro e he
    simp only at he
    rw [hcont] at he
    obtain ⟨e0, he0, rfl⟩ := List.mem_map.mp he
    exact h.uniq e0 he0
  · -- the buckets: static ones by `cacheAll`, tree ones stored back under their id
    refine lrepr_of_cacheRel IL (Host.keysOf T.host) (absH s) _ L h.repr rfl ?_ ?_
    · exact fun L' hL' => IL.repr_cache _ L' _ level hL'
    · simp only [absH]
      apply cacheRelL_append IL (cacheRelL_staticMap IL hst.1)
      unfold treeMap
      rw [hcont, List.map_map]
      apply cacheRelL_map IL
      intro e he
      refine ⟨rfl, ?_⟩
      simp only [Function.comp]
      cases hl : alookup e.id rb.1 with
      | none => exact cacheRel_refl IL _
      | some b' =>
        obtain ⟨b, hb, hr⟩ := (cacheRelL_lookup IL hbk.1 e.id).2 b' hl
        -- ids are distinct (unique tree + distinct bucket keys): the bucket found under the id is `e`'s
        have hkn : (akeys (treeMap s.tree)).Nodup := by
          have h0 : (akeys (staticMap s.statics ++ treeMap s.tree)).Nodup := h.repr.nodup
          simp only [akeys, List.map_append] at h0
          exact (List.nodup_append.mp h0).2.1
        have hidn : (akeys (s.tree.contents.map (fun e => (e.id, e.val)))).Nodup := by
          have : akeys (treeMap s.tree) =
              (akeys (s.tree.contents.map (fun e => (e.id, e.val)))).map (fun k => (HKeyG.dyn k : HK)) := by
            unfold akeys treeMap
            simp only [List.map_map]
            apply List.map_congr_left
            intro x hx
            simp only [Function.comp]
            rw [h.uniq x hx]
          rw [this] at hkn
          exact nodup_of_map_nodup _ _ hkn
        rw [hc] at hb
        have hmem : (e.id, e.val) ∈ s.tree.contents.map (fun e => (e.id, e.val)) :=
          List.mem_map.mpr ⟨e, he, rfl⟩
        have := alookup_of_mem hidn hmem
        rw [this] at hb
        simp only [Option.some.injEq] at hb
        simp only [Option.getD_some]
        rw [hb]; exact hr
  · have h4 := IL.cache_le s.any rb.2 level
    have h3 := hbk.2
    have h2 := hst.2
    omega

/-! ### the laws -/

/-- `HostMatcher` over the real tree satisfies the layer laws, with the `sat` of the
specification-level host layer (`hostSat`, incl. the any-host fallback). -/
def hostTLaws : MLaws (hostTOps T I) where
  Repr := HTRepr T Good IL
  sat := hostSat IL T.host
  wf := lWf IL (Host.keysOf T.host)
  okIns := fun r => IL.okIns r ∧ HostGood T Good r
  sat_congr := fun L L' r q h => hostSat_congr IL T.host L L' r q h
  repr_empty := ⟨by simp [hostTOps, HostT.empty, Item.inv],
    by intro e he; simp [hostTOps, HostT.empty] at he,
    by intro e he; simp [hostTOps, HostT.empty] at he,
    by simpa [hostTOps, HostT.empty, absH, staticMap, treeMap, lEmpty] using
      lrepr_empty IL (Host.keysOf T.host)⟩
  repr_congr := fun s L L' h hs hm => ⟨h.inv, h.dom, h.uniq, lrepr_congr IL _ _ L L' h.repr hs hm⟩
  len_zero := fun s L h h0 => lrepr_len_zero IL _ (absH s) L h.repr h0
  repr_insert := fun s L r h hU hok => htrepr_insert T Good IL s L r h hU hok.1 hok.2
  repr_remove := fun s L id h hU => htrepr_remove T Good IL s L id h hU
  remove_some := fun s L id r h hU hr hwf hid => htremove_some T Good IL s L id r h hU hr hwf hid
  remove_none := fun s L id h hno => htremove_none T Good IL s L id h hno
  remove_pos := by
    intro (s : HostTState I) L id h hs
    have hs' : (lRemove I id (absH s)).2.isSome = true := by
      rw [← htremove_isSome id s]; exact hs
    exact lremove_pos IL _ (absH s) L id h.repr hs'
  repr_batch := fun s L ids h => htrepr_batch T Good IL s L ids h
  repr_cache := fun s L limit level h => (htrepr_cache T Good IL s L limit level h).1
  cache_le := by
    intro (s : HostTState I) limit level
    -- the budget bound does not need the representation: same chain of `≤`
    obtain ⟨t1, n1, h1, _, hn1⟩ := treeCache_spec T.engine s.tree limit (some level)
    show (HostT.cache T I limit level s).2 ≤ limit
    unfold HostT.cache
    simp only [h1, Option.getD_some]
    have hst := (cacheAll_spec IL level s.statics n1).2
    have hbk := (cacheAll_spec IL level (t1.contents.map (fun e => (e.id, e.val)))
      (cacheAll I level s.statics n1).2).2
    have h4 := IL.cache_le s.any (cacheAll I level (t1.contents.map (fun e => (e.id, e.val)))
      (cacheAll I level s.statics n1).2).2 level
    omega
  mem_match := by
    intro s L q r h hU
    show r ∈ HostT.matchReq T I s q ↔ _
    rw [ht_matchReq_eq T Good IL hPS s L h q]
    exact host_mem_match IL T.host (absH s) L h.repr hU q r
  nodup_match := by
    intro s L q h hU
    show (HostT.matchReq T I s q).Nodup
    rw [ht_matchReq_eq T Good IL hPS s L h q]
    exact host_nodup_match IL T.host (absH s) L h.repr hU q
  mem_trace := fun s L q r h hU => ht_mem_trace T Good IL hPS s L h hU q r

end

end
end Rio.Router
