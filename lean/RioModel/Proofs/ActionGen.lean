/-
W4c: the use-time decision functions of `Action` TRANSLATED from src/action/mod.rs on every run
(`Rio.Consts.genActionGetStatusCode`, `genActionGetFinalStatusCode`, `genActionShouldLogRequest`; section
`w4_translate_action` of Generated/Consts.lean, tools/consts.d/w4_translate.py) are W3's hand-written observers
`Action.getStatusCode`, `Action.getFinalStatusCodeWithFallback`, `Action.shouldLogRequest` (Model/Action.lean).

The translation covers the `match` on the optional sub-rule, the call of the sub-rule's decision function
(`StatusCodeUpdate::get_status_code` / `LogOverride::get_log_override`: parameters here, themselves translated
by tools/consts.d/action.py into `statusGetStatusCode` / `logGetLogOverride`, which W3's model calls), the
insertion of the attributed rule id into `rules_applied` (`LinkedHashSet::insert`: a parameter, instantiated
with the model's `lhsInsert`), `unwrap_or(allow_log_config)`, and the request-time fallback of
`get_final_status_code_with_fallback` with its two `&mut self` calls.  Not covered: the unit-trace blocks
(skipped when they have exactly the known shape; they only touch the trace object — C18 / C05b model them).
-/
import RioModel.Generated.Consts
import RioModel.Model.Action
set_option linter.unusedSimpArgs false

namespace Rio.ActionGen
open Rio.Consts Rio.Action

/-- `LogOverride::get_log_override` with its third component (`handled`), as the source returns it -/
def getLogOverrideFull (l : LogOverride) (c : Nat) : Option Bool × Option RuleId × Bool :=
  Rio.Consts.logGetLogOverride l.logOverride l.onResponseStatusCodes l.excludeResponseStatusCodes
    l.fallbackLogOverride l.ruleId l.fallbackRuleId c

/-- the translated `Action::get_status_code` as an observer of the model action -/
def genGetStatusCode (a : Action) (c : Nat) : Nat × Action :=
  let r := genActionGetStatusCode StatusCodeUpdate.getStatusCode lhsInsert a.statusCodeUpdate a.rulesApplied c
  (r.1, { a with rulesApplied := r.2 })

def genShouldLogRequest (a : Action) (allowLogConfig : Bool) (c : Nat) : Bool × Action :=
  let r := genActionShouldLogRequest getLogOverrideFull lhsInsert a.logOverride a.rulesApplied allowLogConfig c
  (r.1, { a with rulesApplied := r.2 })

def genGetFinal (a : Action) (c fallback : Nat) : (Nat × Nat) × Action :=
  genActionGetFinalStatusCode genGetStatusCode a c fallback

theorem genGetStatusCode_eq (a : Action) (c : Nat) : genGetStatusCode a c = a.getStatusCode c := by
  obtain ⟨st, hf, bf, rids, tr, ra, lg⟩ := a
  unfold genGetStatusCode Action.getStatusCode genActionGetStatusCode
  cases st with
  | none => rfl
  | some u =>
    simp only
    cases h2 : (u.getStatusCode c).2 with
    | none => simp [lhsInsertOpt, h2]
    | some i => simp [lhsInsertOpt, h2]

theorem genShouldLogRequest_eq (a : Action) (allow : Bool) (c : Nat) :
    genShouldLogRequest a allow c = a.shouldLogRequest allow c := by
  obtain ⟨st, hf, bf, rids, tr, ra, lg⟩ := a
  unfold genShouldLogRequest Action.shouldLogRequest genActionShouldLogRequest
  cases lg with
  | none => rfl
  | some l =>
    have e1 : (l.getLogOverride c).1 = (getLogOverrideFull l c).1 := rfl
    have e2 : (l.getLogOverride c).2 = (getLogOverrideFull l c).2.1 := rfl
    simp only [e1, e2]
    cases h2 : (getLogOverrideFull l c).2.1 with
    | none => cases h3 : (getLogOverrideFull l c).1 <;> simp [lhsInsertOpt, h2, h3]
    | some i => cases h3 : (getLogOverrideFull l c).1 <;> simp [lhsInsertOpt, h2, h3]

theorem genGetFinal_eq (a : Action) (c fallback : Nat) :
    genGetFinal a c fallback = a.getFinalStatusCodeWithFallback c fallback := by
  unfold genGetFinal genActionGetFinalStatusCode Action.getFinalStatusCodeWithFallback
  have e : genGetStatusCode = fun a c => a.getStatusCode c := by
    funext a c; exact genGetStatusCode_eq a c
  -- robust against the shape of the `if` (early `return`, negated test, swapped branches)
  first
    | (simp only [e]; done)
    | (simp only [e]
       generalize a.getStatusCode c = r
       obtain ⟨n, a'⟩ := r
       cases hc : (c == 0 && n == 0) <;> simp [hc])

/-! ### `Action::merge` and the loop of `Action::from_routes_rule` (section `w4_translate_merge`)

The translation works on structures GENERATED from the Rust struct definitions (`GenStatusCodeUpdate`,
`GenLogOverride`: fields in declaration order, read from the source on every run); `toGen*` / `ofGen*` carry W3's
records over, field by field and BY NAME (so a reordering of the Rust fields changes nothing, a new field breaks
the build here). -/

def toGenStatus (u : StatusCodeUpdate) : GenStatusCodeUpdate RuleId :=
  { statusCode := u.statusCode, onResponseStatusCodes := u.onResponseStatusCodes,
    excludeResponseStatusCodes := u.excludeResponseStatusCodes, fallbackStatusCode := u.fallbackStatusCode,
    ruleId := u.ruleId, fallbackRuleId := u.fallbackRuleId, unitId := u.unitId, targetHash := u.targetHash }

def ofGenStatus (g : GenStatusCodeUpdate RuleId) : StatusCodeUpdate :=
  { statusCode := g.statusCode, onResponseStatusCodes := g.onResponseStatusCodes,
    excludeResponseStatusCodes := g.excludeResponseStatusCodes, fallbackStatusCode := g.fallbackStatusCode,
    ruleId := g.ruleId, fallbackRuleId := g.fallbackRuleId, unitId := g.unitId, targetHash := g.targetHash }

def toGenLog (l : LogOverride) : GenLogOverride RuleId :=
  { logOverride := l.logOverride, ruleId := l.ruleId, onResponseStatusCodes := l.onResponseStatusCodes,
    excludeResponseStatusCodes := l.excludeResponseStatusCodes, fallbackLogOverride := l.fallbackLogOverride,
    fallbackRuleId := l.fallbackRuleId, unitId := l.unitId }

def ofGenLog (g : GenLogOverride RuleId) : LogOverride :=
  { logOverride := g.logOverride, ruleId := g.ruleId, onResponseStatusCodes := g.onResponseStatusCodes,
    excludeResponseStatusCodes := g.excludeResponseStatusCodes, fallbackLogOverride := g.fallbackLogOverride,
    fallbackRuleId := g.fallbackRuleId, unitId := g.unitId }

theorem ofGen_toGen_status (u : StatusCodeUpdate) : ofGenStatus (toGenStatus u) = u := rfl
theorem ofGen_toGen_log (l : LogOverride) : ofGenLog (toGenLog l) = l := rfl

/-- the translated `Action::merge` as an operation on model actions (`rules_applied` is not touched by the code) -/
def genMerge (self other : Action) : Action :=
  let r := genActionMerge lhsInsert
    (self.statusCodeUpdate.map toGenStatus) self.headerFilters self.bodyFilters self.ruleIds self.ruleTraces
    (self.logOverride.map toGenLog)
    (other.statusCodeUpdate.map toGenStatus) other.headerFilters other.bodyFilters other.ruleIds other.ruleTraces
    (other.logOverride.map toGenLog)
  { statusCodeUpdate := r.1.map ofGenStatus, headerFilters := r.2.1, bodyFilters := r.2.2.1, ruleIds := r.2.2.2.1,
    ruleTraces := r.2.2.2.2.1, rulesApplied := self.rulesApplied, logOverride := r.2.2.2.2.2.map ofGenLog }

theorem mergeLoop1_eq {ι φ : Type} (ins : List ι → ι → List ι) (o s : List φ) :
    genActionMergeLoop1 ins o s = s ++ o := by
  induction o generalizing s with
  | nil => simp [genActionMergeLoop1]
  | cons x xs ih => simp [genActionMergeLoop1, ih]

theorem mergeLoop2_eq {ι β : Type} (ins : List ι → ι → List ι) (o s : List β) :
    genActionMergeLoop2 ins o s = s ++ o := by
  induction o generalizing s with
  | nil => simp [genActionMergeLoop2]
  | cons x xs ih => simp [genActionMergeLoop2, ih]

theorem mergeLoop3_eq {ι : Type} (ins : List ι → ι → List ι) (o s : List ι) :
    genActionMergeLoop3 ins o s = o.foldl ins s := by
  induction o generalizing s with
  | nil => simp [genActionMergeLoop3]
  | cons x xs ih => simp [genActionMergeLoop3, ih]

theorem mergeLoop4_eq {ι τ : Type} (ins : List ι → ι → List ι) (o s : List τ) :
    genActionMergeLoop4 ins o s = s ++ o := by
  induction o generalizing s with
  | nil => simp [genActionMergeLoop4]
  | cons x xs ih => simp [genActionMergeLoop4, ih]

theorem genMerge_eq (self other : Action) : genMerge self other = self.merge other := by
  obtain ⟨st, hf, bf, rids, tr, ra, lg⟩ := self
  obtain ⟨st', hf', bf', rids', tr', ra', lg'⟩ := other
  simp only [genMerge, genActionMerge, Action.merge, mergeLoop1_eq, mergeLoop2_eq, mergeLoop3_eq, mergeLoop4_eq,
    Action.mk.injEq, true_and, and_true]
  constructor
  · cases st' with
    | none => cases st <;> simp [mergeStatus, ofGen_toGen_status]
    | some n =>
      cases st with
      | none => simp [mergeStatus, ofGen_toGen_status]
      | some o =>
        simp only [mergeStatus, Option.map_some]
        by_cases hc : (!o.onResponseStatusCodes.isEmpty || n.onResponseStatusCodes.isEmpty) = true
        · simp [toGenStatus, ofGenStatus, hc]
        · simp [toGenStatus, ofGenStatus, hc]
  · cases lg' with
    | none => cases lg <;> simp [mergeLog, ofGen_toGen_log]
    | some n =>
      cases lg with
      | none => simp [mergeLog, ofGen_toGen_log]
      | some o =>
        simp only [mergeLog, Option.map_some]
        by_cases hc : (!o.onResponseStatusCodes.isEmpty || n.onResponseStatusCodes.isEmpty) = true
        · simp [toGenLog, ofGenLog, hc]
        · simp [toGenLog, ofGenLog, hc]

/-- `Action::from_route_rule(route, request)` as the loop sees it (the fourth component, the configuration unit
id, only feeds the unit trace) -/
def frr (q : Req) (draw : Rule → Nat) (r : Rule) : Option Action × Bool × Bool × Option String :=
  let x := fromRouteRule r q (draw r)
  (x.1, x.2.1, x.2.2, none)

theorem genLoop_eq (q : Req) (draw : Rule → Nat) (rs : List Rule) (a : Action) :
    genFromRoutesRuleLoop1 (frr q draw) Action.merge rs a = foldRoutes q draw a rs := by
  induction rs generalizing a with
  | nil => rfl
  | cons r rest ih =>
    unfold genFromRoutesRuleLoop1 foldRoutes
    rcases h : fromRouteRule r q (draw r) with ⟨o, reset, stop⟩
    cases o with
    | none => simp [frr, h, ih]
    | some ar => cases reset <;> cases stop <;> simp [frr, h, ih]

/-- **the translated `from_routes_rule` (sort, loop, translated `merge`) is W3's `fromRoutesRule`** -/
theorem genFromRoutesRule_eq (R : List Rule) (q : Req) (draw : Rule → Nat) :
    genFromRoutesRule (frr q draw) genMerge Action.empty sortRules R = fromRoutesRule R q draw := by
  have e : genMerge = Action.merge := by funext a b; exact genMerge_eq a b
  rw [e]
  unfold genFromRoutesRule fromRoutesRule
  exact genLoop_eq q draw _ _

/-! ### the selection loops of `filter_headers` / `create_filter_body` (section `w4_translate_select`) -/

def toGenTrace (t : RuleTrace) : GenRuleTrace RuleId :=
  { id := t.id, onResponseStatusCodes := t.onResponseStatusCodes,
    excludeResponseStatusCodes := t.excludeResponseStatusCodes }

def toGenHF (f : HeaderFilterAction) : GenHeaderFilterAction HeaderFilter RuleId :=
  { filter := f.filter, onResponseStatusCodes := f.onResponseStatusCodes,
    excludeResponseStatusCodes := f.excludeResponseStatusCodes, ruleId := f.ruleId }

def toGenBF (f : BodyFilterAction) : GenBodyFilterAction BodyFilter RuleId :=
  { filter := f.filter, onResponseStatusCodes := f.onResponseStatusCodes,
    excludeResponseStatusCodes := f.excludeResponseStatusCodes, ruleId := f.ruleId }

/-- the steps of W3's folds (`Action.filterHeaders`, `Action.createFilterBody`) -/
def traceStep (c : Nat) (s : List RuleId) (t : RuleTrace) : List RuleId :=
  if traceApplies t.onResponseStatusCodes t.excludeResponseStatusCodes c then lhsInsert s t.id else s

def headerStep (c : Nat) (st : List HeaderFilter × List RuleId) (f : HeaderFilterAction) :
    List HeaderFilter × List RuleId :=
  if filterSkipped f.onResponseStatusCodes f.excludeResponseStatusCodes c then st
  else (st.1 ++ [f.filter], lhsInsertOpt st.2 f.ruleId)

def bodyStep (c : Nat) (st : List BodyFilter × List RuleId) (f : BodyFilterAction) :
    List BodyFilter × List RuleId :=
  if filterSkipped f.onResponseStatusCodes f.excludeResponseStatusCodes c then st
  else (st.1 ++ [f.filter], lhsInsertOpt st.2 f.ruleId)

theorem traceLoop_eq (c : Nat) (ts : List RuleTrace) (s : List RuleId) :
    genActionSelectHeaderFiltersLoop1 lhsInsert c (ts.map toGenTrace) s = ts.foldl (traceStep c) s := by
  induction ts generalizing s with
  | nil => rfl
  | cons t rest ih =>
    simp only [List.map_cons, List.foldl_cons, genActionSelectHeaderFiltersLoop1, toGenTrace]
    cases h1 : t.onResponseStatusCodes.isEmpty <;> cases h2 : t.excludeResponseStatusCodes <;>
      by_cases h3 : c ∈ t.onResponseStatusCodes <;>
      simp [traceStep, traceApplies, h1, h2, h3, ih, toGenTrace]

theorem headerLoop_eq (c : Nat) (fs : List HeaderFilterAction) (s : List RuleId) (xs : List HeaderFilter) :
    genActionSelectHeaderFiltersLoop2 lhsInsert c (fs.map toGenHF) s xs =
      ((fs.foldl (headerStep c) (xs, s)).2, (fs.foldl (headerStep c) (xs, s)).1) := by
  induction fs generalizing s xs with
  | nil => rfl
  | cons f rest ih =>
    simp only [List.map_cons, List.foldl_cons, genActionSelectHeaderFiltersLoop2, toGenHF]
    cases h1 : f.onResponseStatusCodes.isEmpty <;> cases h2 : f.excludeResponseStatusCodes <;>
      by_cases h3 : c ∈ f.onResponseStatusCodes <;> cases h4 : f.ruleId <;>
      simp [headerStep, filterSkipped, lhsInsertOpt, h1, h2, h3, h4, ih, toGenHF]

theorem bodyLoop_eq (c : Nat) (fs : List BodyFilterAction) (s : List RuleId) (xs : List BodyFilter) :
    genActionCreateFilterBodyLoop1 lhsInsert c (fs.map toGenBF) s xs =
      ((fs.foldl (bodyStep c) (xs, s)).2, (fs.foldl (bodyStep c) (xs, s)).1) := by
  induction fs generalizing s xs with
  | nil => rfl
  | cons f rest ih =>
    simp only [List.map_cons, List.foldl_cons, genActionCreateFilterBodyLoop1, toGenBF]
    cases h1 : f.onResponseStatusCodes.isEmpty <;> cases h2 : f.excludeResponseStatusCodes <;>
      by_cases h3 : c ∈ f.onResponseStatusCodes <;> cases h4 : f.ruleId <;>
      simp [bodyStep, filterSkipped, lhsInsertOpt, h1, h2, h3, h4, ih, toGenBF]

/-- **the translated selection loops of `filter_headers` are W3's `Action.filterHeaders`**: the filters handed to
`FilterHeaderAction::new` and the new `rules_applied` -/
theorem genSelectHeaderFilters_eq (a : Action) (c : Nat) (add : Bool) :
    genActionSelectHeaderFilters lhsInsert c (a.ruleTraces.map toGenTrace) (a.headerFilters.map toGenHF)
        a.rulesApplied =
      ((a.filterHeaders c add).filters, (a.filterHeaders c add).action.rulesApplied) := by
  simp only [genActionSelectHeaderFilters, traceLoop_eq, headerLoop_eq, Action.filterHeaders]
  rfl

/-- **the translated `create_filter_body` is W3's `Action.createFilterBody`** followed by
`FilterBodyAction::new` / `is_empty` (parameters) -/
theorem genCreateFilterBody_eq {κ : Type} (newBody : List BodyFilter → κ) (isEmptyBody : κ → Bool)
    (a : Action) (c : Nat) :
    genActionCreateFilterBody lhsInsert c newBody isEmptyBody (a.bodyFilters.map toGenBF) a.rulesApplied =
      ((if isEmptyBody (newBody (a.createFilterBody c).1) then none else some (newBody (a.createFilterBody c).1)),
       (a.createFilterBody c).2.rulesApplied) := by
  simp only [genActionCreateFilterBody, bodyLoop_eq, Action.createFilterBody]
  have e : (fun (st : List BodyFilter × List RuleId) (f : BodyFilterAction) =>
      if filterSkipped f.onResponseStatusCodes f.excludeResponseStatusCodes c = true then st
      else (st.1 ++ [f.filter], lhsInsertOpt st.2 f.ruleId)) = bodyStep c := rfl
  simp only [e]
  split <;> rfl

end Rio.ActionGen
