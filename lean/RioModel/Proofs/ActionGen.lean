/-
W4c: the use-time decision functions of `Action` TRANSLATED from src/action/mod.rs on every run
(`Rio.Consts.genActionGetStatusCode`, `genActionGetFinalStatusCode`, `genActionShouldLogRequest`; section
`w4_translate_action` of Generated/Consts.lean, tools/consts.d/w4_translate.py) are W3's hand-written observers
`Action.getStatusCode`, `Action.getFinalStatusCodeWithFallback`, `Action.shouldLogRequest` (Model/Action.lean).

The translation covers the `match` on the optional sub-rule, the call of the sub-rule's decision function
(`StatusCodeUpdate::get_status_code` / `LogOverride::get_log_override`: parameters here, themselves translated
by tools/consts.d/action.py into `statusGetStatusCode` / `logGetLogOverride`, which W3's model calls), the
insertion of the attributed rule id into `rules_applied` (`LinkedHashSet::insert`: a parameter, instantiated
with the model's `lhsInsert`), `unwrap_or(allow_log_config)`, and the request-time fallback of
`get_final_status_code_with_fallback` with its two `&mut self` calls.  Not covered: the unit-trace blocks
(skipped when they have exactly the known shape; they only touch the trace object — C18 / C05b model them).
-/
import RioModel.Generated.Consts
import RioModel.Model.Action
set_option linter.unusedSimpArgs false

namespace Rio.ActionGen
open Rio.Consts Rio.Action

/-- `LogOverride::get_log_override` with its third component (`handled`), as the source returns it -/
def getLogOverrideFull (l : LogOverride) (c : Nat) : Option Bool × Option RuleId × Bool :=
  Rio.Consts.logGetLogOverride l.logOverride l.onResponseStatusCodes l.excludeResponseStatusCodes
    l.fallbackLogOverride l.ruleId l.fallbackRuleId c

/-- the translated `Action::get_status_code` as an observer of the model action -/
def genGetStatusCode (a : Action) (c : Nat) : Nat × Action :=
  let r := genActionGetStatusCode StatusCodeUpdate.getStatusCode lhsInsert a.statusCodeUpdate a.rulesApplied c
  (r.1, { a with rulesApplied := r.2 })

def genShouldLogRequest (a : Action) (allowLogConfig : Bool) (c : Nat) : Bool × Action :=
  let r := genActionShouldLogRequest getLogOverrideFull lhsInsert a.logOverride a.rulesApplied allowLogConfig c
  (r.1, { a with rulesApplied := r.2 })

def genGetFinal (a : Action) (c fallback : Nat) : (Nat × Nat) × Action :=
  genActionGetFinalStatusCode genGetStatusCode a c fallback

theorem genGetStatusCode_eq (a : Action) (c : Nat) : genGetStatusCode a c = a.getStatusCode c := by
  obtain ⟨st, hf, bf, rids, tr, ra, lg⟩ := a
  unfold genGetStatusCode Action.getStatusCode genActionGetStatusCode
  cases st with
  | none => rfl
  | some u =>
    simp only
    cases h2 : (u.getStatusCode c).2 with
    | none => simp [lhsInsertOpt, h2]
    | some i => simp [lhsInsertOpt, h2]

theorem genShouldLogRequest_eq (a : Action) (allow : Bool) (c : Nat) :
    genShouldLogRequest a allow c = a.shouldLogRequest allow c := by
  obtain ⟨st, hf, bf, rids, tr, ra, lg⟩ := a
  unfold genShouldLogRequest Action.shouldLogRequest genActionShouldLogRequest
  cases lg with
  | none => rfl
  | some l =>
    have e1 : (l.getLogOverride c).1 = (getLogOverrideFull l c).1 := rfl
    have e2 : (l.getLogOverride c).2 = (getLogOverrideFull l c).2.1 := rfl
    simp only [e1, e2]
    cases h2 : (getLogOverrideFull l c).2.1 with
    | none => cases h3 : (getLogOverrideFull l c).1 <;> simp [lhsInsertOpt, h2, h3]
    | some i => cases h3 : (getLogOverrideFull l c).1 <;> simp [lhsInsertOpt, h2, h3]

theorem genGetFinal_eq (a : Action) (c fallback : Nat) :
    genGetFinal a c fallback = a.getFinalStatusCodeWithFallback c fallback := by
  unfold genGetFinal genActionGetFinalStatusCode Action.getFinalStatusCodeWithFallback
  have e : genGetStatusCode = fun a c => a.getStatusCode c := by
    funext a c; exact genGetStatusCode_eq a c
  -- robust against the shape of the `if` (early `return`, negated test, swapped branches)
  first
    | (simp only [e]; done)
    | (simp only [e]
       generalize a.getStatusCode c = r
       obtain ⟨n, a'⟩ := r
       cases hc : (c == 0 && n == 0) <;> simp [hc])

end Rio.ActionGen
