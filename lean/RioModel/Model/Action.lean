/-
Model of `src/action/mod.rs` (`from_route_rule`, `merge`, `from_routes_rule`, `get_status_code`,
`get_final_status_code_with_fallback`, `filter_headers`, `create_filter_body`, `should_log_request`,
`get_applied_rule_ids`), `src/action/status_code_update.rs`, `src/action/log_override.rs`,
`impl Ord for Rule` (`src/api/rule.rs`; `Route::cmp` delegates to it) and of the insertion
behaviour of `linked_hash_set::LinkedHashSet` (an `insert` of a present value moves it to the back).

Conventions
* A `Rule` here is the part of `api::Rule` + `api::Source` that these functions read, with marker
  substitution already done (`StaticOrDynamic::replace` with the captured variables is the identity
  on the strings carried here; it belongs to C10).
* Rule ids are `List Nat` = the UTF-8 bytes of the Rust `String`; Rust compares `String`s bytewise
  (`cmpBytes`).  Every other text is an opaque `String`.
* `rand::random::<u32>() % 100 + 1` is the parameter `draw` (one value per rule: `draw : Rule → Nat`).
* `unit_trace` is `None` everywhere (the `UnitTrace` side effects are not modelled).

Part 1 is the transcription of the code (the *model*, `"m"` of the driver).  Part 2 (`namespace Spec`)
is the independent executable *specification* (`"s"`): closed forms over the sorted list of matched
rules, written without the fold.  Props/C05.lean proves Part 1 = Part 2.
-/
import RioModel.Generated.Consts
import RioModel.Model.Header

namespace Rio.Action

/-! ## Part 0 — data -/

abbrev RuleId := List Nat

/-- `api::HeaderFilter`. -/
structure HeaderFilter where
  action : String
  header : String
  value : String
  id : Option String
  targetHash : Option String
deriving DecidableEq, Repr, Inhabited

/-- `api::TextAction`. -/
inductive TextAction where
  | append | prepend | replace
deriving DecidableEq, Repr, Inhabited

/-- `api::TextBodyFilter`. -/
structure TextBodyFilter where
  action : TextAction
  content : String
  id : Option String
  targetHash : Option String
deriving DecidableEq, Repr, Inhabited

/-- `api::HTMLBodyFilter`. -/
structure HtmlBodyFilter where
  action : String
  value : String
  innerValue : Option String
  elementTree : List String
  cssSelector : Option String
  id : Option String
  targetHash : Option String
deriving DecidableEq, Repr, Inhabited

/-- `api::BodyFilter` (untagged enum). -/
inductive BodyFilter where
  | text (f : TextBodyFilter)
  | html (f : HtmlBodyFilter)
deriving DecidableEq, Repr, Inhabited

/-- The fields of `api::Rule` / `api::Source` read by `Action::from_route_rule` and `Rule::cmp`. -/
structure Rule where
  id : RuleId
  rank : Nat
  /-- `rule.status_code` -/
  statusCode : Option Nat
  /-- `rule.target`, markers already substituted -/
  target : Option String
  /-- `rule.source.response_status_codes` -/
  responseStatusCodes : Option (List Nat)
  /-- `rule.source.exclude_response_status_codes` (the code tests `is_some()`) -/
  excludeResponseStatusCodes : Option Bool
  /-- `rule.source.sampling` -/
  sampling : Option Nat
  headerFilters : Option (List HeaderFilter)
  bodyFilters : Option (List BodyFilter)
  logOverride : Option Bool
  reset : Option Bool
  stop : Option Bool
  redirectUnitId : Option String
  configurationLogUnitId : Option String
  targetHash : Option String
  /-- `rule.configuration_reset_unit_id`: only feeds the unit trace (Model/UnitTrace.lean), for `reset` AND `stop` -/
  configurationResetUnitId : Option String := none
deriving DecidableEq, Repr, Inhabited

/-- The fields of `http::Request` read by `from_route_rule`. -/
structure Req where
  samplingOverride : Option Bool
  /-- `request.path_and_query_skipped.skipped_query_params` -/
  skippedQueryParams : Option String
deriving DecidableEq, Repr, Inhabited

/-- `action::StatusCodeUpdate`. -/
structure StatusCodeUpdate where
  statusCode : Nat
  onResponseStatusCodes : List Nat
  excludeResponseStatusCodes : Bool
  fallbackStatusCode : Nat
  ruleId : Option RuleId
  fallbackRuleId : Option RuleId
  unitId : Option String
  targetHash : Option String
deriving DecidableEq, Repr, Inhabited

/-- `action::LogOverride`. -/
structure LogOverride where
  logOverride : Bool
  ruleId : Option RuleId
  onResponseStatusCodes : List Nat
  excludeResponseStatusCodes : Bool
  fallbackLogOverride : Option Bool
  fallbackRuleId : Option RuleId
  unitId : Option String
deriving DecidableEq, Repr, Inhabited

structure HeaderFilterAction where
  filter : HeaderFilter
  onResponseStatusCodes : List Nat
  excludeResponseStatusCodes : Bool
  ruleId : Option RuleId
deriving DecidableEq, Repr, Inhabited

structure BodyFilterAction where
  filter : BodyFilter
  onResponseStatusCodes : List Nat
  excludeResponseStatusCodes : Bool
  ruleId : Option RuleId
deriving DecidableEq, Repr, Inhabited

structure RuleTrace where
  id : RuleId
  onResponseStatusCodes : List Nat
  excludeResponseStatusCodes : Bool
deriving DecidableEq, Repr, Inhabited

/-- `action::Action`; the two `LinkedHashSet<String>` are lists in insertion order. -/
structure Action where
  statusCodeUpdate : Option StatusCodeUpdate
  headerFilters : List HeaderFilterAction
  bodyFilters : List BodyFilterAction
  ruleIds : List RuleId
  ruleTraces : List RuleTrace
  rulesApplied : List RuleId
  logOverride : Option LogOverride
deriving DecidableEq, Repr, Inhabited

/-- `Action::default()`. -/
def Action.empty : Action := ⟨none, [], [], [], [], [], none⟩

/-! ## Part 1 — the model -/

/-! ### `impl Ord for Rule` -/

/-- `u16::cmp`. -/
def cmpNat (a b : Nat) : Ordering :=
  if a < b then .lt else if b < a then .gt else .eq

/-- `String::cmp` = `<[u8] as Ord>::cmp`: lexicographic on bytes, a proper prefix is smaller. -/
def cmpBytes : List Nat → List Nat → Ordering
  | [], [] => .eq
  | [], _ :: _ => .lt
  | _ :: _, [] => .gt
  | a :: as, b :: bs => if a < b then .lt else if b < a then .gt else cmpBytes as bs

/-- One key of `Rule::cmp`: `other.k.cmp(&self.k)` (descending) or `self.k.cmp(&other.k)`;
which of the two the source uses is read from the source on every run (Generated/Consts.lean). -/
def keyCmp {α : Type} (cmp : α → α → Ordering) (desc : Bool) (self other : α) : Ordering :=
  if desc then cmp other self else cmp self other

/-- `impl Ord for Rule { fn cmp(&self, other) }`: rank first, then id. -/
def ruleCmp (self other : Rule) : Ordering :=
  let orderOnRank := keyCmp cmpNat Rio.Consts.ruleCmpRankDescending self.rank other.rank
  if orderOnRank != .eq then orderOnRank
  else keyCmp cmpBytes Rio.Consts.ruleCmpIdDescending self.id other.id

/-- `a <= b` for the order above: what `sort` guarantees between an earlier and a later element. -/
def ruleLe (a b : Rule) : Bool := ruleCmp a b != .gt

/-- `routes.sort()` (a stable merge sort; `List.mergeSort` is stable as well). -/
def sortRules (rs : List Rule) : List Rule := rs.mergeSort ruleLe

/-! ### `LinkedHashSet<String>` -/

/-- The test used when re-inserting: keep the other elements. -/
def idNe (x y : RuleId) : Bool := !(y == x)

/-- `LinkedHashSet::insert`: a value already present is moved to the back. -/
def lhsInsert (s : List RuleId) (x : RuleId) : List RuleId := s.filter (idNe x) ++ [x]

/-- `rules_applied.insert(id)` when `id` is `Some`. -/
def lhsInsertOpt (s : List RuleId) (x : Option RuleId) : List RuleId :=
  match x with
  | none => s
  | some x => lhsInsert s x

/-! ### `Action::from_route_rule` -/

/-- The sampling test at the top of `from_route_rule`: `true` = the early `return (None, …)`. -/
def sampledOut (sampling : Option Nat) (override : Option Bool) (draw : Nat) : Bool :=
  match sampling with
  | none => false
  | some s =>
    let percentRand := min s 100          -- `sampling.clamp(0, 100)` on a `u32`
    match override, decide (draw > percentRand) with
    | some false, _ => true
    | none, true => true
    | _, _ => false

/-- `target.is_empty()` (a named test: see the builder guide on `simp` and Boolean tests). -/
def emptyTarget (t : String) : Bool := t.isEmpty

/-- The value of the `Location` filter: the target plus the skipped query parameters. -/
def locationValue (target : String) (q : Req) : String :=
  match q.skippedQueryParams with
  | none => target
  | some skipped =>
    (if target.toList.any (· == '?') then target ++ "&" else target ++ "?") ++ skipped

/-- Body filter after "substitution": an HTML filter gets `inner_value = Some(inner_value.unwrap_or(value))`. -/
def bodyFilterOfRule (f : BodyFilter) : BodyFilter :=
  match f with
  | .html h => .html { h with innerValue := some (match h.innerValue with | some v => v | none => h.value) }
  | .text t => .text t

/-- `Action::from_route_rule`: `(action, reset, stop)` (the fourth component only feeds the unit trace). -/
def fromRouteRule (r : Rule) (q : Req) (draw : Nat) : Option Action × Bool × Bool :=
  if sampledOut r.sampling q.samplingOverride draw then (none, false, false)
  else
    let onCodes : List Nat := match r.responseStatusCodes with | none => [] | some codes => codes
    let excl : Bool := r.excludeResponseStatusCodes.isSome
    let redirectCode : Nat := match r.statusCode with | none => 0 | some c => c
    let statusCodeUpdate : Option StatusCodeUpdate :=
      if redirectCode == 0 then none
      else some {
        statusCode := redirectCode, onResponseStatusCodes := onCodes,
        excludeResponseStatusCodes := excl, fallbackStatusCode := 0,
        ruleId := some r.id, fallbackRuleId := none,
        unitId := r.redirectUnitId, targetHash := some "status_code" }
    let location : List HeaderFilterAction :=
      match r.target with
      | none => []
      | some target =>
        if emptyTarget target then []
        else [{ filter := { action := "override", value := locationValue target q, header := "Location",
                            id := r.redirectUnitId, targetHash := r.targetHash },
                onResponseStatusCodes := onCodes, excludeResponseStatusCodes := excl,
                ruleId := some r.id }]
    let ruleHeaderFilters : List HeaderFilterAction :=
      match r.headerFilters with
      | none => []
      | some fs => fs.map fun f =>
          { filter := f, onResponseStatusCodes := onCodes, excludeResponseStatusCodes := excl,
            ruleId := some r.id }
    let ruleBodyFilters : List BodyFilterAction :=
      match r.bodyFilters with
      | none => []
      | some fs => fs.map fun f =>
          { filter := bodyFilterOfRule f, onResponseStatusCodes := onCodes,
            excludeResponseStatusCodes := excl, ruleId := some r.id }
    let action : Action := {
      statusCodeUpdate := statusCodeUpdate
      headerFilters := location ++ ruleHeaderFilters
      bodyFilters := ruleBodyFilters
      ruleIds := [r.id]
      ruleTraces := [{ id := r.id, onResponseStatusCodes := onCodes, excludeResponseStatusCodes := excl }]
      rulesApplied := []
      logOverride := r.logOverride.map fun lo =>
        { logOverride := lo, ruleId := some r.id, onResponseStatusCodes := onCodes,
          excludeResponseStatusCodes := excl, fallbackLogOverride := none, fallbackRuleId := none,
          unitId := r.configurationLogUnitId } }
    (some action, (match r.reset with | none => false | some b => b),
                  (match r.stop with | none => false | some b => b))

/-! ### `Action::merge` -/

def mergeStatus (self other : Option StatusCodeUpdate) : Option StatusCodeUpdate :=
  match other with
  | none => self
  | some new =>
    match self with
    | none => some new
    | some old =>
      if !old.onResponseStatusCodes.isEmpty || new.onResponseStatusCodes.isEmpty then some new
      else some {
        statusCode := new.statusCode, onResponseStatusCodes := new.onResponseStatusCodes,
        excludeResponseStatusCodes := new.excludeResponseStatusCodes,
        fallbackStatusCode := old.statusCode, ruleId := new.ruleId, targetHash := new.targetHash,
        fallbackRuleId := old.ruleId, unitId := new.unitId }

def mergeLog (self other : Option LogOverride) : Option LogOverride :=
  match other with
  | none => self
  | some o =>
    match self with
    | none => some o
    | some s =>
      if !s.onResponseStatusCodes.isEmpty || o.onResponseStatusCodes.isEmpty then some o
      else some {
        logOverride := o.logOverride, ruleId := o.ruleId,
        onResponseStatusCodes := o.onResponseStatusCodes,
        excludeResponseStatusCodes := o.excludeResponseStatusCodes,
        fallbackLogOverride := some s.logOverride, fallbackRuleId := s.ruleId,
        unitId := s.unitId }     -- sic: the unit id of the *old* override

/-- `Action::merge(&mut self, other)`. -/
def Action.merge (self other : Action) : Action := {
  statusCodeUpdate := mergeStatus self.statusCodeUpdate other.statusCodeUpdate
  headerFilters := self.headerFilters ++ other.headerFilters
  bodyFilters := self.bodyFilters ++ other.bodyFilters
  ruleIds := other.ruleIds.foldl lhsInsert self.ruleIds
  ruleTraces := self.ruleTraces ++ other.ruleTraces
  rulesApplied := self.rulesApplied
  logOverride := mergeLog self.logOverride other.logOverride }

/-! ### `Action::from_routes_rule` -/

/-- The `for route in routes` loop (after the sort), with its early `return` on `stop`. -/
def foldRoutes (q : Req) (draw : Rule → Nat) : Action → List Rule → Action
  | action, [] => action
  | action, r :: rest =>
    match fromRouteRule r q (draw r) with
    | (none, _, _) => foldRoutes q draw action rest
    | (some actionRule, reset, stop) =>
      let action' := if reset then actionRule else action.merge actionRule
      if stop then action' else foldRoutes q draw action' rest

/-- `Action::from_routes_rule(routes, request, None)`. -/
def fromRoutesRule (routes : List Rule) (q : Req) (draw : Rule → Nat) : Action :=
  foldRoutes q draw Action.empty (sortRules routes)

/-! ### Use-time observers -/

/-- `StatusCodeUpdate::get_status_code`: the body is TRANSLATED from the source on every run
(`Rio.Consts.statusGetStatusCode`, tools/consts.d/action.py); at the time of writing it reads
```
  if c == 0 && codes.isEmpty then (statusCode, ruleId)
  else if excl && !codes.contains c then (statusCode, ruleId)
  else if !excl && codes.any (fun v => v == c) then (statusCode, ruleId)
  else if c != 0 then (fallbackStatusCode, fallbackRuleId)
  else (0, none)
``` -/
def StatusCodeUpdate.getStatusCode (u : StatusCodeUpdate) (c : Nat) : Nat × Option RuleId :=
  Rio.Consts.statusGetStatusCode u.statusCode u.onResponseStatusCodes u.excludeResponseStatusCodes
    u.fallbackStatusCode u.ruleId u.fallbackRuleId c

/-- `LogOverride::get_log_override` (translated from the source as well: `Rio.Consts.logGetLogOverride`);
the third component `handled` only feeds the unit trace and is dropped here. -/
def LogOverride.getLogOverride (l : LogOverride) (c : Nat) : Option Bool × Option RuleId :=
  let r := Rio.Consts.logGetLogOverride l.logOverride l.onResponseStatusCodes
    l.excludeResponseStatusCodes l.fallbackLogOverride l.ruleId l.fallbackRuleId c
  (r.1, r.2.1)

/-- `Action::get_status_code(response_status_code, None)`. -/
def Action.getStatusCode (a : Action) (c : Nat) : Nat × Action :=
  match a.statusCodeUpdate with
  | none => (0, a)
  | some u =>
    let r := u.getStatusCode c
    (r.1, { a with rulesApplied := lhsInsertOpt a.rulesApplied r.2 })

/-- `Action::get_final_status_code_with_fallback`. -/
def Action.getFinalStatusCodeWithFallback (a : Action) (c fallback : Nat) : (Nat × Nat) × Action :=
  let r := a.getStatusCode c
  if c == 0 && r.1 == 0 then
    let r2 := r.2.getStatusCode fallback
    ((r2.1, fallback), r2.2)
  else ((r.1, c), r.2)

/-- The three `if`s of the `for trace in &self.rule_traces` loop of `filter_headers`:
`true` = `rules_applied.insert(trace.id)`. -/
def traceApplies (codes : List Nat) (excl : Bool) (c : Nat) : Bool :=
  if codes.isEmpty then true
  else if !excl && codes.contains c then true
  else if excl && !codes.contains c then true
  else false

/-- The guard of the filter loops of `filter_headers` / `create_filter_body`: `true` = `continue`. -/
def filterSkipped (codes : List Nat) (excl : Bool) (c : Nat) : Bool :=
  if !codes.isEmpty then
    if !excl && !codes.contains c then true
    else if excl && codes.contains c then true
    else false
  else false

/-- What `filter_headers` hands over: the selected filters (input of `FilterHeaderAction::new`, C13),
the ids joined into the `X-RedirectionIo-RuleIds` header when asked for, and the new `self`. -/
structure FilterHeadersResult where
  filters : List HeaderFilter
  ruleIdsHeader : Option (List RuleId)
  action : Action
deriving DecidableEq, Repr

/-- `Action::filter_headers(headers, response_status_code, add_rule_ids_header, None)` up to the
application of the selected filters to `headers` (which is `Rio.Header.filterHeaders`, C13). -/
def Action.filterHeaders (a : Action) (c : Nat) (addRuleIdsHeader : Bool) : FilterHeadersResult :=
  let applied1 := a.ruleTraces.foldl
    (fun s t => if traceApplies t.onResponseStatusCodes t.excludeResponseStatusCodes c
                then lhsInsert s t.id else s)
    a.rulesApplied
  let r := a.headerFilters.foldl
    (fun (st : List HeaderFilter × List RuleId) f =>
      if filterSkipped f.onResponseStatusCodes f.excludeResponseStatusCodes c then st
      else (st.1 ++ [f.filter], lhsInsertOpt st.2 f.ruleId))
    ([], applied1)
  { filters := r.1
    ruleIdsHeader := if addRuleIdsHeader then some r.2 else none
    action := { a with rulesApplied := r.2 } }

/-- The part of an `api::HeaderFilter` the header actions read (C13 model). -/
def toHeaderOp (f : HeaderFilter) : Rio.Header.HeaderFilter := ⟨f.action, f.header, f.value⟩

/-- The whole of `Action::filter_headers(headers, response_status_code, add_rule_ids_header, None)`:
selection (above), `FilterHeaderAction::new(filters)` + `filter(headers)` (the C13 model, `lower` =
`str::to_lowercase`), then the `X-RedirectionIo-RuleIds` header (`showId` renders an id; the driver
decodes the UTF-8 bytes). -/
def Action.filterHeadersFull (lower : String → String) (showId : RuleId → String) (a : Action)
    (headers : List Rio.Header.Header) (c : Nat) (addRuleIdsHeader : Bool) :
    List Rio.Header.Header × Action :=
  let r := a.filterHeaders c addRuleIdsHeader
  let newHeaders := Rio.Header.filterHeaders lower (r.filters.map toHeaderOp) headers
  ((match r.ruleIdsHeader with
    | none => newHeaders
    | some ids => newHeaders ++ [⟨"X-RedirectionIo-RuleIds", String.intercalate ";" (ids.map showId)⟩]),
   r.action)

/-- `Action::create_filter_body` up to `FilterBodyAction::new(filters, headers)`: the selected filters. -/
def Action.createFilterBody (a : Action) (c : Nat) : List BodyFilter × Action :=
  let r := a.bodyFilters.foldl
    (fun (st : List BodyFilter × List RuleId) f =>
      if filterSkipped f.onResponseStatusCodes f.excludeResponseStatusCodes c then st
      else (st.1 ++ [f.filter], lhsInsertOpt st.2 f.ruleId))
    ([], a.rulesApplied)
  (r.1, { a with rulesApplied := r.2 })

/-- `Action::should_log_request(allow_log_config, response_status_code, None)`. -/
def Action.shouldLogRequest (a : Action) (allowLogConfig : Bool) (c : Nat) : Bool × Action :=
  match a.logOverride with
  | none => (allowLogConfig, a)
  | some l =>
    let r := l.getLogOverride c
    ((match r.1 with | some b => b | none => allowLogConfig),
     { a with rulesApplied := lhsInsertOpt a.rulesApplied r.2 })

/-! ### A sequence of observer calls on one action (what a proxy does with it) -/

inductive Op where
  | status | headers | body | log
  | final (fallback : Nat)
deriving DecidableEq, Repr

inductive OpResult where
  | status (code : Nat)
  | headers (filters : List HeaderFilter) (ruleIdsHeader : Option (List RuleId))
  | body (filters : List BodyFilter)
  | log (allow : Bool)
  | final (code response : Nat)
deriving DecidableEq, Repr

def runOp (allowLogConfig : Bool) (c : Nat) (a : Action) (op : Op) : OpResult × Action :=
  match op with
  | .status => let r := a.getStatusCode c; (.status r.1, r.2)
  | .headers => let r := a.filterHeaders c true; (.headers r.filters r.ruleIdsHeader, r.action)
  | .body => let r := a.createFilterBody c; (.body r.1, r.2)
  | .log => let r := a.shouldLogRequest allowLogConfig c; (.log r.1, r.2)
  | .final fb => let r := a.getFinalStatusCodeWithFallback c fb; (.final r.1.1 r.1.2, r.2)

/-- Run the observers in sequence; after each, record its result and `get_applied_rule_ids()`. -/
def runOps (allowLogConfig : Bool) (c : Nat) : Action → List Op → List (OpResult × List RuleId)
  | _, [] => []
  | a, op :: ops =>
    let r := runOp allowLogConfig c a op
    (r.1, r.2.rulesApplied) :: runOps allowLogConfig c r.2 ops

/-- The same with a response code PER CALL: what a proxy really does with one action — `get_status_code(0)` at
request time, then `get_status_code` / `filter_headers` / `create_filter_body` / `should_log_request` with the
backend's code, all on the same `&mut self` (`rules_applied` accumulates across the codes). -/
def runOpsC (allowLogConfig : Bool) : Action → List (Op × Nat) → List (OpResult × List RuleId)
  | _, [] => []
  | a, (op, c) :: ops =>
    let r := runOp allowLogConfig c a op
    (r.1, r.2.rulesApplied) :: runOpsC allowLogConfig r.2 ops

/-- The proxy order (`unit_ids.rs` / `test_examples.rs` / the proxy modules): `s0` = the status returned at request
time, `s1` = the status returned for the backend's code (only asked when `s0 = 0`). -/
def proxySequence (s0 s1 backend : Nat) : List (Op × Nat) :=
  let backend' := if s0 != 0 then s0 else backend
  let final := if s0 != 0 then s0 else s1
  [(.status, 0)] ++ (if s0 != 0 then [] else [(.status, backend)]) ++
    [(.headers, backend'), (.body, backend'), (.log, final)]

/-! ## Part 2 — the specification: closed forms over the sorted matched rules -/

namespace Spec

/-- A rule is *effective* for a request: not sampled, or kept by the sampling decision. -/
def effective (q : Req) (draw : Rule → Nat) (r : Rule) : Bool :=
  match r.sampling with
  | none => true
  | some s =>
    match q.samplingOverride with
    | some true => true
    | some false => false
    | none => decide (draw r ≤ min s 100)

def isStop (r : Rule) : Bool := r.stop == some true
def isReset (r : Rule) : Bool := r.reset == some true

/-- Prefix up to and including the first `stop` rule. -/
def throughFirstStop : List Rule → List Rule
  | [] => []
  | r :: rs => if isStop r then [r] else r :: throughFirstStop rs

/-- Suffix starting at the last `reset` rule (the whole list if there is none). -/
def fromLastReset : List Rule → List Rule
  | [] => []
  | r :: rs => if rs.any isReset then fromLastReset rs else r :: rs

/-- The rules that contribute to the action, in application order (lowest priority first),
given the matched rules sorted by (rank desc, id desc). -/
def contributing (q : Req) (draw : Rule → Nat) (sorted : List Rule) : List Rule :=
  fromLastReset (throughFirstStop (sorted.filter (effective q draw)))

def codesOf (r : Rule) : List Nat := r.responseStatusCodes.getD []
def exclOf (r : Rule) : Bool := r.excludeResponseStatusCodes.isSome

/-- The response-status condition of a rule *admits* the response code `c` (for its filters, its
trace and its log override): no code list, or listed / not excluded. -/
def admits (r : Rule) (c : Nat) : Bool :=
  codesOf r == [] || (if exclOf r then !(codesOf r).contains c else (codesOf r).contains c)

/-- The condition under which the *status code* of a rule applies to `c`: an unconditional rule
only at request time (`c = 0`) — unless it carries the exclude flag with an empty list, which the
code treats as "every code" —, a conditional rule when the code is listed / not excluded. -/
def admitsStatus (r : Rule) (c : Nat) : Bool :=
  (c == 0 && codesOf r == []) || (if exclOf r then !(codesOf r).contains c else (codesOf r).contains c)

def carriesStatus (r : Rule) : Bool := !(r.statusCode.getD 0 == 0)
def carriesLog (r : Rule) : Bool := r.logOverride.isSome
def unconditional (r : Rule) : Bool := codesOf r == []

/-- `(primary, fallback)` among the rules satisfying `carries`: the primary is the last one (highest
priority); the one before it is its fallback iff it is unconditional and the primary is conditional. -/
def primaryFallback (carries : Rule → Bool) (C : List Rule) : Option (Rule × Option Rule) :=
  match (C.filter carries).reverse with
  | [] => none
  | [p] => some (p, none)
  | p :: q :: _ => some (p, if unconditional q && !unconditional p then some q else none)

/-- The status rule of a rule (`from_route_rule`) with the fallback taken from `fb`. -/
def statusUpdateOf (p : Rule) (fb : Option Rule) : StatusCodeUpdate := {
  statusCode := p.statusCode.getD 0, onResponseStatusCodes := codesOf p,
  excludeResponseStatusCodes := exclOf p,
  fallbackStatusCode := match fb with | some q => q.statusCode.getD 0 | none => 0,
  ruleId := some p.id, fallbackRuleId := fb.map (·.id),
  unitId := p.redirectUnitId, targetHash := some "status_code" }

def logOverrideOf (p : Rule) (fb : Option Rule) : LogOverride := {
  logOverride := p.logOverride.getD false, ruleId := some p.id,
  onResponseStatusCodes := codesOf p, excludeResponseStatusCodes := exclOf p,
  fallbackLogOverride := fb.map (fun q => q.logOverride.getD false),
  fallbackRuleId := fb.map (·.id),
  unitId := match fb with | some q => q.configurationLogUnitId | none => p.configurationLogUnitId }

/-- The header filters a rule contributes: `Location` override first (non-empty target), then its own. -/
def ruleHeaderFilters (q : Req) (r : Rule) : List HeaderFilterAction :=
  ((match r.target with
    | some t => if emptyTarget t then [] else
        [({ action := "override", header := "Location", value := locationValue t q,
            id := r.redirectUnitId, targetHash := r.targetHash } : HeaderFilter)]
    | none => []) ++ r.headerFilters.getD []).map fun f =>
      { filter := f, onResponseStatusCodes := codesOf r, excludeResponseStatusCodes := exclOf r,
        ruleId := some r.id }

def ruleBodyFilters (r : Rule) : List BodyFilterAction :=
  (r.bodyFilters.getD []).map fun f =>
    { filter := bodyFilterOfRule f, onResponseStatusCodes := codesOf r,
      excludeResponseStatusCodes := exclOf r, ruleId := some r.id }

def ruleTrace (r : Rule) : RuleTrace :=
  { id := r.id, onResponseStatusCodes := codesOf r, excludeResponseStatusCodes := exclOf r }

/-- Keep the last occurrence of every element: the content of a `LinkedHashSet` after inserting
the elements of the list one after the other. -/
def dedupLast : List RuleId → List RuleId
  | [] => []
  | x :: xs => if xs.contains x then dedupLast xs else x :: dedupLast xs

/-- The action, field by field, from the contributing rules. -/
def action (q : Req) (C : List Rule) : Action := {
  statusCodeUpdate := (primaryFallback carriesStatus C).map fun pf => statusUpdateOf pf.1 pf.2
  headerFilters := C.flatMap (ruleHeaderFilters q)
  bodyFilters := C.flatMap ruleBodyFilters
  ruleIds := dedupLast (C.map (·.id))
  ruleTraces := C.map ruleTrace
  rulesApplied := []
  logOverride := (primaryFallback carriesLog C).map fun pf => logOverrideOf pf.1 pf.2 }

/-- `get_status_code` as a table over the contributing rules: `(status, rule it is attributed to)`. -/
def statusAt (C : List Rule) (c : Nat) : Nat × Option RuleId :=
  match primaryFallback carriesStatus C with
  | none => (0, none)
  | some (p, fb) =>
    if admitsStatus p c then (p.statusCode.getD 0, some p.id)
    else if c == 0 then (0, none)
    else match fb with
      | some f => (f.statusCode.getD 0, some f.id)
      | none => (0, none)

/-- `should_log_request`: `(override decided, rule it is attributed to)`. -/
def logAt (C : List Rule) (c : Nat) : Option Bool × Option RuleId :=
  match primaryFallback carriesLog C with
  | none => (none, none)
  | some (p, fb) =>
    if admits p c then (p.logOverride, some p.id)
    else match fb with
      | some f => (f.logOverride, some f.id)
      | none => (none, none)

/-- Header filters applied for response code `c`, in order. -/
def headerFiltersAt (q : Req) (C : List Rule) (c : Nat) : List HeaderFilter :=
  (C.filter (admits · c)).flatMap fun r => (ruleHeaderFilters q r).map (·.filter)

def bodyFiltersAt (C : List Rule) (c : Nat) : List BodyFilter :=
  (C.filter (admits · c)).flatMap fun r => (ruleBodyFilters r).map (·.filter)

/-- Ids inserted into `rules_applied` by one observer call, in insertion order. -/
def insertedBy (q : Req) (C : List Rule) (c : Nat) : Op → List RuleId
  | .status => (statusAt C c).2.toList
  | .headers =>
    (C.filter (admits · c)).map (·.id) ++
      (C.filter (admits · c)).flatMap fun r => (ruleHeaderFilters q r).map fun _ => r.id
  | .body => (C.filter (admits · c)).flatMap fun r => (ruleBodyFilters r).map fun _ => r.id
  | .log => (logAt C c).2.toList
  | .final fb =>
    (statusAt C c).2.toList ++
      (if c == 0 && (statusAt C c).1 == 0 then (statusAt C fb).2.toList else [])

def resultOf (q : Req) (C : List Rule) (allowLogConfig : Bool) (c : Nat) (applied : List RuleId) :
    Op → OpResult
  | .status => .status (statusAt C c).1
  | .headers => .headers (headerFiltersAt q C c) (some applied)
  | .body => .body (bodyFiltersAt C c)
  | .log => .log ((logAt C c).1.getD allowLogConfig)
  | .final fb =>
    if c == 0 && (statusAt C c).1 == 0 then .final (statusAt C fb).1 fb else .final (statusAt C c).1 c

/-- The observations of a sequence of observer calls on a fresh action: result of each call and the
applied-rule ids after it (`done` = ids inserted so far, oldest first). -/
def observe (q : Req) (C : List Rule) (allowLogConfig : Bool) (c : Nat) :
    List RuleId → List Op → List (OpResult × List RuleId)
  | _, [] => []
  | done, op :: ops =>
    let done' := done ++ insertedBy q C c op
    let applied := dedupLast done'
    (resultOf q C allowLogConfig c applied op, applied) :: observe q C allowLogConfig c done' ops

/-- The same for a response code per call: the ids inserted so far come from calls with different codes. -/
def observeC (q : Req) (C : List Rule) (allowLogConfig : Bool) :
    List RuleId → List (Op × Nat) → List (OpResult × List RuleId)
  | _, [] => []
  | done, (op, c) :: ops =>
    let done' := done ++ insertedBy q C c op
    let applied := dedupLast done'
    (resultOf q C allowLogConfig c applied op, applied) :: observeC q C allowLogConfig done' ops

/-- An independent sort for the specification: stable insertion sort by `ruleLe`. -/
def insertRule (r : Rule) : List Rule → List Rule
  | [] => [r]
  | x :: xs => if ruleLe r x then r :: x :: xs else x :: insertRule r xs

def insertionSort (rs : List Rule) : List Rule := rs.foldr insertRule []

end Spec

/-! ## Part 3 — probe helpers for the correspondence (not subject to theorems)

`FilterBodyAction` restricted to text filters, one chunk then `end()`:
`filter/text_filter_body.rs`, `filter/filter_body.rs::{new, do_filter, do_end}`. -/

namespace Probe

structure TextItem where
  action : TextAction
  content : String
  executed : Bool
deriving Repr

/-- `TextFilterBodyAction::filter`. -/
def TextItem.filter (it : TextItem) (data : String) : TextItem × String :=
  match it.action with
  | .replace => if it.executed then (it, "") else ({ it with executed := true }, it.content)
  | .append => (it, data)
  | .prepend => if it.executed then (it, data) else ({ it with executed := true }, it.content ++ data)

/-- `TextFilterBodyAction::end`. -/
def TextItem.finish (it : TextItem) : TextItem × String :=
  if it.executed then (it, "") else ({ it with executed := true }, it.content)

/-- `FilterBodyAction::do_filter`: stages in order, `break` as soon as the data is empty. -/
def doFilter : List TextItem → String → List TextItem × String
  | [], data => ([], data)
  | it :: rest, data =>
    let r := it.filter data
    if r.2.isEmpty then (r.1 :: rest, r.2)
    else
      let r' := doFilter rest r.2
      (r.1 :: r'.1, r'.2)

/-- `FilterBodyAction::do_end`. -/
def doEnd : List TextItem → Option String → String
  | [], data => data.getD ""
  | it :: rest, data =>
    let newData :=
      match data with
      | none => it.finish.2
      | some s =>
        let r := it.filter s
        r.2 ++ r.1.finish.2
    doEnd rest (if newData.isEmpty then none else some newData)

/-- `FilterBodyAction::new(filters, headers)` for a response whose content type is *not* `text/html`
(HTML filters are dropped) and that carries no content encoding; `none` = `is_empty()`. -/
def chainOf (filters : List BodyFilter) : List TextItem :=
  filters.filterMap fun f =>
    match f with
    | .text t => some ⟨t.action, t.content, false⟩
    | .html _ => none

/-- `filter(body)` followed by `end()`. -/
def runChain (chain : List TextItem) (body : String) : String :=
  let r := doFilter chain body
  r.2 ++ doEnd r.1 none

end Probe

end Rio.Action
