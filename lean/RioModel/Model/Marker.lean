/-
Model of `src/marker/mod.rs` on `List Char` (C10).

Part 1 — the code: `strReplace` (`str::replace`), `containsSub` (`str::contains`), `escape`
(`regex::escape`), `sortByLen` / `sortVars` (the two `sort_by` calls: stable, UTF-8 byte length,
descending), `MarkerString.new` (sequential guarded replace into the matching and the capturing regex),
`replaceVars` (`StaticOrDynamic::replace`, one pass; `replaceSeq` = the sequential code before repair 9f65cbb).

Part 2 — the specification view: a template is *parsed once*, left to right, into items (`lit c`, a stray
`@`, `ref name` = `@name` for the LONGEST known name that is a prefix of what follows the `@`); simultaneous
substitution `subst` fills every reference with the value of its name; `tokens` is the same view of a source
template (literal chars and marker groups).  Props/C10 proves that the sequential code of part 1 computes the
simultaneous view of part 2 under stated hypotheses (and exhibits the inputs where it does not).
-/
import RioModel.Generated.Consts

namespace Rio.Marker

abbrev Str := List Char

/-! ### Part 1: the code -/

/-- `str::len()`: UTF-8 byte length. -/
def blen : Str → Nat
  | [] => 0
  | c :: cs => c.utf8Size + blen cs

/-- `haystack.starts_with(p)` -/
def pre (p s : Str) : Bool := p.isPrefixOf s

/-- Scanner of `str::replace(p :: ps, w)`: `skip` chars of a matched occurrence are still to be passed over.
(Structural recursion with a skip counter so that the kernel can evaluate it.) -/
def replaceAux (p : Char) (ps w : Str) : Nat → Str → Str
  | _, [] => []
  | skip + 1, _ :: cs => replaceAux p ps w skip cs
  | 0, c :: cs =>
    if c = p ∧ pre ps cs = true then w ++ replaceAux p ps w ps.length cs
    else c :: replaceAux p ps w 0 cs

/-- `str::replace(p :: ps, w)` for the non-empty pattern `p :: ps`: leftmost non-overlapping occurrences. -/
def replaceAll1 (p : Char) (ps w : Str) (s : Str) : Str := replaceAux p ps w 0 s

/-- `str::replace(pat, w)`; the empty pattern matches at every char boundary. -/
def strReplace (pat w s : Str) : Str :=
  match pat with
  | [] => w ++ s.flatMap (fun c => c :: w)
  | p :: ps => replaceAll1 p ps w s

/-- `str::replacen(p :: ps, w, 1)`: the leftmost occurrence only. -/
def replaceFirst1 (p : Char) (ps w : Str) : Str → Str
  | [] => []
  | c :: cs =>
    if c = p ∧ pre ps cs = true then w ++ cs.drop ps.length
    else c :: replaceFirst1 p ps w cs

/-- `str::replacen(pat, w, 1)` -/
def strReplaceFirst (pat w s : Str) : Str :=
  match pat with
  | [] => w ++ s
  | p :: ps => replaceFirst1 p ps w s

/-- `str::contains(p :: ps)` -/
def containsSub1 (p : Char) (ps : Str) : Str → Bool
  | [] => false
  | c :: cs => (decide (c = p) && pre ps cs) || containsSub1 p ps cs

/-- `str::contains(pat)` -/
def containsSub (pat s : Str) : Bool :=
  match pat with
  | [] => true
  | p :: ps => containsSub1 p ps s

/-- `regex_syntax::is_meta_character` -/
def isMeta (c : Char) : Bool :=
  c = '\\' || c = '.' || c = '+' || c = '*' || c = '?' || c = '(' || c = ')' || c = '|' ||
  c = '[' || c = ']' || c = '{' || c = '}' || c = '^' || c = '$' || c = '#' || c = '&' ||
  c = '-' || c = '~'

/-- `regex::escape` on one char -/
def escChar (c : Char) : Str := if isMeta c then ['\\', c] else [c]

/-- `regex::escape` -/
def escape (s : Str) : Str := s.flatMap escChar

/-- Stable insertion for a strict "comes before" test on names: `x` (which precedes all of `l` in the original
order) goes in front of the first element that does not come strictly before it. -/
def insertBy {β : Type} (before : Str → Str → Bool) (x : Str × β) : List (Str × β) → List (Str × β)
  | [] => [x]
  | y :: ys => if before y.1 x.1 then y :: insertBy before x ys else x :: y :: ys

/-- `slice::sort_by` (stable) for the comparator whose `Less` is `before`. -/
def sortBy {β : Type} (before : Str → Str → Bool) : List (Str × β) → List (Str × β)
  | [] => []
  | x :: xs => insertBy before x (sortBy before xs)

/-- `b.name.len().cmp(&a.name.len()) == Less`: `a` is strictly longer (UTF-8 bytes). -/
def lenBefore (a b : Str) : Bool := decide (blen b < blen a)

/-- `markers.sort_by(|a, b| b.name.len().cmp(&a.name.len()))` in `MarkerString::new`. -/
def sortByLen {β : Type} (l : List (Str × β)) : List (Str × β) := sortBy lenBefore l

/-- `String::cmp == Less`: lexicographic on the UTF-8 bytes = lexicographic on the code points. -/
def strLt : Str → Str → Bool
  | [], [] => false
  | [], _ :: _ => true
  | _ :: _, [] => false
  | a :: as, b :: bs => decide (a.toNat < b.toNat) || (decide (a = b) && strLt as bs)

/-- `key_b.len().cmp(&key_a.len()).then_with(|| key_a.cmp(key_b)) == Less`: longer first, equal lengths by name
ascending (repair 96f3afa of the HashMap-order finding). -/
def varBefore (a b : Str) : Bool := decide (blen b < blen a) || (decide (blen a = blen b) && strLt a b)

/-- The final sort of `Rule::variables`. -/
def sortVars {β : Type} (l : List (Str × β)) : List (Str × β) := sortBy varBefore l

/-- `marker.format()` -/
def fmt (name : Str) : Str := '@' :: name

/-- `format!("(?:{})", re)` — the pieces of the format string are regenerated from the source
(tools/consts.d/marker.py). -/
def groupRegex (re : Str) : Str :=
  Rio.Consts.markerGroupRegexFormat.1.toList ++ re ++ Rio.Consts.markerGroupRegexFormat.2.toList
/-- `format!("(?P<{}>{})", name, re)` -/
def groupCapture (name re : Str) : Str :=
  Rio.Consts.markerGroupCaptureFormat.1.toList ++ name ++ Rio.Consts.markerGroupCaptureFormat.2.1.toList ++ re ++
    Rio.Consts.markerGroupCaptureFormat.2.2.toList

structure Build where
  regex : Str
  capture : Str
  /-- keys inserted into `marker_map`, in insertion order -/
  used : List Str
deriving Repr, DecidableEq

/-- Body of the `for marker in &markers` loop of `MarkerString::new`. -/
def buildStep (b : Build) (m : Str × Str) : Build :=
  if containsSub (fmt m.1) b.regex then
    { regex := strReplace (fmt m.1) (groupRegex m.2) b.regex
      -- a group name can be declared only once: the first occurrence captures, the next ones only match
      capture := strReplace (fmt m.1) (groupRegex m.2) (strReplaceFirst (fmt m.1) (groupCapture m.1 m.2) b.capture)
      used := b.used ++ [m.1] }
  else b

/-- `MarkerString::new` up to the emptiness test; `markers` are `(name, regex)` pairs. -/
def build (t : Str) (markers : List (Str × Str)) : Build :=
  (sortByLen markers).foldl buildStep ⟨escape t, escape t, []⟩

structure MarkerString where
  regex : Str
  capture : Str
  ignoreCase : Bool
deriving Repr, DecidableEq

/-- `MarkerString::new` -/
def MarkerString.new (t : Str) (markers : List (Str × Str)) (ic : Bool) : Option MarkerString :=
  let b := build t markers
  if b.used.isEmpty then none else some ⟨b.regex, b.capture, ic⟩

inductive StaticOrDynamic where
  | static (s : Str)
  | dynamic (m : MarkerString)
deriving Repr, DecidableEq

/-- `StaticOrDynamic::new_with_markers`; `lower` = `str::to_lowercase`. -/
def StaticOrDynamic.newWithMarkers (lower : Str → Str) (t : Str) (markers : List (Str × Str)) (ic : Bool) :
    StaticOrDynamic :=
  if markers.isEmpty then .static (if ic then lower t else t)
  else match MarkerString.new t markers ic with
    | none => .static (if ic then lower t else t)
    | some m => .dynamic m

/-- `StaticOrDynamic::replace` BEFORE repair 9f65cbb: sequential textual replace of `@name` by the value, in list
order (kept for the record: Props/C10 states what it computed and what the repair fixed). -/
def replaceSeq (t : Str) (vars : List (Str × Str)) : Str :=
  vars.foldl (fun s v => strReplace (fmt v.1) v.2 s) t

/-- `for (name, value) in variables { if after.starts_with(name) { … } }`: the first entry, in list order, whose
name is a prefix of the text after the `@`. -/
def firstMatch : List (Str × Str) → Str → Option (Str × Str)
  | [], _ => none
  | p :: rest, s => if pre p.1 s then some p else firstMatch rest s

/-- Scanner of `StaticOrDynamic::replace` (`skip` chars of a recognised name are still to be passed over):
text is copied; at an `@`, the first variable whose name follows gives its value and the name is skipped; if no
name fits the `@` is copied. -/
def scanAux (vars : List (Str × Str)) : Nat → Str → Str
  | _, [] => []
  | skip + 1, _ :: cs => scanAux vars skip cs
  | 0, c :: cs =>
    if c = '@' then
      match firstMatch vars cs with
      | some p => p.2 ++ scanAux vars p.1.length cs
      | none => '@' :: scanAux vars 0 cs
    else c :: scanAux vars 0 cs

/-- `StaticOrDynamic::replace` (repair 9f65cbb): ONE pass over the template; a substituted value is never scanned
again. -/
def replaceVars (t : Str) (vars : List (Str × Str)) : Str := scanAux vars 0 t

/-! ### Part 2: the simultaneous view -/

inductive Item where
  /-- a char of the template other than `@` -/
  | lit (c : Char)
  /-- inserted text -/
  | txt (s : Str)
  /-- an `@` that starts no reference -/
  | stray
  /-- `@name` -/
  | ref (n : Str)
deriving Repr, DecidableEq

def Item.render (esc : Char → Str) : Item → Str
  | .lit c => esc c
  | .txt s => s
  | .stray => ['@']
  | .ref n => '@' :: n

def render (esc : Char → Str) (is : List Item) : Str := is.flatMap (Item.render esc)

/-- No escaping. -/
def idEsc (c : Char) : Str := [c]

/-- The longest (byte length) name that is a prefix of `s` (two such names of equal length are equal). -/
def longest : List Str → Str → Option Str
  | [], _ => none
  | n :: ns, s =>
    match longest ns s with
    | some b => if pre n s && decide (blen b < blen n) then some n else some b
    | none => if pre n s then some n else none

/-- Scanner of `parse` (`skip` chars of a recognised name are still to be passed over). -/
def parseAux (names : List Str) : Nat → Str → List Item
  | _, [] => []
  | skip + 1, _ :: cs => parseAux names skip cs
  | 0, c :: cs =>
    if c = '@' then
      match longest names cs with
      | some n => .ref n :: parseAux names n.length cs
      | none => .stray :: parseAux names 0 cs
    else .lit c :: parseAux names 0 cs

/-- One left-to-right pass: at an `@`, the longest known name that follows is a reference. -/
def parse (names : List Str) (t : Str) : List Item := parseAux names 0 t

/-- Fill the references whose name has a value (the first entry of that name). -/
def fill (vs : List (Str × Str)) : Item → Item
  | .ref n => match vs.lookup n with
    | some w => .txt w
    | none => .ref n
  | i => i

def names {β : Type} (vs : List (Str × β)) : List Str := vs.map (·.1)

/-- **Simultaneous longest-match substitution**: every `@name` (longest known name) is replaced by the
value of that name; everything else is copied. -/
def subst (vs : List (Str × Str)) (t : Str) : Str :=
  render idEsc ((parse (names vs) t).map (fill vs))

/-! Hypotheses of the substitution theorem, as executable tests. -/

def noAt (s : Str) : Bool := !s.contains '@'

/-- No name contains `@`. -/
def namesNoAt {β : Type} (vs : List (Str × β)) : Bool := vs.all fun v => noAt v.1
/-- No value contains `@` (a value containing `@shorter` would be substituted again). -/
def valuesNoAt (vs : List (Str × Str)) : Bool := vs.all fun v => noAt v.2

/-- `m` extends `n` properly. -/
def properExt (n m : Str) : Bool := pre n m && (n != m)

/-- After the simultaneous substitution nothing reads as a *longer* reference: for a reference `@n`
followed by the substituted rest `r`, no known name `m` properly extending `n` is a prefix of `n ++ r`; for a
stray `@` followed by `r`, no known name is a prefix of `r`.  (`esc` renders the literal chars.) -/
def noJoinItems (esc : Char → Str) (vs : List (Str × Str)) : List Item → Bool
  | [] => true
  | .ref n :: post =>
    (names vs).all (fun m => !(properExt n m && pre m (n ++ render esc (post.map (fill vs))))) &&
      noJoinItems esc vs post
  | .stray :: post =>
    (names vs).all (fun m => !(pre m (render esc (post.map (fill vs))))) && noJoinItems esc vs post
  | _ :: post => noJoinItems esc vs post

def noJoin (vs : List (Str × Str)) (t : Str) : Bool := noJoinItems idEsc vs (parse (names vs) t)

/-- Every `@` of the template starts a reference to a known name. -/
def noStrayAt {β : Type} (vs : List (Str × β)) (t : Str) : Bool := !(parse (names vs) t).contains .stray

/-! ### Tokens of a source template (path / host / header value with markers) -/

inductive Tok where
  | lit (c : Char)
  | grp (name re : Str)
deriving Repr, DecidableEq

def tokOf (ms : List (Str × Str)) : Item → Tok
  | .lit c => .lit c
  | .txt _ => .lit '@'          -- not produced by `parse`
  | .stray => .lit '@'
  | .ref n => match ms.lookup n with
    | some re => .grp n re
    | none => .lit '@'          -- not produced by `parse` (a reference is to a known name)

/-- The token view of template `t` with markers `ms` (`(name, regex)` pairs). -/
def tokens (t : Str) (ms : List (Str × Str)) : List Tok := (parse (names ms) t).map (tokOf ms)

def Tok.regex : Tok → Str
  | .lit c => escChar c
  | .grp _ re => groupRegex re

/-- The matching regex of a token list: escaped literals, `(?:re)` groups. -/
def renderRegex (ts : List Tok) : Str := ts.flatMap Tok.regex

/-- The capturing regex of a token list, `seen` = names already declared: escaped literals, `(?P<name>re)` for
the FIRST group of a name, `(?:re)` for the following ones. -/
def renderCaptureAux : List Str → List Tok → Str
  | _, [] => []
  | seen, .lit c :: ts => escChar c ++ renderCaptureAux seen ts
  | seen, .grp n re :: ts =>
    if n ∈ seen then groupRegex re ++ renderCaptureAux seen ts
    else groupCapture n re ++ renderCaptureAux (n :: seen) ts

def renderCapture (ts : List Tok) : Str := renderCaptureAux [] ts

/-- Marker names are plain: no regex meta character and no `@` (so escaping leaves `@name` intact). -/
def plainName (n : Str) : Bool := n.all fun c => !isMeta c && c != '@'
def namesPlain {β : Type} (ms : List (Str × β)) : Bool := ms.all fun m => plainName m.1
/-- No marker expression contains `@` (it would be searched again by the later, shorter markers). -/
def regexNoAt (ms : List (Str × Str)) : Bool := ms.all fun m => noAt m.2

end Rio.Marker
