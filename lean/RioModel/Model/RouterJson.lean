/-
Router model, part 5 (drivers only): JSON case format shared by the drivers of C01, C02 and C17.

  cfg  : {"ihc":bool, "ihdc":bool, "ipc":bool, "any":bool}
  rule : {"id":str, "rank":nat, "scheme":str?, "host":str?, "markers":"ds", "ips":[cidr]?,
          "methods":[str]?, "exclude":bool?, "headers":[{"name","kind","value"?}],
          "datetime":[[bound,bound]]?, "time":[[bound,bound]]?, "weekdays":[nat | null]?, "path":str}
  cidr : {"neg":bool, "ip":[4 bytes | 8 groups], "bits":nat}
  bound: null | nat | {"t":nat, "ns":nat?, …presentation…} | {"bad":text}
  req  : {"scheme":str?, "host":str?, "method":str?, "headers":[[name,value]], "ip":[..]?,
          "at":nat?, "path":str}
A description the driver cannot parse is an error (never a default value).

What the rule TEXTS look like is the harness's business (harness/src/router_gen.rs renders them); the model
receives what the texts MEAN, and the few places where `api/rule.rs` silently drops a text are mirrored here:
  * `datetime` bounds are UTC instants in epoch seconds — the harness writes them with any UTC offset
    (`"off"` minutes, `"z"`), the model never sees the offset; `time` bounds are seconds since midnight (written
    `HH:MM:SS` or `HH:MM`).  A bound with a sub-second fraction (`"ns" > 0`) is, for the whole-second instants
    requests carry here, the next whole second (`x ≥ t + f ⇔ x ≥ t + 1`, `x < t + f ⇔ x < t + 1` for
    integers `x`, `0 < f < 1`).  An unparsable bound text (`{"bad":…}`) is NO bound
    (`RouteDateTime::from_range` / `RouteTime::from_range` log and leave `None`).
  * a `cidr` whose prefix is longer than the address or whose host part is not zero is not a network for the
    `cidr` crate: `Rule::route_ips` drops it, and a rule whose ranges are all dropped has no ip trigger.
  * a week day the `chrono` parser rejects (`null` here) is dropped by `RouteWeekday::from_weekdays`; no day
    left = no week-day trigger.
-/
import Lean.Data.Json
import RioModel.Model.RouterParse

open Lean

namespace Rio.Router.J

def opt? {α : Type} (j : Json) (k : String) (f : Json → Except String α) : Except String (Option α) :=
  match j.getObjVal? k with
  | .error _ => .ok none
  | .ok .null => .ok none
  | .ok v => (f v).map some

def str (j : Json) : Except String String := j.getStr?
def nat (j : Json) : Except String Nat := j.getNat?
def bool (j : Json) : Except String Bool := j.getBool?
def arr {α : Type} (f : Json → Except String α) (j : Json) : Except String (List α) := do
  let a ← j.getArr?
  a.toList.mapM f

def field {α : Type} (j : Json) (k : String) (f : Json → Except String α) : Except String α := do
  f (← j.getObjVal? k)

def cfg (j : Json) : Except String Cfg := do
  return ⟨← field j "ihc" bool, ← field j "ihdc" bool, ← field j "ipc" bool, ← field j "any" bool⟩

/-- 4 bytes (v4) or 8 sixteen-bit groups (v6), most significant first. -/
def ip (j : Json) : Except String Ip := do
  let gs ← arr nat j
  if gs.length == 4 then
    if gs.all (· < 256) then return ⟨false, gs.foldl (fun a g => a * 256 + g) 0⟩
    else throw "ip: byte out of range"
  else if gs.length == 8 then
    if gs.all (· < 65536) then return ⟨true, gs.foldl (fun a g => a * 65536 + g) 0⟩
    else throw "ip: group out of range"
  else throw "ip: expected 4 or 8 numbers"

/-- `range.parse::<AnyIpCidr>()` on the text `"<ip>/<bits>"`: `none` = parse error (prefix longer than the
address, or host part not zero) — the constraint is then dropped by `Rule::route_ips`. -/
def cidrOf (a : Ip) (bits : Nat) : Option Cidr :=
  let w := if a.v6 then 128 else 32
  if bits > w then none
  else if a.val % 2 ^ (w - bits) != 0 then none
  else some ⟨a.v6, a.val, bits⟩

def routeIp? (j : Json) : Except String (Option RouteIp) := do
  let a ← field j "ip" ip
  let bits ← field j "bits" nat
  let neg ← field j "neg" bool
  return (cidrOf a bits).map fun c => if neg then .notInRange c else .inRange c

/-- `Rule::route_ips`: the ranges that parse, in order. -/
def routeIps (j : Json) : Except String (List RouteIp) := do
  return (← arr routeIp? j).filterMap id

/-- One bound of a date / time-of-day window (see the head of this file). -/
def bound (x : Json) : Except String (Option Nat) :=
  match x with
  | .null => .ok none
  | .obj _ =>
    match x.getObjVal? "bad" with
    | .ok _ => .ok none
    | .error _ => do
      let t ← field x "t" nat
      let ns ← opt? x "ns" nat
      return some (if ns.getD 0 > 0 then t + 1 else t)
  | v => v.getNat?.map some

def drange (j : Json) : Except String DRange := do
  let a ← j.getArr?
  if a.size != 2 then throw "range: expected [start, end]"
  return ⟨← bound a[0]!, ← bound a[1]!⟩

/-- a week day (0 = Monday), or `null` for a text the `chrono` parser rejects -/
def weekday? (j : Json) : Except String (Option Nat) :=
  match j with
  | .null => .ok none
  | v => do
    let n ← v.getNat?
    if n < 7 then return some n else throw "weekday out of range"

def headerDesc (j : Json) : Except String HeaderDesc := do
  return ⟨← field j "name" str, ← field j "kind" str, ← opt? j "value" str⟩

def rule (j : Json) : Except String RuleDesc := do
  let markers ← opt? j "markers" str
  let wds := (← opt? j "weekdays" (arr weekday?)).map (List.filterMap id)
  return {
    id := ← field j "id" str
    rank := ← field j "rank" nat
    scheme := ← opt? j "scheme" str
    host := ← opt? j "host" str
    markers := (markers.getD "").toList
    ips := ← opt? j "ips" routeIps
    methods := ← opt? j "methods" (arr str)
    exclude := ← opt? j "exclude" bool
    headers := (← opt? j "headers" (arr headerDesc)).getD []
    datetime := ← opt? j "datetime" (arr drange)
    time := ← opt? j "time" (arr drange)
    weekdays := wds
    path := ← field j "path" str }

def header (j : Json) : Except String (String × String) := do
  let a ← j.getArr?
  if a.size != 2 then throw "header: expected [name, value]"
  return (← a[0]!.getStr?, ← a[1]!.getStr?)

def req (j : Json) : Except String ReqDesc := do
  return {
    scheme := ← opt? j "scheme" str
    host := ← opt? j "host" str
    method := ← opt? j "method" str
    headers := (← opt? j "headers" (arr header)).getD []
    ip := ← opt? j "ip" ip
    createdAt := ← opt? j "at" nat
    path := ← field j "path" str }

def ids (l : List String) : Json := Json.arr (l.map toJson).toArray

end Rio.Router.J
