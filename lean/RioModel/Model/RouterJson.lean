/-
Router model, part 5 (drivers only): JSON case format shared by the drivers of C01, C02 and C17.

  cfg  : {"ihc":bool, "ihdc":bool, "ipc":bool, "any":bool}
  rule : {"id":str, "rank":nat, "scheme":str?, "host":str?, "markers":"ds", "ips":[cidr]?,
          "methods":[str]?, "exclude":bool?, "headers":[{"name","kind","value"?}],
          "datetime":[[nat?,nat?]]?, "time":[[nat?,nat?]]?, "weekdays":[nat]?, "path":str}
  cidr : {"neg":bool, "ip":[4 bytes | 8 groups], "bits":nat}
  req  : {"scheme":str?, "host":str?, "method":str?, "headers":[[name,value]], "ip":[..]?,
          "at":nat?, "path":str}
A description the driver cannot parse is an error (never a default value).
-/
import Lean.Data.Json
import RioModel.Model.RouterParse

open Lean

namespace Rio.Router.J

def opt? {α : Type} (j : Json) (k : String) (f : Json → Except String α) : Except String (Option α) :=
  match j.getObjVal? k with
  | .error _ => .ok none
  | .ok .null => .ok none
  | .ok v => (f v).map some

def str (j : Json) : Except String String := j.getStr?
def nat (j : Json) : Except String Nat := j.getNat?
def bool (j : Json) : Except String Bool := j.getBool?
def arr {α : Type} (f : Json → Except String α) (j : Json) : Except String (List α) := do
  let a ← j.getArr?
  a.toList.mapM f

def field {α : Type} (j : Json) (k : String) (f : Json → Except String α) : Except String α := do
  f (← j.getObjVal? k)

def cfg (j : Json) : Except String Cfg := do
  return ⟨← field j "ihc" bool, ← field j "ihdc" bool, ← field j "ipc" bool, ← field j "any" bool⟩

/-- 4 bytes (v4) or 8 sixteen-bit groups (v6), most significant first. -/
def ip (j : Json) : Except String Ip := do
  let gs ← arr nat j
  if gs.length == 4 then
    if gs.all (· < 256) then return ⟨false, gs.foldl (fun a g => a * 256 + g) 0⟩
    else throw "ip: byte out of range"
  else if gs.length == 8 then
    if gs.all (· < 65536) then return ⟨true, gs.foldl (fun a g => a * 65536 + g) 0⟩
    else throw "ip: group out of range"
  else throw "ip: expected 4 or 8 numbers"

def routeIp (j : Json) : Except String RouteIp := do
  let a ← field j "ip" ip
  let bits ← field j "bits" nat
  let neg ← field j "neg" bool
  let w := if a.v6 then 128 else 32
  if bits > w then throw "cidr: prefix too long"
  if a.val % 2 ^ (w - bits) != 0 then throw "cidr: host part not zero"
  let c : Cidr := ⟨a.v6, a.val, bits⟩
  return if neg then .notInRange c else .inRange c

def drange (j : Json) : Except String DRange := do
  let a ← j.getArr?
  if a.size != 2 then throw "range: expected [start, end]"
  let get (x : Json) : Except String (Option Nat) :=
    match x with
    | .null => .ok none
    | v => v.getNat?.map some
  return ⟨← get a[0]!, ← get a[1]!⟩

def headerDesc (j : Json) : Except String HeaderDesc := do
  return ⟨← field j "name" str, ← field j "kind" str, ← opt? j "value" str⟩

def rule (j : Json) : Except String RuleDesc := do
  let markers ← opt? j "markers" str
  let wds ← opt? j "weekdays" (arr nat)
  match wds with
  | some ws => if !ws.all (· < 7) then throw "weekday out of range"
  | none => pure ()
  return {
    id := ← field j "id" str
    rank := ← field j "rank" nat
    scheme := ← opt? j "scheme" str
    host := ← opt? j "host" str
    markers := (markers.getD "").toList
    ips := ← opt? j "ips" (arr routeIp)
    methods := ← opt? j "methods" (arr str)
    exclude := ← opt? j "exclude" bool
    headers := (← opt? j "headers" (arr headerDesc)).getD []
    datetime := ← opt? j "datetime" (arr drange)
    time := ← opt? j "time" (arr drange)
    weekdays := wds
    path := ← field j "path" str }

def header (j : Json) : Except String (String × String) := do
  let a ← j.getArr?
  if a.size != 2 then throw "header: expected [name, value]"
  return (← a[0]!.getStr?, ← a[1]!.getStr?)

def req (j : Json) : Except String ReqDesc := do
  return {
    scheme := ← opt? j "scheme" str
    host := ← opt? j "host" str
    method := ← opt? j "method" str
    headers := (← opt? j "headers" (arr header)).getD []
    ip := ← opt? j "ip" ip
    createdAt := ← opt? j "at" nat
    path := ← field j "path" str }

def ids (l : List String) : Json := Json.arr (l.map toJson).toArray

end Rio.Router.J
