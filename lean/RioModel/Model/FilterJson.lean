/-
JSON side of the body-filter drivers (C03, C04, C14, C15): parsing of the shared case format of
`harness/src/filter_gen.rs` into the model's types.  No model logic here.
-/
import Lean.Data.Json
import RioModel.Model.FilterHtml
open Lean

namespace Rio.Filter.J

def hexVal (c : Char) : Option Nat :=
  if '0' ≤ c ∧ c ≤ '9' then some (c.toNat - '0'.toNat)
  else if 'a' ≤ c ∧ c ≤ 'f' then some (c.toNat - 'a'.toNat + 10)
  else if 'A' ≤ c ∧ c ≤ 'F' then some (c.toNat - 'A'.toNat + 10)
  else none

def unhex (s : String) : Except String Bytes :=
  let rec go : List Char → List Nat → Except String (List Nat)
    | [], acc => .ok acc.reverse
    | [_], _ => .error "odd hex length"
    | a :: b :: rest, acc =>
      match hexVal a, hexVal b with
      | some x, some y => go rest ((x * 16 + y) :: acc)
      | _, _ => .error "bad hex digit"
  go s.toList []

def hexDigit (n : Nat) : Char :=
  if n < 10 then Char.ofNat (n + '0'.toNat) else Char.ofNat (n - 10 + 'a'.toNat)

def hex (bs : Bytes) : String :=
  String.ofList (bs.flatMap fun b => [hexDigit (b / 16), hexDigit (b % 16)])

def str? (j : Json) (k : String) : Except String String := j.getObjValAs? String k
def arr? (j : Json) (k : String) : Except String (Array Json) := j.getObjValAs? (Array Json) k

def optStr? (j : Json) (k : String) : Except String (Option String) :=
  match j.getObjVal? k with
  | .error _ => .ok none
  | .ok .null => .ok none
  | .ok v => (fromJson? v : Except String String).map some

def textAction? (s : String) : Except String TextAction :=
  if s = Rio.Consts.filterTextAppend then .ok .append
  else if s = Rio.Consts.filterTextPrepend then .ok .prepend
  else if s = Rio.Consts.filterTextReplace then .ok .replace
  else .error s!"text action {s}"

def filter? (j : Json) : Except String BodyFilter := do
  let k ← str? j "k"
  if k = "html" then
    let action ← str? j "action"
    let path ← (← arr? j "path").toList.mapM fun p => (fromJson? p : Except String String)
    let sel ← optStr? j "sel"
    let value ← str? j "value"
    return .html action (path.map utf8Bytes) (sel.map utf8Bytes) (utf8Bytes value)
  else if k = "text" then
    let a ← textAction? (← str? j "action")
    return .text a (utf8Bytes (← str? j "content"))
  else throw s!"filter kind {k}"

def filters? (j : Json) : Except String (List BodyFilter) := do
  (← arr? j "filters").toList.mapM filter?

def headers? (j : Json) : Except String (List (String × String)) :=
  match j.getObjVal? "headers" with
  | .error _ => .ok []
  | .ok .null => .ok []
  | .ok v => do
    let a ← (fromJson? v : Except String (Array Json))
    a.toList.mapM fun h => do
      let p ← (fromJson? h : Except String (Array String))
      if p.size = 2 then return (p[0]!, p[1]!) else throw "header pair"

def cuts? (j : Json) : Except String (List Nat) := do
  let a ← (fromJson? j : Except String (Array Nat))
  return a.toList

def scheds? (j : Json) (len : Nat) : Except String (List (List Nat)) := do
  let ss ← (← arr? j "scheds").toList.mapM cuts?
  for s in ss do
    let mut last := 0
    for c in s do
      if c < last || c > len then throw "scheds"
      last := c
  return ss

/-- `str::to_lowercase` on the (ASCII) header names and values the harnesses generate -/
def lower (s : String) : String := s.toLower

def kindsJson {D E : Type} (c : Chain D E) : Json :=
  Json.arr (c.items.map fun st => toJson st.kind).toArray

def optNatJson : Option Nat → Json
  | none => Json.null
  | some n => toJson n

end Rio.Filter.J
