/-
Router model, part 7: the two regex-tree layers over the REAL tree model (Model/Tree.lean, property
C08) instead of its specification, and the tower / router built from them.

  `PathT`  = `PathAndQueryMatcher` with `regex_tree_rule : RegexTreeMap<Arc<Route>>` = `Item String Route`
  `HostT`  = `HostMatcher` with `regex_tree_rule : UniqueRegexTreeMap<IpMatcher>` = `Item (List Char) I.M`
             (the id of a value is its pattern), `static_hosts` a separate association list

The other five layers are the ones of RouterLayers.lean.  Tree keys are regex *strings*: `TEnv.render`
is `MarkerString.regex` of a pattern; the engine is W1's `Engine` record.  `TEnv.env` is the
specification-level environment this induces (`find` of a leaf = `^pattern$` under the tree's case
flag), so that the flat specification `sat (T.env)` is the same predicate as for the
specification-level tower.  Proofs/RouterTree*.lean prove the layer laws for these two layers from
the theorems of C08 and instantiate the tower; the statements of C01 / C02 / C17 then hold for
`RouterT` with the additional hypothesis that the marker patterns of inserted rules are in C08's domain.
-/
import RioModel.Model.RouterLayers
import RioModel.Model.Tree

namespace Rio.Router
open Rio.Regex

/-- Parameters of the tower over the real regex-tree model. -/
structure TEnv where
  alwaysAnyHost : Bool
  engine : Engine
  /-- `MarkerString.regex`: the regex string of a pattern – the key under which it is stored -/
  render : Pat → List Char
  /-- `config.ignore_host_case` / `config.ignore_path_and_query_case`: the trees' `ignore_case` -/
  icHost : Bool
  icPath : Bool
  headerRegex : Pat → String → Bool
  lower : String → String

/-- The specification-level environment induced by the engine: a pattern matches iff its anchored
regex does under the tree's case flag. -/
def TEnv.env (T : TEnv) : Env where
  alwaysAnyHost := T.alwaysAnyHost
  hostFind := fun p h => T.engine.full T.icHost (T.render p) h.toList
  pathFind := fun p s => T.engine.full T.icPath (T.render p) s.toList
  headerRegex := T.headerRegex
  lower := T.lower

/-- `HostMatcher`'s view: keys are regex strings. -/
def TEnv.host (T : TEnv) : HostCfg (List Char) :=
  ⟨T.render, T.alwaysAnyHost, fun k h => T.engine.full T.icHost k h.toList⟩

/-! ## PathAndQueryMatcher over the real tree -/

structure PathTState where
  /-- `regex_tree_rule : RegexTreeMap<Arc<Route<T>>>` -/
  tree : Tree.Item String Route
  /-- `static_rules` (as in RouterLayers.lean: one association list keyed `(path, id)`) -/
  statics : List ((String × String) × Route)
  count : Nat

section
variable (T : TEnv)

/-- `PathAndQueryMatcher::new`: `RegexTreeMap::new(config.ignore_path_and_query_case)`. -/
def PathT.empty : PathTState := ⟨.empty T.icPath, [], 0⟩

/-- `PathAndQueryMatcher::insert`. -/
def PathT.insert (r : Route) (s : PathTState) : PathTState :=
  match r.path with
  | .static p =>
    { s with count := s.count + 1, statics := aupsert (fun _ => r) r (p, r.id) s.statics }
  | .dyn p =>
    { s with count := s.count + 1, tree := s.tree.insert (T.render p) r.id r }

/-- `PathAndQueryMatcher::remove`. -/
def PathT.remove (id : String) (s : PathTState) : PathTState × Option Route :=
  let t := s.tree.remove id
  match t.2 with
  | some r => ({ s with tree := t.1, count := s.count - 1 }, some r)
  | none =>
    let st := entryRemove id s.statics
    ({ s with statics := st.1, count := if st.2.isSome then s.count - 1 else s.count }, st.2)

/-- `PathAndQueryMatcher::batch_remove`: `regex_tree_rule.retain(&|id, _| !ids.contains(id))`. -/
def PathT.batchRemove (ids : List String) (s : PathTState) : PathTState :=
  { s with
    statics := s.statics.filter (fun e => !ids.contains e.1.2),
    tree := s.tree.retain (Tree.keepIf fun id _ => !ids.contains id) }

/-- `PathAndQueryMatcher::match_request`. -/
def PathT.matchReq (s : PathTState) (q : Req) : List Route :=
  s.tree.find T.engine q.path.toList ++
    (s.statics.filter (fun e => e.1.1 == q.path)).map Prod.snd

mutual
/-- `tree_trace_to_trace` of path_and_query.rs: children first, then – if the node lists values –
a `Storage` node holding them iff the node matched. -/
def pathTreeTrace : Tree.Trace Route → Trace
  | .mk _ count matched children values =>
    Trace.mk matched true count (.other "regex")
      (pathTreeTraceL children ++
        (if values.isEmpty then []
         else [Trace.mk matched true values.length (.storage (if matched then values else [])) []]))
def pathTreeTraceL : List (Tree.Trace Route) → List Trace
  | [] => []
  | t :: ts => pathTreeTrace t :: pathTreeTraceL ts
end

/-- `PathAndQueryMatcher::trace`. -/
def PathT.trace (s : PathTState) (q : Req) : List Trace :=
  let tr := pathTreeTrace (s.tree.trace T.engine q.path.toList)
  let treeT := Trace.mk tr.matched true tr.count (.other "path_and_query_regex") [tr]
  let found := (s.statics.filter (fun e => e.1.1 == q.path)).map Prod.snd
  let staticT : List Trace :=
    if found.isEmpty then [] else [Trace.mk true true found.length (.storage found) []]
  [treeT, Trace.mk (!staticT.isEmpty) true (staticKeyCount s.statics) (.other "path_and_query_static") staticT]

/-- `PathAndQueryMatcher::cache`: `self.regex_tree_rule.cache(limit, Some(level))`.  `treeCache`
returns `none` on a `u64` underflow of the budget; it never does (`Rio.C12.cache_total`), the
fallback value is unreachable (`pathT_cache_ok`). -/
def PathT.cache (limit level : Nat) (s : PathTState) : PathTState × Nat :=
  match Tree.treeCache T.engine s.tree limit (some level) with
  | some r => ({ s with tree := r.1 }, r.2)
  | none => (s, limit)

def pathTOps : MOps where
  M := PathTState
  empty := PathT.empty T
  insert := PathT.insert T
  remove := PathT.remove
  batchRemove := PathT.batchRemove
  matchReq := PathT.matchReq T
  trace := PathT.trace T
  len := fun s => s.count
  cache := PathT.cache T

end

/-! ## HostMatcher over the real tree -/

structure HostTState (I : MOps) where
  /-- `static_hosts` -/
  statics : List (String × I.M)
  /-- `regex_tree_rule : UniqueRegexTreeMap<IpMatcher<T>>` -/
  tree : Tree.Item (List Char) I.M
  any : I.M
  count : Nat

section
variable (T : TEnv) (I : MOps)

/-- `HostMatcher::new`: `UniqueRegexTreeMap::new(config.ignore_host_case)`. -/
def HostT.empty : HostTState I := ⟨[], .empty T.icHost, I.empty, 0⟩

/-- `HostMatcher::insert`: `match regex_tree_rule.get_mut(regex) { Some(m) => m.insert(route),
None => { let mut m = IpMatcher::new(..); m.insert(route); regex_tree_rule.insert(regex, m) } }`. -/
def HostT.insert (r : Route) (s : HostTState I) : HostTState I :=
  match r.host with
  | none => { s with any := I.insert r s.any, count := s.count + 1 }
  | some (.static h) =>
    if h = "" then { s with any := I.insert r s.any, count := s.count + 1 }
    else { s with statics := aupsert (I.insert r) I.empty h s.statics, count := s.count + 1 }
  | some (.dyn p) =>
    let k := T.render p
    match Tree.uGet s.tree k with
    | some _ => { s with tree := s.tree.modifyAt k (fun _ m => I.insert r m), count := s.count + 1 }
    | none => { s with tree := Tree.uInsert s.tree k (I.insert r I.empty), count := s.count + 1 }

/-- The `retain` closure of `HostMatcher::remove` / `batch_remove` on one bucket: update it, drop it
when it became empty. -/
def pruneVal (g : I.M → I.M) (m : I.M) : Option I.M :=
  if I.isEmpty (g m) then none else some (g m)

/-- One visit of the closure: `if let Some(value) = matcher.remove(id) { *removed_in_tree = Some(value) }`. -/
def hitStep (id : String) (acc : Option Route) (m : I.M) : Option Route :=
  ((I.remove id m).2).orElse (fun _ => acc)

/-- `removed_in_tree`: the `RefCell` written by the closure for every bucket that held the route
(the last writer wins; the buckets are visited in tree order). -/
def lastHit (id : String) (ms : List I.M) : Option Route := ms.foldl (hitStep I id) none

/-- `HostMatcher::remove`. -/
def HostT.remove (id : String) (s : HostTState I) : HostTState I × Option Route :=
  let ra := I.remove id s.any
  if ra.2.isSome then ({ s with any := ra.1, count := s.count - 1 }, ra.2)
  else
    let rs := removeAll I id s.statics
    let inTree := lastHit I id (s.tree.contents.map (·.val))
    let tree' := s.tree.retain (fun _ m => pruneVal I (fun m => (I.remove id m).1) m)
    let removed := if rs.2.isSome then rs.2 else inTree
    ({ statics := rs.1, tree := tree', any := ra.1,
       count := if removed.isSome then s.count - 1 else s.count }, removed)

/-- `HostMatcher::batch_remove`. -/
def HostT.batchRemove (ids : List String) (s : HostTState I) : HostTState I :=
  { s with any := I.batchRemove ids s.any, statics := batchAll I ids s.statics,
           tree := s.tree.retain (fun _ m => pruneVal I (I.batchRemove ids) m) }

/-- The host-bound part of `HostMatcher::match_request`. -/
def HostT.matchBound (s : HostTState I) (q : Req) : List Route :=
  match q.host with
  | none => []
  | some h =>
    (s.tree.find T.engine h.toList).flatMap (fun m => I.matchReq m q) ++
      ((alookup h s.statics).map (fun b => I.matchReq b q)).getD []

/-- `HostMatcher::match_request`. -/
def HostT.matchReq (s : HostTState I) (q : Req) : List Route :=
  let routes := HostT.matchBound T I s q
  if T.alwaysAnyHost || routes.isEmpty then routes ++ I.matchReq s.any q else routes

mutual
/-- `tree_trace_to_trace` of host.rs: children first, then the traces of the node's buckets iff it
matched. -/
def hostTreeTrace (q : Req) : Tree.Trace I.M → Trace
  | .mk _ count matched children values =>
    Trace.mk matched true count (.other "regex")
      (hostTreeTraceL q children ++ (if matched then values.flatMap (fun m => I.trace m q) else []))
def hostTreeTraceL (q : Req) : List (Tree.Trace I.M) → List Trace
  | [] => []
  | t :: ts => hostTreeTrace q t :: hostTreeTraceL q ts
end

/-- `for (host, matcher) in &self.static_hosts` of `HostMatcher::trace`. -/
def HostT.staticNode (q : Req) (e : String × I.M) : Trace :=
  if q.host == some e.1
  then Trace.mk true true (I.len e.2) (.other "host_static") (I.trace e.2 q)
  else Trace.mk false false (I.len e.2) (.other "host_static") []

/-- The host-bound part of `HostMatcher::trace`. -/
def HostT.traceBound (s : HostTState I) (q : Req) : List Trace :=
  s.statics.map (HostT.staticNode I q) ++
    (match q.host with
     | none => []
     | some h =>
       let tr := hostTreeTrace I q (s.tree.trace T.engine h.toList)
       [Trace.mk tr.matched true tr.count (.other "host_regex") [tr]] ++
         (if (alookup h s.statics).isNone
          then [Trace.mk true false 0 (.other "host_static") []] else []))

/-- `HostMatcher::trace`. -/
def HostT.trace (s : HostTState I) (q : Req) : List Trace :=
  let traces := HostT.traceBound T I s q
  if T.alwaysAnyHost || (routesOfList traces).isEmpty then traces ++ I.trace s.any q else traces

/-- `HostMatcher::cache`: the tree's own regexes (`regex_tree_rule.cache(limit, Some(level))`), the
static buckets, the tree's buckets (`for matcher in regex_tree_rule.iter_mut()`: the budget is
threaded through the stored buckets in tree order – `Item.contents`, property C08
`iter_enumerates` – and every bucket is stored back under its id), then the any-host bucket. -/
def HostT.cache (limit level : Nat) (s : HostTState I) : HostTState I × Nat :=
  let rt := (Tree.treeCache T.engine s.tree limit (some level)).getD (s.tree, limit)
  let rs := cacheAll I level s.statics rt.2
  let rb := cacheAll I level (rt.1.contents.map (fun e => (e.id, e.val))) rs.2
  let tree' := rt.1.retain (fun id m => some ((alookup id rb.1).getD m))
  let ra := I.cache rb.2 level s.any
  ({ s with statics := rs.1, tree := tree', any := ra.1 }, ra.2)

def hostTOps : MOps where
  M := HostTState I
  empty := HostT.empty T I
  insert := HostT.insert T I
  remove := HostT.remove I
  batchRemove := HostT.batchRemove I
  matchReq := HostT.matchReq T I
  trace := HostT.trace T I
  len := fun s => s.count
  cache := HostT.cache T I

end

/-! ## The tower and the router over the real trees -/

section
variable (T : TEnv)

/-- `SchemeMatcher<T>` with both regex trees modelled as trees. -/
def towerTOps : MOps :=
  schemeOps (hostTOps T (ipOps (methodOps (headerOps T.env (dateTimeOps (pathTOps T))))))

/-- The router model over the real tree model. -/
abbrev RouterT := RouterG (towerTOps T)

end

end Rio.Router
