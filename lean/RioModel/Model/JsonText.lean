/-
The text level: a model of `serde_json`'s reader (src/read.rs, src/de.rs of serde_json 1.0.151)
turning a document into the value tree of Model/Json.lean, and `from_str::<T>` = read, then the
derived `Deserialize`.

What is transcribed:
* white space = space, `\n`, `\t`, `\r`; literals `null` / `true` / `false`;
* numbers: `-`? (`0` | `[1-9][0-9]*`) (`.` digits+)? ([eE] [+-]? digits+)? – a leading zero followed
  by a digit is an error; an integer literal is an integer (`num`) iff it fits `u64` (non-negative)
  or `i64` (negative, and not `-0`), otherwise – like everything with a fraction or an exponent –
  it is a float (`flt`, remembered by its source text);
* strings: raw characters ≥ U+0020 (DEL and all non-ASCII included), escapes `\" \\ \/ \b \f \n
  \r \t \uXXXX` (hex digits of either case), a `\uD800..DBFF` escape must be followed by a
  `\uDC00..DFFF` escape and the pair denotes one supplementary character.  An unpaired surrogate
  escape is an error wherever the string is *read* but is tolerated where the value is *skipped*
  (unknown field): the reader returns `Json.junk` for such a token, which no typed position
  accepts;
* arrays and objects with `,` separators, no trailing comma, keys must be strings; an object with
  a key that has an unpaired surrogate escape is itself junk (fine inside a skipped value, an
  error for every struct visitor); after the top-level value only white space may follow.

Not modelled: floats outside the range of `f64` (`1e999` is an error for serde_json where the
number is read, not where it is skipped) – the differential generator keeps exponents small;
the recursion limit (it is modelled where it matters, on the value level: `deBodyFilter`).

The recursive descent uses a fuel argument (structural recursion); `parseText` supplies enough
fuel for any input (`2 * length + 2`).
-/
import RioModel.Model.Json

namespace Rio.Json

def isWs (c : Char) : Bool := c == ' ' || c == '\n' || c == '\t' || c == '\r'

def skipWs : List Char → List Char
  | [] => []
  | c :: cs => if isWs c then skipWs cs else c :: cs

def isDigit (c : Char) : Bool := 48 ≤ c.toNat && c.toNat ≤ 57

def digitVal (c : Char) : Nat := c.toNat - 48

def hexVal (c : Char) : Option Nat :=
  if 48 ≤ c.toNat ∧ c.toNat ≤ 57 then some (c.toNat - 48)
  else if 97 ≤ c.toNat ∧ c.toNat ≤ 102 then some (c.toNat - 87)
  else if 65 ≤ c.toNat ∧ c.toNat ≤ 70 then some (c.toNat - 55)
  else none

/-- `decode_hex_escape`: exactly four hex digits. -/
def hex4 (a b c d : Char) : Option Nat :=
  match hexVal a, hexVal b, hexVal c, hexVal d with
  | some a, some b, some c, some d => some (((a * 16 + b) * 16 + c) * 16 + d)
  | _, _, _, _ => none

def isLowSurrogate (n : Nat) : Bool := 0xDC00 ≤ n && n ≤ 0xDFFF
def isHighSurrogate (n : Nat) : Bool := 0xD800 ≤ n && n ≤ 0xDBFF

/-- Body of a string after the opening quote (`parse_str_bytes` + `parse_escape` +
`parse_unicode_escape`), one token at a time.  `acc` holds the decoded characters in reverse;
`hi` is a pending leading surrogate (`\uD800..DBFF` just read) that only an immediately
following `\uDC00..DFFF` escape completes; `ok` turns false once a surrogate escape turned out to
be unpaired (an error when the string is read, fine when it is skipped).  Returns the decoded
string (`none` = junk) and the input after the closing quote; `none` = syntax error. -/
def parseStrBody : List Char → List Char → Bool → Option Nat → Option (Option String × List Char)
  | [], _, _, _ => none
  | c :: r, acc, ok, hi =>
    if c = '"' then some (if ok && hi.isNone then some (String.ofList acc.reverse) else none, r)
    else if c = '\\' then
      match r with
      | [] => none
      | e :: r1 =>
        if e = 'u' then
          match r1 with
          | a :: b :: c :: d :: r2 =>
            match hex4 a b c d with
            | none => none
            | some n =>
              match hi with
              | some n1 =>
                if isLowSurrogate n then
                  parseStrBody r2 (Char.ofNat (0x10000 + ((n1 - 0xD800) * 1024 + (n - 0xDC00))) :: acc) ok none
                else if isHighSurrogate n then parseStrBody r2 acc false (some n)
                else parseStrBody r2 acc false none
              | none =>
                if isLowSurrogate n then parseStrBody r2 acc false none
                else if isHighSurrogate n then parseStrBody r2 acc ok (some n)
                else parseStrBody r2 (Char.ofNat n :: acc) ok none
          | _ => none
        else if e = '"' then parseStrBody r1 ('"' :: acc) (ok && hi.isNone) none
        else if e = '\\' then parseStrBody r1 ('\\' :: acc) (ok && hi.isNone) none
        else if e = '/' then parseStrBody r1 ('/' :: acc) (ok && hi.isNone) none
        else if e = 'b' then parseStrBody r1 (Char.ofNat 8 :: acc) (ok && hi.isNone) none
        else if e = 'f' then parseStrBody r1 (Char.ofNat 12 :: acc) (ok && hi.isNone) none
        else if e = 'n' then parseStrBody r1 ('\n' :: acc) (ok && hi.isNone) none
        else if e = 'r' then parseStrBody r1 ('\r' :: acc) (ok && hi.isNone) none
        else if e = 't' then parseStrBody r1 ('\t' :: acc) (ok && hi.isNone) none
        else none
    else if c.toNat < 32 then none
    else parseStrBody r (c :: acc) (ok && hi.isNone) none
termination_by cs => cs.length
decreasing_by all_goals (simp_wf; try omega)

/-- maximal run of decimal digits -/
def takeDigits : List Char → List Char × List Char
  | [] => ([], [])
  | c :: cs =>
    if isDigit c then
      let r := takeDigits cs
      (c :: r.1, r.2)
    else ([], c :: cs)

def digitsToNat (ds : List Char) : Nat := ds.foldl (fun acc c => acc * 10 + digitVal c) 0

/-- `visit_u64` / `visit_i64` / `visit_f64`: which visitor method an integer literal reaches. -/
def classifyInt (neg : Bool) (ds : List Char) : Json :=
  let n := digitsToNat ds
  if neg then
    if n = 0 then .flt (String.ofList ('-' :: ds))
    else if n ≤ 9223372036854775808 then .num (-(n : Int))
    else .flt (String.ofList ('-' :: ds))
  else
    if n < 18446744073709551616 then .num (n : Int)
    else .flt (String.ofList ds)

/-- optional exponent; `pre` = source text so far, `isFloat` = a fraction was read -/
def parseExp (neg : Bool) (ids : List Char) (pre : List Char) (isFloat : Bool) (r : List Char) :
    Option (Json × List Char) :=
  match r with
  | [] => if isFloat then some (.flt (String.ofList pre), r) else some (classifyInt neg ids, r)
  | e :: r1 =>
    if e = 'e' ∨ e = 'E' then
      let sr : List Char × List Char :=
        match r1 with
        | [] => ([], r1)
        | s :: r2 => if s = '+' ∨ s = '-' then ([s], r2) else ([], r1)
      let er := takeDigits sr.2
      if er.1.isEmpty then none
      else some (.flt (String.ofList (pre ++ e :: sr.1 ++ er.1)), er.2)
    else if isFloat then some (.flt (String.ofList pre), r) else some (classifyInt neg ids, r)

/-- optional fraction -/
def parseFrac (neg : Bool) (ids : List Char) (pre : List Char) (r : List Char) :
    Option (Json × List Char) :=
  match r with
  | [] => parseExp neg ids pre false r
  | c :: r1 =>
    if c = '.' then
      let fr := takeDigits r1
      if fr.1.isEmpty then none else parseExp neg ids (pre ++ '.' :: fr.1) true fr.2
    else parseExp neg ids pre false r

/-- digits of the integer part: `0` alone (a following digit is the error "leading zero") or a
run starting with a non-zero digit -/
def parseUnsigned (neg : Bool) (sign : List Char) (cs : List Char) : Option (Json × List Char) :=
  match cs with
  | [] => none
  | c :: r =>
    if c = '0' then
      match r with
      | [] => parseFrac neg ['0'] (sign ++ ['0']) r
      | d :: _ => if isDigit d then none else parseFrac neg ['0'] (sign ++ ['0']) r
    else if isDigit c then
      let dr := takeDigits r
      parseFrac neg (c :: dr.1) (sign ++ c :: dr.1) dr.2
    else none

/-- `parse_any_number` on input starting with `-` or a digit. -/
def parseNumber (cs : List Char) : Option (Json × List Char) :=
  match cs with
  | [] => none
  | c :: r => if c = '-' then parseUnsigned true ['-'] r else parseUnsigned false [] (c :: r)

/-- `parse_ident`: the rest of a literal -/
def stripPrefix : List Char → List Char → Option (List Char)
  | [], cs => some cs
  | _ :: _, [] => none
  | p :: ps, c :: cs => if p = c then stripPrefix ps cs else none

/-- all keys readable? -/
def collectKeys : List (Option String × Json) → Option (List (String × Json))
  | [] => some []
  | (some k, v) :: r => (collectKeys r).map fun kvs => (k, v) :: kvs
  | (none, _) :: _ => none

/-- An object one of whose keys carries an unpaired surrogate escape can only be skipped: struct
visitors and the buffering of untagged enums read every key strictly. -/
def objOfMembers (ms : List (Option String × Json)) : Json :=
  match collectKeys ms with
  | some kvs => .obj kvs
  | none => .junk

mutual
/-- one value, leading white space allowed -/
def parseValue : Nat → List Char → Option (Json × List Char)
  | 0, _ => none
  | fuel + 1, cs =>
    match skipWs cs with
    | [] => none
    | c :: r =>
      if c = 'n' then (stripPrefix ['u', 'l', 'l'] r).map fun r' => (.null, r')
      else if c = 't' then (stripPrefix ['r', 'u', 'e'] r).map fun r' => (.bool true, r')
      else if c = 'f' then (stripPrefix ['a', 'l', 's', 'e'] r).map fun r' => (.bool false, r')
      else if c = '"' then
        match parseStrBody r [] true none with
        | some (some s, r') => some (.str s, r')
        | some (none, r') => some (.junk, r')
        | none => none
      else if c = '[' then
        match skipWs r with
        | [] => none
        | c2 :: r' =>
          if c2 = ']' then some (.arr [], r')
          else
            match parseValue fuel r with
            | some (v, r1) =>
              match parseElems fuel r1 with
              | some (vs, r2) => some (.arr (v :: vs), r2)
              | none => none
            | none => none
      else if c = '{' then
        match skipWs r with
        | [] => none
        | c2 :: r' =>
          if c2 = '}' then some (.obj [], r')
          else
            match parseMember fuel r with
            | some (kv, r1) =>
              match parseMembers fuel r1 with
              | some (kvs, r2) => some (objOfMembers (kv :: kvs), r2)
              | none => none
            | none => none
      else if c = '-' ∨ isDigit c then parseNumber (c :: r)
      else none
/-- after an element: `,` element … `]` -/
def parseElems : Nat → List Char → Option (List Json × List Char)
  | 0, _ => none
  | fuel + 1, cs =>
    match skipWs cs with
    | [] => none
    | c :: r =>
      if c = ',' then
        match parseValue fuel r with
        | some (v, r1) =>
          match parseElems fuel r1 with
          | some (vs, r2) => some (v :: vs, r2)
          | none => none
        | none => none
      else if c = ']' then some ([], r)
      else none
/-- `"key" : value`; a key with an unpaired surrogate escape is `none` -/
def parseMember : Nat → List Char → Option ((Option String × Json) × List Char)
  | 0, _ => none
  | fuel + 1, cs =>
    match skipWs cs with
    | [] => none
    | c :: r =>
      if c = '"' then
        match parseStrBody r [] true none with
        | some (k, r1) =>
          match skipWs r1 with
          | [] => none
          | c2 :: r2 =>
            if c2 = ':' then
              match parseValue fuel r2 with
              | some (v, r3) => some ((k, v), r3)
              | none => none
            else none
        | none => none
      else none
/-- after a member: `,` member … `}` -/
def parseMembers : Nat → List Char → Option (List (Option String × Json) × List Char)
  | 0, _ => none
  | fuel + 1, cs =>
    match skipWs cs with
    | [] => none
    | c :: r =>
      if c = ',' then
        match parseMember fuel r with
        | some (kv, r1) =>
          match parseMembers fuel r1 with
          | some (kvs, r2) => some (kv :: kvs, r2)
          | none => none
        | none => none
      else if c = '}' then some ([], r)
      else none
end

/-- A whole document: one value, then only white space. -/
def parseText (cs : List Char) : Option Json :=
  match parseValue (2 * cs.length + 2) cs with
  | some (j, r) => if (skipWs r).isEmpty then some j else none
  | none => none

end Rio.Json
