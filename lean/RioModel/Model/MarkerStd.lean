/-
The executable regex engine the C10 driver runs (`Model/MarkerEngine.lean`) packaged as the `Engine` parameter of the
rule model: `^p$` for path / host matching and for capturing, the bare pattern for header triggers.
-/
import RioModel.Model.MarkerRule
import RioModel.Model.MarkerEngine

namespace Rio.Marker

def stdEngine : Engine where
  full ic p s := Engine.isMatch ic (['^'] ++ p ++ ['$']) s
  search p s := Engine.isMatch false p s
  caps ic p s := Engine.captures ic (['^'] ++ p ++ ['$']) s

end Rio.Marker
