/-
JSON values as `serde_json` presents them to `serde`'s derived visitors, the canonical printer of
`serde_json::to_string`, and the generic building blocks of derived `Deserialize` impls.

* A value is what the *parser* of serde_json hands over: objects are ordered key/value lists with
  duplicates kept (the derived `visit_map` sees every entry, in document order), integers are
  already classified (`num` = an integer literal that fits `u64`/`i64`; anything else numeric is a
  float and only remembered by its text, no field on the C06 path accepts a float).
* `find` is the field lookup of a derived `visit_map`: a key seen twice is the error
  `duplicate field`, unknown keys are skipped (`IgnoredAny`).
* `render` is the compact printer (`serde_json::to_string`): no spaces, `"`/`\`/control
  characters escaped (`\b \f \n \r \t`, other controls `\u00xx` in lower-case hex), everything
  else – including DEL and all non-ASCII – emitted raw.
-/
namespace Rio.Json

inductive Json where
  | null
  | bool (b : Bool)
  | num (i : Int)
  | flt (repr : String)
  | str (s : String)
  | arr (xs : List Json)
  | obj (kvs : List (String × Json))
  /-- a token that is syntactically fine to *skip* (`IgnoredAny`) but that no typed or buffered
  position accepts: a string with an unpaired `\uD8xx` surrogate escape.  Only the text parser
  (Model/JsonText.lean) produces it. -/
  | junk
deriving Repr, Inhabited

/-! ### Printer (`serde_json::to_string`) -/

def hexDigit (n : Nat) : Char :=
  if n < 10 then Char.ofNat (48 + n) else Char.ofNat (87 + n)

/-- `serde_json::ser::format_escaped_str_contents`, one character. -/
def escapeChar (c : Char) : List Char :=
  if c = '"' then ['\\', '"']
  else if c = '\\' then ['\\', '\\']
  else if c.toNat = 8 then ['\\', 'b']
  else if c.toNat = 12 then ['\\', 'f']
  else if c.toNat = 10 then ['\\', 'n']
  else if c.toNat = 13 then ['\\', 'r']
  else if c.toNat = 9 then ['\\', 't']
  else if c.toNat < 32 then ['\\', 'u', '0', '0', hexDigit (c.toNat / 16), hexDigit (c.toNat % 16)]
  else [c]

def escapeChars : List Char → List Char
  | [] => []
  | c :: cs => escapeChar c ++ escapeChars cs

def renderStr (s : String) : List Char :=
  '"' :: escapeChars s.toList ++ ['"']

def digitChar (d : Nat) : Char := Char.ofNat (48 + d)

/-- decimal digits of a natural number, most significant first, no leading zero (`itoa`). -/
def natDigits (n : Nat) : List Char :=
  if n < 10 then [digitChar n] else natDigits (n / 10) ++ [digitChar (n % 10)]
termination_by n
decreasing_by omega

def renderInt : Int → List Char
  | .ofNat n => natDigits n
  | .negSucc n => '-' :: natDigits (n + 1)

/-! Compact form: `[` first element, then `,` element …, `]`; objects alike with `"key":value`. -/
mutual
def render : Json → List Char
  | .null => ['n', 'u', 'l', 'l']
  | .bool true => ['t', 'r', 'u', 'e']
  | .bool false => ['f', 'a', 'l', 's', 'e']
  | .num i => renderInt i
  | .flt r => r.toList
  | .str s => renderStr s
  | .arr [] => ['[', ']']
  | .arr (x :: xs) => '[' :: render x ++ renderElems xs
  | .obj [] => ['{', '}']
  | .obj ((k, v) :: kvs) => '{' :: renderStr k ++ ':' :: render v ++ renderMembers kvs
  | .junk => []
/-- the elements after the first one, each preceded by a comma, then the closing bracket -/
def renderElems : List Json → List Char
  | [] => [']']
  | x :: xs => ',' :: render x ++ renderElems xs
def renderMembers : List (String × Json) → List Char
  | [] => ['}']
  | (k, v) :: kvs => ',' :: renderStr k ++ ':' :: render v ++ renderMembers kvs
end

def print (j : Json) : String := String.ofList (render j)

/-! ### Nesting depth (serde_json's recursion limit applies to values it has to *buffer*) -/

mutual
def depth : Json → Nat
  | .arr xs => 1 + depthList xs
  | .obj kvs => 1 + depthFields kvs
  | _ => 0
def depthList : List Json → Nat
  | [] => 0
  | x :: xs => max (depth x) (depthList xs)
def depthFields : List (String × Json) → Nat
  | [] => 0
  | (_, v) :: r => max (depth v) (depthFields r)
end

/-! does the value contain a token that may only be skipped? -/
mutual
def hasJunk : Json → Bool
  | .junk => true
  | .arr xs => hasJunkList xs
  | .obj kvs => hasJunkFields kvs
  | _ => false
def hasJunkList : List Json → Bool
  | [] => false
  | x :: xs => hasJunk x || hasJunkList xs
def hasJunkFields : List (String × Json) → Bool
  | [] => false
  | (_, v) :: r => hasJunk v || hasJunkFields r
end

/-- serde_json's recursion limit: a value nested in `base` containers may itself be at most
`127 - base` containers deep.  It only bites where the value is *buffered* (`Content`, for the
untagged enum); skipped unknown fields are consumed iteratively, without the limit. -/
def recursionLimit : Nat := 127

/-! ### Building blocks of `#[derive(Deserialize)]` -/

/-- Result of looking a field up in the entries of a JSON object. -/
inductive Found where
  | missing
  | one (v : Json)
  | dup
deriving Inhabited

/-- key comparison of the generated `__FieldVisitor::visit_str` (exact match). -/
def keyEq (a b : String) : Bool := a == b

/-- What the `while let Some(key) = map.next_key()` loop of a derived `visit_map` ends up with
for field `k`: never seen / seen once / seen twice (`Error::duplicate_field`). -/
def find : List (String × Json) → String → Found
  | [], _ => .missing
  | (k', v) :: rest, k =>
    if keyEq k' k then
      (match find rest k with
       | .missing => .one v
       | _ => .dup)
    else find rest k

/-- mandatory field: absent ⇒ `Error::missing_field`. -/
def reqField (d : Json → Option α) (kvs : List (String × Json)) (k : String) : Option α :=
  match find kvs k with
  | .one v => d v
  | _ => none

/-- `Option<T>`: JSON `null` ⇒ `None`, anything else must be a `T`. -/
def deOption (d : Json → Option α) : Json → Option (Option α)
  | .null => some none
  | j => (d j).map some

/-- field of type `Option<T>`: absent ⇒ `None` (`serde::__private::de::missing_field`). -/
def optField (d : Json → Option α) (kvs : List (String × Json)) (k : String) : Option (Option α) :=
  match find kvs k with
  | .missing => some none
  | .one v => deOption d v
  | .dup => none

/-- `#[serde(default)]` field. -/
def defaultField (d : Json → Option α) (dflt : α) (kvs : List (String × Json)) (k : String) : Option α :=
  match find kvs k with
  | .missing => some dflt
  | .one v => d v
  | .dup => none

def deString : Json → Option String
  | .str s => some s
  | _ => none

def deBool : Json → Option Bool
  | .bool b => some b
  | _ => none

/-- `u16`: an integer literal in range (`visit_u64` / `visit_i64` range checks); floats are a type error. -/
def deU16 : Json → Option UInt16
  | .num i => if 0 ≤ i ∧ i < 65536 then some (UInt16.ofNat i.toNat) else none
  | _ => none

def mapOpt (d : Json → Option α) : List Json → Option (List α)
  | [] => some []
  | x :: xs =>
    match d x, mapOpt d xs with
    | some a, some as => some (a :: as)
    | _, _ => none

/-- `Vec<T>`: a JSON array whose every element is a `T` (`null` is a type error). -/
def deVec (d : Json → Option α) : Json → Option (List α)
  | .arr xs => mapOpt d xs
  | _ => none

/-- `LinkedHashSet::insert`: an element already present is *moved to the back*
(`LinkedHashMap::insert` detaches and re-attaches the node). -/
def insertBack (l : List String) (x : String) : List String := l.erase x ++ [x]

/-- `LinkedHashSet<String>` (linked_hash_set's `visit_seq`: `values.insert(element)` per element). -/
def deSet : Json → Option (List String)
  | .arr xs => (mapOpt deString xs).map (fun l => l.foldl insertBack [])
  | _ => none

def serOption (s : α → Json) : Option α → Json
  | none => .null
  | some a => s a

def serU16 (c : UInt16) : Json := .num (Int.ofNat c.toNat)

def serVec (s : α → Json) (l : List α) : Json := .arr (l.map s)

def serSet (l : List String) : Json := .arr (l.map .str)

end Rio.Json
