/-
C10 — executable pieces of the specification that speak about *instantiations*: a source template seen as
tokens is instantiated by giving every marker a value; the request built that way should match iff every
value is accepted, and the captured values should be the instantiation.  Used by Props/C10 (statements) and by
the driver (the "s" side).
-/
import RioModel.Model.MarkerRule

namespace Rio.Marker

/-- The string obtained by instantiating every group of `ts` with the value of its name. -/
def instOf (ts : List Tok) (v : Str → Str) : Str :=
  ts.flatMap fun
    | .lit c => [c]
    | .grp n _ => v n

/-- Names of the groups of a token list, in order. -/
def groupNames : List Tok → List Str
  | [] => []
  | .lit _ :: ts => groupNames ts
  | .grp n _ :: ts => n :: groupNames ts

/-- The instantiation as a capture list, in token order. -/
def groupValues (ts : List Tok) (v : Str → Str) : List (Str × Str) := (groupNames ts).map fun n => (n, v n)

/-- Value side of "delimiter-separated": every group is the last token or is followed by a literal char that
does not occur in the value given to the group. -/
def delimitedFor (v : Str → Str) : List Tok → Bool
  | [] => true
  | .lit _ :: ts => delimitedFor v ts
  | .grp _ _ :: [] => true
  | .grp n _ :: .lit d :: ts => !(v n).contains d && delimitedFor v (.lit d :: ts)
  | .grp _ _ :: .grp _ _ :: _ => false

def nodupStr : List Str → Bool
  | [] => true
  | x :: xs => !xs.contains x && nodupStr xs

/-- Keep the first occurrence of every name. -/
def dedupStr : List Str → List Str
  | [] => []
  | x :: xs => x :: (dedupStr xs).filter (· != x)

/-- Identifier-like marker name (`[A-Za-z_][A-Za-z0-9_]*`): plain for `regex::escape`, valid as a group name,
unchanged by percent-encoding. -/
def identName : Str → Bool
  | [] => false
  | c :: cs => (isLowerA c || isUpperA c || c = '_') && cs.all fun d => isLowerA d || isUpperA d || isDigitA d || d = '_'

/-- The three places of a rule where markers are matched and captured. -/
inductive Layer where
  | path | host | header (i : Nat)
deriving Repr, DecidableEq

/-- Token views of the rule's source templates, with their layer. -/
def Rule.layers (r : Rule) : List (Layer × List Tok) :=
  let ms := r.routeMarkers
  [(Layer.path, tokens (pctEncode Rio.Consts.markerPathEncodeSet r.path) ms)] ++
  (match r.host with
    | some h => [(Layer.host, tokens h ms)]
    | none => []) ++
  (r.headers.zipIdx.map fun (h, i) => (Layer.header i, tokens h.2 ms))

/-- How the request side of a layer is normalised before matching / capturing. -/
def normValue (cf : CaseFns) (cfg : Config) : Layer → Str → Str
  | .path, v => pctEncode Rio.Consts.encSetQueryRsUrlEncodeSet v
  | .host, v => if cfg.ignoreHostCase then cf.lower v else v
  | .header _, v => if cfg.ignoreHeaderCase then cf.lower v else v

/-- Is the layer's matching regex evaluated case-insensitively? (header triggers never are) -/
def layerIc (cfg : Config) : Layer → Bool
  | .path => cfg.ignorePathCase
  | .host => cfg.ignoreHostCase
  | .header _ => false

/-- The rule is in the simple shape the instantiation oracle speaks about: identifier-like distinct marker
names, every marker used in at most one layer (it may be repeated inside that layer: both occurrences are
instantiated with the same value), each group delimited for the instantiation. -/
def Rule.simpleFor (cf : CaseFns) (r : Rule) (cfg : Config) (inst : List (Str × Str)) : Bool :=
  let ls := r.layers
  let used := ls.flatMap fun l => dedupStr (groupNames l.2)
  r.markers.all (fun m => identName m.name) && nodupStr (r.markers.map (·.name)) && nodupStr used &&
  -- a named group inside a marker expression adds a capture of its own: outside the instantiation oracle
  r.markers.all (fun m => !containsSub "(?P<".toList m.regex && !containsSub "(?<".toList m.regex) &&
  used.all (fun n => (inst.lookup n).isSome) &&
  ls.all fun l => delimitedFor (fun n => normValue cf cfg l.1 ((inst.lookup n).getD [])) l.2

/-- The captures the instantiation should produce: `(name, normalised value)` for every used marker, in
path, host, header order. -/
def Rule.instCaptured (cf : CaseFns) (r : Rule) (cfg : Config) (inst : List (Str × Str)) : List (Str × Str) :=
  r.layers.flatMap fun l => (dedupStr (groupNames l.2)).map fun n => (n, normValue cf cfg l.1 ((inst.lookup n).getD []))

/-- Is every instantiated value accepted by its marker expression (as the layer evaluates it)?  `acc ic re v` =
"`v` is in the language of `re`" (`^(?:re)$`). -/
def Rule.instAccepted (acc : Bool → Str → Str → Bool) (cf : CaseFns) (r : Rule) (cfg : Config)
    (inst : List (Str × Str)) : Bool :=
  r.layers.all fun l => l.2.all fun
    | .lit _ => true
    | .grp n re => acc (layerIc cfg l.1) re (normValue cf cfg l.1 ((inst.lookup n).getD []))

end Rio.Marker

namespace Rio.Marker

/-- Is the request the instantiation of the rule's templates (after the normalisation of each layer)?  Literal
text is compared case-insensitively where the layer matches case-insensitively. -/
def Rule.requestIsInst (cf : CaseFns) (r : Rule) (cfg : Config) (inst : List (Str × Str)) (q : Request) : Bool :=
  r.layers.all fun l =>
    let want := instOf l.2 fun n => normValue cf cfg l.1 ((inst.lookup n).getD [])
    let fold := fun (s : Str) => if layerIc cfg l.1 then cf.lower s else s
    match l.1 with
    | .path => fold q.path == fold want
    | .host => q.host.map fold == some (fold want)
    | .header i => match r.headers[i]? with
      | some h => q.headerValues cf h.1 == [want]
      | none => false

end Rio.Marker
