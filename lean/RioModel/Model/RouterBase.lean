/-
Router model, part 1: data types, primitive tests, traces, association lists.

Mirrors (after parsing, i.e. what `impl IntoRoute<Rule> for Rule` builds):
  src/router/route.rs            `Route<T>`                      -> `Route`
  src/marker/mod.rs              `StaticOrDynamic`               -> `SoD`
  src/router/route_ip.rs         `RouteIp::match_ip`             -> `RouteIp.matchIp`
  src/router/route_datetime.rs   `RouteDateTime::match_datetime` -> `DRange.matchInstant`
  src/router/route_time.rs       `RouteTime::match_datetime`     -> `DRange.matchInstant` on the time of day
  src/router/route_weekday.rs    `RouteWeekday::match_datetime`  -> `weekdayOf t ∈ ws`
  src/router/request_matcher/header.rs   `ValueCondition::match_value`     -> `HCond.eval`
  src/router/request_matcher/datetime.rs `DateTimeCondition::match_value`  -> `DCond.eval`
  src/http/request.rs            `Request` (the fields matching reads)     -> `Req`
  src/router/trace.rs            `Trace`, `get_routes_from_traces`         -> `Trace`, `routesOfList`

Conventions: `HashMap`/`BTreeMap` are association lists (`alookup`/`aupsert`); instants are whole
seconds since the epoch (`Nat`), times of day are seconds since midnight, week days are numbered
from Monday = 0 (chrono's `num_days_from_monday`).  The regex engine is a parameter (`Env`): the
models never look inside a pattern (`Pat`), they only ask the environment whether it matches.
-/

namespace Rio.Router

/-! ### Patterns (rule-shaped regexes: literal text and marker classes) -/

/-- The character classes of the marker menu used by the correspondence generator
(`[0-9]`, `[a-z]`, `[^/]`, `.`). -/
inductive Cls where
  | digit | lower | notSlash | any
deriving DecidableEq, Repr, Inhabited

/-- One token of a rule-shaped pattern: an escaped literal character, `(?:cls+)` or `(?:cls*)`. -/
inductive Tok where
  | lit (c : Char)
  | plus (c : Cls)
  | star (c : Cls)
deriving DecidableEq, Repr, Inhabited

/-- `MarkerString.regex`: the models treat it as an opaque key. -/
abbrev Pat := List Tok

/-- `marker::StaticOrDynamic`. -/
inductive SoD where
  | static (s : String)
  | dyn (p : Pat)
deriving DecidableEq, Repr, Inhabited

/-! ### IP addresses and ranges -/

/-- `std::net::IpAddr` as (family, numeric value). -/
structure Ip where
  v6 : Bool
  val : Nat
deriving DecidableEq, Repr, Inhabited

/-- `cidr::AnyIpCidr` (a family, a network address with zero host part, a prefix length). -/
structure Cidr where
  v6 : Bool
  base : Nat
  bits : Nat
deriving DecidableEq, Repr, Inhabited

/-- `AnyIpCidr::contains`: same family and same network prefix. -/
def Cidr.contains (c : Cidr) (a : Ip) : Bool :=
  let w := if c.v6 then 128 else 32
  c.v6 == a.v6 && a.val / 2 ^ (w - c.bits) == c.base / 2 ^ (w - c.bits)

/-- `router::RouteIp`. -/
inductive RouteIp where
  | inRange (c : Cidr)
  | notInRange (c : Cidr)
deriving DecidableEq, Repr, Inhabited

/-- `RouteIp::match_ip`. -/
def RouteIp.matchIp : RouteIp → Ip → Bool
  | .inRange c, a => c.contains a
  | .notInRange c, a => !c.contains a

/-! ### Date / time windows -/

/-- `RouteDateTime` / `RouteTime`: optional start (inclusive) and optional end (exclusive). -/
structure DRange where
  start : Option Nat
  stop : Option Nat
deriving DecidableEq, Repr, Inhabited

/-- `RouteDateTime::match_datetime` / `RouteTime::match_datetime`: the four-way match of the code. -/
def DRange.matchInstant (r : DRange) (t : Nat) : Bool :=
  match r.start with
  | none =>
    match r.stop with
    | none => true
    | some e => decide (t < e)
  | some s =>
    match r.stop with
    | none => decide (t ≥ s)
    | some e => decide (t ≥ s) && decide (t < e)

/-- `datetime.naive_utc().time()` in seconds since midnight. -/
def timeOfDay (t : Nat) : Nat := t % 86400

/-- `datetime.weekday().num_days_from_monday()` (1970-01-01 was a Thursday). -/
def weekdayOf (t : Nat) : Nat := (t / 86400 + 3) % 7

/-- `request_matcher::DateTimeCondition`. -/
inductive DCond where
  | dateRange (rs : List DRange)
  | timeRange (rs : List DRange)
  | weekdays (ws : List Nat)
deriving DecidableEq, Repr, Inhabited

/-! ### Header conditions -/

/-- `RouteHeaderKind` / `ValueCondition` (same nine shapes; the regex of `MatchRegex` is a `Pat`). -/
inductive HKind where
  | isDefined
  | isNotDefined
  | isEquals (v : String)
  | isNotEqualTo (v : String)
  | contains (v : String)
  | doesNotContain (v : String)
  | endsWith (v : String)
  | startsWith (v : String)
  | matchRegex (p : Pat)
deriving DecidableEq, Repr, Inhabited

/-- `RouteHeader` (name as written in the rule). -/
structure RouteHeader where
  name : String
  kind : HKind
deriving DecidableEq, Repr, Inhabited

/-- `HeaderCondition` (name lower-cased by `HeaderMatcher::insert`). -/
structure HCond where
  name : String
  kind : HKind
deriving DecidableEq, Repr, Inhabited

/-! ### Routes and requests -/

/-- `Route<T>` without the handler. -/
structure Route where
  id : String
  priority : Int
  scheme : Option String
  host : Option SoD
  ips : Option (List RouteIp)
  methods : Option (List String)
  excludeMethods : Option Bool
  headers : List RouteHeader
  datetime : Option (List DRange)
  time : Option (List DRange)
  weekdays : Option (List Nat)
  path : SoD
deriving DecidableEq, Repr, Inhabited

/-- The fields of `http::Request` that matching reads; `path` is `Request::path_and_query()`. -/
structure Req where
  scheme : Option String
  host : Option String
  method : Option String
  headers : List (String × String)
  ip : Option Ip
  createdAt : Option Nat
  path : String
deriving DecidableEq, Repr, Inhabited

/-- `Request::method`. -/
def Req.methodStr (q : Req) : String := q.method.getD "GET"

/-- The parameters of the model: configuration bit read by `HostMatcher`, and the regex engine
seen through the three places that call it (`UniqueRegexTreeMap::find` on hosts, `RegexTreeMap::find`
on paths – both include the tree's `ignore_case` flag – and `Regex::new(..).is_match` in
`ValueCondition::MatchRegex`), plus `str::to_lowercase` on header names. -/
structure Env where
  alwaysAnyHost : Bool
  hostFind : Pat → String → Bool
  pathFind : Pat → String → Bool
  headerRegex : Pat → String → Bool
  lower : String → String

/-! ### Primitive string tests on header values -/

def lcIsPrefix : List Char → List Char → Bool
  | [], _ => true
  | _ :: _, [] => false
  | a :: as, b :: bs => a == b && lcIsPrefix as bs

def lcIsInfix (n : List Char) : List Char → Bool
  | [] => n.isEmpty
  | b :: bs => lcIsPrefix n (b :: bs) || lcIsInfix n bs

/-- `str::starts_with`. -/
def strStartsWith (hay needle : String) : Bool := lcIsPrefix needle.toList hay.toList
/-- `str::ends_with`. -/
def strEndsWith (hay needle : String) : Bool := lcIsPrefix needle.toList.reverse hay.toList.reverse
/-- `str::contains`. -/
def strContains (hay needle : String) : Bool := lcIsInfix needle.toList hay.toList

section
variable (E : Env)

/-- `Request::header_values(name)`. -/
def Req.headerValues (q : Req) (name : String) : List String :=
  (q.headers.filter (fun h => E.lower h.1 == E.lower name)).map Prod.snd

/-- `Request::header_exists(name)`. -/
def Req.headerExists (q : Req) (name : String) : Bool :=
  q.headers.any (fun h => E.lower h.1 == E.lower name)

/-- `ValueCondition::match_value` (the accumulating loops are `any` / `all`). -/
def HCond.eval (c : HCond) (q : Req) : Bool :=
  match c.kind with
  | .isNotDefined => !q.headerExists E c.name
  | .isDefined => q.headerExists E c.name
  | .isEquals v => (q.headerValues E c.name).any (fun x => x == v)
  | .isNotEqualTo v => (q.headerValues E c.name).all (fun x => x != v)
  | .contains v => (q.headerValues E c.name).any (fun x => strContains x v)
  | .doesNotContain v => (q.headerValues E c.name).all (fun x => !strContains x v)
  | .endsWith v => (q.headerValues E c.name).any (fun x => strEndsWith x v)
  | .startsWith v => (q.headerValues E c.name).any (fun x => strStartsWith x v)
  | .matchRegex p => (q.headerValues E c.name).any (fun x => E.headerRegex p x)

/-- The `HeaderCondition` that `HeaderMatcher::insert` builds from a `RouteHeader`. -/
def RouteHeader.toCond (h : RouteHeader) : HCond := ⟨E.lower h.name, h.kind⟩

end

/-- `DateTimeCondition::match_value`. -/
def DCond.eval (c : DCond) (q : Req) : Bool :=
  match q.createdAt with
  | none => false
  | some t =>
    match c with
    | .dateRange rs => rs.any (fun r => r.matchInstant t)
    | .timeRange rs => rs.any (fun r => r.matchInstant (timeOfDay t))
    | .weekdays ws => ws.contains (weekdayOf t)

/-! ### Traces -/

/-- `TraceInfo`: only `Storage` carries routes; the payload of the other variants (request value,
compared value, per-condition results) is not observed by `get_routes_from_traces`. -/
inductive TInfo where
  | storage (routes : List Route)
  | other (kind : String)
deriving Repr, Inhabited

/-- `router::Trace`. -/
inductive Trace where
  | mk (matched executed : Bool) (count : Nat) (info : TInfo) (children : List Trace)
deriving Repr, Inhabited

def TInfo.routes : TInfo → List Route
  | .storage rs => rs
  | .other _ => []

/-- Push the routes of `new` whose id is not yet listed (the report-once loop of
`IpMatcher::match_request`; with `routes = []` the `retain(|r| seen.insert(r.id()))` of
`Trace::get_routes_from_traces`: first occurrence of every id, order kept). -/
def pushNew (routes : List Route) (new : List Route) : List Route :=
  new.foldl (fun acc r => if acc.any (fun x => x.id == r.id) then acc else acc ++ [r]) routes

/-- `routes.retain(|route| seen.insert(route.id()))`. -/
def dedupIds (rs : List Route) : List Route := pushNew [] rs

mutual
/-- What one iteration of the loop of `Trace::get_routes_from_traces` appends: the stored routes and
the (already deduplicated) result of the recursive call on the children. -/
def Trace.routes : Trace → List Route
  | .mk _ _ _ info children => info.routes ++ dedupIds (collectList children)
/-- `routes` of `Trace::get_routes_from_traces` before the final `retain`. -/
def collectList : List Trace → List Route
  | [] => []
  | t :: ts => t.routes ++ collectList ts
end

/-- `Trace::get_routes_from_traces` (after the repair 0b5ee14: a route stored under several
accepting ip ranges is reported once). -/
def routesOfList (ts : List Trace) : List Route := dedupIds (collectList ts)

mutual
/-- Every route stored anywhere in a trace, with repetitions (specification helper: what
`get_routes_from_traces` returned before the repair). -/
def Trace.rawRoutes : Trace → List Route
  | .mk _ _ _ info children => info.routes ++ rawRoutesOfList children
def rawRoutesOfList : List Trace → List Route
  | [] => []
  | t :: ts => t.rawRoutes ++ rawRoutesOfList ts
end

def Trace.matched : Trace → Bool
  | .mk m _ _ _ _ => m
def Trace.count : Trace → Nat
  | .mk _ _ c _ _ => c

/-! ### Association lists (`HashMap` / `BTreeMap`) -/

section
variable {K V : Type} [DecidableEq K]

/-- `map.get(k)`. -/
def alookup (k : K) : List (K × V) → Option V
  | [] => none
  | (k', v) :: rest => if k' = k then some v else alookup k rest

/-- `map.entry(k).or_insert_with(emp)` followed by an update of the entry
(also: `if !contains_key(k) { insert(k, emp) }; get_mut(k).unwrap().f()`). -/
def aupsert (f : V → V) (emp : V) (k : K) : List (K × V) → List (K × V)
  | [] => [(k, f emp)]
  | (k', v) :: rest => if k' = k then (k', f v) :: rest else (k', v) :: aupsert f emp k rest

def akeys (l : List (K × V)) : List K := l.map Prod.fst

end

/-! ### The interface of one matcher layer

`M` is the layer's state.  `remove` returns the new state and the removed route; `batchRemove`'s
Boolean result is ignored by every caller in the code and is not modelled; `len` is the `count`
field (`is_empty()` is `count == 0`). -/

structure MOps where
  M : Type
  empty : M
  insert : Route → M → M
  remove : String → M → M × Option Route
  batchRemove : List String → M → M
  matchReq : M → Req → List Route
  trace : M → Req → List Trace
  len : M → Nat
  /-- `cache(limit, level)`: compile regexes of the trees at depth `level` while budget is left;
  returns the new state and the budget left -/
  cache : Nat → Nat → M → M × Nat

/-- `is_empty()` of every matcher: `self.count == 0`. -/
def MOps.isEmpty (I : MOps) (m : I.M) : Bool := I.len m == 0

end Rio.Router
