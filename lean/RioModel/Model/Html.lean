/-
Model of the streaming HTML tokenizer `/repo/src/html/mod.rs` (C16; used by C03 C04 C14 C15 C07).

A function-by-function port.  Bytes are `Nat`s in an `Array Nat` (random access in the driver,
`omega`-friendly in proofs; the theorems hold for arbitrary `Nat` entries, a fortiori for bytes),
positions are `Nat`.  `&mut self` methods are functions returning the new state.  Every Rust panic
possibility (usize underflow of `raw.end -= k` / `raw.end - k`, `u8` underflow, index / slice out of
range) is an explicit guard whose failure sets the sticky flag `panic`; the one loop whose progress
depends on the *content* of the input (the attribute loop of `read_tag`) carries an explicit progress
check whose failure sets the sticky flag `hang` (the Rust loop would spin for ever).  `Props/C16.lean`
proves both flags are never set.  Position loops are well-founded recursions on `size - raw.end`.

API (stable, announced in notes/wp/W5.md):
  `Tokenizer.new bytes`, `Tokenizer.newFragment bytes ctxLower`, `Tokenizer.next`, `Tokenizer.raw`,
  `Tokenizer.buffered`, `Tokenizer.text`, `Tokenizer.tagName`, `Tokenizer.tagAttr`, `Tokenizer.attrsAll`,
  fields `token err panic hang utf8Err rawS rawE dataS dataE rawTag textIsRaw convertNull allowCdata`.
-/
import RioModel.Generated.Consts

namespace Rio.Html
open Rio.Consts

/-- `enum TokenType` -/
inductive TokenType where
  | none | error | text | startTag | endTag | selfClosing | comment | doctype
  deriving DecidableEq, Repr, Inhabited

/-- one saved attribute: `[Span; 2]` = key span, value span -/
structure AttrSpan where
  ks : Nat
  ke : Nat
  vs : Nat
  ve : Nat
  deriving Repr, DecidableEq, Inhabited

/-- `struct Tokenizer` (spans flattened to their two ends). -/
structure Tokenizer where
  /-- `reader` -/
  buf : Array Nat
  token : TokenType := .none
  /-- `err.is_some()` (the only error kind ever stored is EOF) -/
  err : Bool := false
  rawS : Nat := 0
  rawE : Nat := 0
  dataS : Nat := 0
  dataE : Nat := 0
  /-- `pending_attribute[0]` -/
  pkS : Nat := 0
  pkE : Nat := 0
  /-- `pending_attribute[1]` -/
  pvS : Nat := 0
  pvE : Nat := 0
  /-- `attribute` -/
  attrs : Array AttrSpan := #[]
  /-- `number_attribute_returned` -/
  nAttrRet : Nat := 0
  /-- `raw_tag` as bytes (`[]` = empty string) -/
  rawTag : List Nat := []
  textIsRaw : Bool := false
  convertNull : Bool := false
  allowCdata : Bool := true
  /-- a Rust panic (arithmetic underflow, index/slice out of range) would have happened -/
  panic : Bool := false
  /-- the attribute loop of `read_tag` made no progress (the Rust loop would not terminate) -/
  hang : Bool := false
  /-- `next()` returned `Err(FromUtf8Error)` (only possible in `read_start_tag`) -/
  utf8Err : Bool := false

namespace Tokenizer

/-! ### byte classes -/

def isWs (b : Nat) : Bool := b == 32 || b == 10 || b == 13 || b == 9 || b == 12
def isAlpha (b : Nat) : Bool := (65 ≤ b && b ≤ 90) || (97 ≤ b && b ≤ 122)
def isUpper (b : Nat) : Bool := 65 ≤ b && b ≤ 90
/-- `if c.is_ascii_uppercase() { c += b'a' - b'A' }` -/
def lowerByte (b : Nat) : Nat := if isUpper b then b + 32 else b
/-- ' ' | '\n' | '\r' | '\t' | '\x0c' | '/' | '>' -/
def isTagEnd (b : Nat) : Bool := isWs b || b == 47 || b == 62

/-! ### UTF-8 validity (`String::from_utf8`) as a byte automaton -/

/-- state: number of continuation bytes still expected, and the admissible range of the next one -/
structure U8St where
  need : Nat := 0
  lo : Nat := 128
  hi : Nat := 191

def utf8Step (s : Option U8St) (b : Nat) : Option U8St :=
  match s with
  | .none => .none
  | .some s =>
    if s.need = 0 then
      if b < 128 then some {}
      else if 194 ≤ b && b ≤ 223 then some { need := 1 }
      else if b == 224 then some { need := 2, lo := 160 }
      else if (225 ≤ b && b ≤ 236) || b == 238 || b == 239 then some { need := 2 }
      else if b == 237 then some { need := 2, hi := 159 }
      else if b == 240 then some { need := 3, lo := 144 }
      else if 241 ≤ b && b ≤ 243 then some { need := 3 }
      else if b == 244 then some { need := 3, hi := 143 }
      else .none
    else if s.lo ≤ b && b ≤ s.hi then some { need := s.need - 1 }
    else .none

/-- `String::from_utf8(bytes).is_ok()` -/
def validUtf8 (bs : List Nat) : Bool :=
  match bs.foldl utf8Step (some {}) with
  | some s => s.need == 0
  | .none => false

/-! ### primitive moves -/

/-- `read_byte` -/
def readByte (t : Tokenizer) : Tokenizer × Nat :=
  if h : t.rawE < t.buf.size then ({ t with rawE := t.rawE + 1 }, t.buf[t.rawE])
  else ({ t with err := true }, 0)

/-- `self.raw.end -= k` (usize: underflow panics) -/
def unread (t : Tokenizer) (k : Nat) : Tokenizer :=
  if k ≤ t.rawE then { t with rawE := t.rawE - k } else { t with panic := true }

/-- `self.data.end = self.raw.end - k` -/
def setDataEndBack (t : Tokenizer) (k : Nat) : Tokenizer :=
  if k ≤ t.rawE then { t with dataE := t.rawE - k } else { t with panic := true }

/-- `self.raw.end += k` -/
def addRawE (t : Tokenizer) (k : Nat) : Tokenizer := { t with rawE := t.rawE + k }

theorem readByte_buf (t : Tokenizer) : t.readByte.1.buf = t.buf := by
  unfold readByte; split <;> rfl

theorem readByte_decr (t : Tokenizer) (h : ¬ t.readByte.1.err = true) :
    t.readByte.1.buf.size - t.readByte.1.rawE < t.buf.size - t.rawE := by
  unfold readByte at *; split <;> simp_all; omega

theorem readByte_rawE_ge (t : Tokenizer) : t.rawE ≤ t.readByte.1.rawE := by
  unfold readByte; split <;> simp

theorem unread_buf (t : Tokenizer) (k : Nat) : (t.unread k).buf = t.buf := by
  unfold unread; split <;> rfl

theorem unread_rawE (t : Tokenizer) (k : Nat) : t.rawE ≤ (t.unread k).rawE + k := by
  unfold unread; split <;> simp <;> omega

/-! ### `skip_white_space` -/

def skipWsGo (t : Tokenizer) : Tokenizer :=
  let r := t.readByte
  if _h : r.1.err then r.1
  else if isWs r.2 then skipWsGo r.1
  else r.1.unread 1
termination_by t.buf.size - t.rawE
decreasing_by exact readByte_decr t _h

/-- `skip_white_space` -/
def skipWhiteSpace (t : Tokenizer) : Tokenizer :=
  if t.err then t else skipWsGo t

/-! ### raw text: `read_raw_end_tag`, `read_raw_or_cdata` -/

/-- the `for i in 0..self.raw_tag.len()` loop of `read_raw_end_tag`; `true` = every byte matched.
`false` with `err` = EOF, `false` without = mismatch (the byte was unread). -/
def rawEndTagLoop (t : Tokenizer) : List Nat → Tokenizer × Bool
  | [] => (t, true)
  | c :: cs =>
    let r := t.readByte
    if r.1.err then (r.1, false)
    else if r.2 != c then
      -- `byte != raw_tag[i] - (b'a' - b'A')`: u8 subtraction, evaluated only when byte != raw_tag[i]
      if c < 32 then ({ r.1 with panic := true }, false)
      else if r.2 != c - 32 then (r.1.unread 1, false)
      else rawEndTagLoop r.1 cs
    else rawEndTagLoop r.1 cs

/-- `read_raw_end_tag` -/
def readRawEndTag (t : Tokenizer) : Tokenizer × Bool :=
  let l := rawEndTagLoop t t.rawTag
  if !l.2 then (l.1, false)
  else
    let r := l.1.readByte
    if r.1.err then (r.1, false)
    else if isTagEnd r.2 then (r.1.unread (3 + t.rawTag.length), true)
    else (r.1.unread 1, false)

/-- states of the script sub-automaton = the mutually tail-calling `read_script_data_*` functions -/
inductive SS where
  | data | lessThanSign | endTagOpen | escapeStart | escapeStartDash
  | escaped | escapedDash | escapedDashDash | escapedLessThanSign | escapedEndTagOpen
  | doubleEscapeStart | doubleEscaped | doubleEscapedDash | doubleEscapedDashDash
  | doubleEscapedLessThanSign | doubleEscapedEnd
  deriving DecidableEq, Repr, Inhabited

/-- Rank for the lexicographic termination measure: an edge that consumes no byte (unread then
re-dispatch) goes to a state of strictly smaller rank; chains of such edges have length ≤ 2. -/
def SS.rank : SS → Nat
  | .data | .escaped | .escapedDash | .escapedDashDash
  | .doubleEscaped | .doubleEscapedDash | .doubleEscapedDashDash => 0
  | .doubleEscapeStart => 1
  | _ => 2

/-- the `for i in 0.."script".len()` loop of `read_script_data_double_escape_start` -/
def dblEscLoop (t : Tokenizer) : List (Nat × Nat) → Tokenizer × Bool
  | [] => (t, true)
  | (lo, up) :: cs =>
    let r := t.readByte
    if r.1.err then (r.1, false)
    else if r.2 != lo && r.2 != up then (r.1.unread 1, false)
    else dblEscLoop r.1 cs

/-- closes arithmetic side goals after case splits -/
local macro "arith" : tactic => `(tactic| first | omega | (simp; omega) | (simp; done) | (simp_all; omega) | (simp_all; done))

theorem readByte_cases (t : Tokenizer) :
    (t.readByte.1.rawE = t.rawE + 1 ∧ t.rawE < t.buf.size ∧ t.readByte.1.err = t.err) ∨
    (t.readByte.1.rawE = t.rawE ∧ t.readByte.1.err = true) := by
  unfold readByte; split <;> simp_all

theorem unread_rawE_le (t : Tokenizer) (k : Nat) : (t.unread k).rawE ≤ t.rawE := by
  unfold unread; split <;> simp

theorem rawEndTagLoop_buf (t : Tokenizer) (cs : List Nat) : (rawEndTagLoop t cs).1.buf = t.buf := by
  induction cs generalizing t with
  | nil => rfl
  | cons c cs ih =>
    simp only [rawEndTagLoop]
    (repeat' split) <;> simp [ih, unread_buf, readByte_buf]

theorem rawEndTagLoop_rawE (t : Tokenizer) (cs : List Nat) :
    t.rawE ≤ (rawEndTagLoop t cs).1.rawE ∧ (rawEndTagLoop t cs).1.rawE ≤ t.rawE + cs.length ∧
    ((rawEndTagLoop t cs).2 = true → (rawEndTagLoop t cs).1.rawE = t.rawE + cs.length) := by
  induction cs generalizing t with
  | nil => simp [rawEndTagLoop]
  | cons c cs ih =>
    have hr := readByte_cases t
    have hu := unread_rawE t.readByte.1 1
    have hu2 := unread_rawE_le t.readByte.1 1
    have := ih t.readByte.1
    simp only [rawEndTagLoop, List.length_cons]
    by_cases herr : t.readByte.1.err = true
    · simp only [herr, if_true]; arith
    · have h1 : t.readByte.1.rawE = t.rawE + 1 := by
        rcases hr with h | ⟨_, h⟩
        · exact h.1
        · exact absurd h herr
      simp only [herr]
      (repeat' split) <;> arith

theorem readRawEndTag_buf (t : Tokenizer) : t.readRawEndTag.1.buf = t.buf := by
  unfold readRawEndTag
  simp only
  (repeat' split) <;> simp [unread_buf, readByte_buf, rawEndTagLoop_buf]

/-- what the termination argument of the script automaton needs from `read_raw_end_tag` -/
theorem readRawEndTag_rawE (t : Tokenizer) :
    t.rawE ≤ t.readRawEndTag.1.rawE + 2 ∧ (t.readRawEndTag.2 = false → t.rawE ≤ t.readRawEndTag.1.rawE) ∧
    (t.readRawEndTag.2 = true → t.rawE < t.buf.size) := by
  have hl := rawEndTagLoop_rawE t t.rawTag
  have hb := rawEndTagLoop_buf t t.rawTag
  unfold readRawEndTag
  simp only
  by_cases hok : (rawEndTagLoop t t.rawTag).2 = true
  · have he := hl.2.2 hok
    simp only [hok, Bool.not_true, Bool.false_eq_true, if_false]
    generalize (rawEndTagLoop t t.rawTag).1 = l at *
    have hr := readByte_cases l
    by_cases herr : l.readByte.1.err = true
    · simp only [herr, if_true]; arith
    · have h1 : l.readByte.1.rawE = l.rawE + 1 ∧ l.rawE < l.buf.size := by
        rcases hr with h | ⟨_, h⟩
        · exact ⟨h.1, h.2.1⟩
        · exact absurd h herr
      simp only [herr]
      have hu := unread_rawE l.readByte.1 1
      have hk : (l.readByte.1.unread (3 + t.rawTag.length)).rawE + 2 ≥ t.rawE := by
        unfold unread; split <;> simp <;> omega
      rw [hb] at h1
      by_cases hte : isTagEnd l.readByte.2 = true
      · simp only [hte, if_true]; arith
      · simp only [hte]; arith
  · have hok' : (rawEndTagLoop t t.rawTag).2 = false := by simpa using hok
    simp [hok']; omega

theorem dblEscLoop_buf (t : Tokenizer) (cs : List (Nat × Nat)) : (dblEscLoop t cs).1.buf = t.buf := by
  induction cs generalizing t with
  | nil => rfl
  | cons c cs ih =>
    obtain ⟨lo, up⟩ := c
    simp only [dblEscLoop]
    (repeat' split) <;> simp [ih, unread_buf, readByte_buf]

theorem dblEscLoop_rawE (t : Tokenizer) (cs : List (Nat × Nat)) : t.rawE ≤ (dblEscLoop t cs).1.rawE := by
  induction cs generalizing t with
  | nil => simp [dblEscLoop]
  | cons c cs ih =>
    obtain ⟨lo, up⟩ := c
    have hr := readByte_cases t
    have hu := unread_rawE t.readByte.1 1
    have := ih t.readByte.1
    simp only [dblEscLoop]
    by_cases herr : t.readByte.1.err = true
    · simp only [herr, if_true]; arith
    · have h1 : t.readByte.1.rawE = t.rawE + 1 := by
        rcases hr with h | ⟨_, h⟩
        · exact h.1
        · exact absurd h herr
      simp only [herr]
      (repeat' split) <;> arith

/-! ### the script sub-automaton: `read_script_data*` as one function over the explicit state -/

set_option hygiene false in
local macro "dec_B" : tactic => `(tactic| (
    have hd := readByte_decr t _h;
    have hub : (t.readByte.1.unread 1).buf.size = t.readByte.1.buf.size := (by rw [unread_buf]);
    have hur := unread_rawE t.readByte.1 1;
    omega))
set_option hygiene false in
local macro "dec_E" : tactic => `(tactic| (
    have hb : t.readRawEndTag.1.buf.size = t.buf.size := (by rw [readRawEndTag_buf]);
    have h0 : ¬ (t.readRawEndTag.2 || t.readRawEndTag.1.err) = true := _h;
    have h2 : t.readRawEndTag.2 = false :=
       Bool.eq_false_iff.mpr (fun h => h0 ((Bool.or_eq_true _ _).mpr (Or.inl h)));
    have hr := (readRawEndTag_rawE t).2.1 h2;
    omega))
set_option hygiene false in
local macro "dec_F" : tactic => `(tactic| (
    have hb : t.readRawEndTag.1.buf.size = t.buf.size := (by rw [readRawEndTag_buf]);
    have h0 : ¬ t.readRawEndTag.2 = true := _h;
    have h2 : t.readRawEndTag.2 = false := Bool.eq_false_iff.mpr h0;
    have hr := (readRawEndTag_rawE t).2.1 h2;
    omega))
set_option hygiene false in
local macro "dec_T" : tactic => `(tactic| (
    have hb : t.readRawEndTag.1.buf.size = t.buf.size := (by rw [readRawEndTag_buf]);
    have hr := (readRawEndTag_rawE t);
    have h0 : t.readRawEndTag.2 = true := _h;
    have h3 := hr.2.2 h0;
    simp only [htmlScriptEndTagLen, addRawE];
    omega))
set_option hygiene false in
local macro "dec_L" : tactic => `(tactic| (
    have hb : (dblEscLoop t htmlDoubleEscapePat).1.buf.size = t.buf.size := (by rw [dblEscLoop_buf]);
    have hr := dblEscLoop_rawE t htmlDoubleEscapePat;
    omega))
set_option hygiene false in
local macro "dec_M" : tactic => `(tactic| (
    have hb : (dblEscLoop t htmlDoubleEscapePat).1.buf.size = t.buf.size := (by rw [dblEscLoop_buf]);
    have hr := dblEscLoop_rawE t htmlDoubleEscapePat;
    have hd := readByte_decr (dblEscLoop t htmlDoubleEscapePat).1 _h;
    have hub : ((dblEscLoop t htmlDoubleEscapePat).1.readByte.1.unread 1).buf.size = (dblEscLoop t htmlDoubleEscapePat).1.readByte.1.buf.size := (by rw [unread_buf]);
    have hur := unread_rawE (dblEscLoop t htmlDoubleEscapePat).1.readByte.1 1;
    omega))

/-- `read_script_data` and the fifteen functions it tail-calls.  Termination: lexicographic in
(bytes left, `SS.rank`). -/
def scriptGo (st : SS) (t : Tokenizer) : Tokenizer :=
  match st with
  | .data =>                       -- read_script_data
    let r := t.readByte
    if _h : r.1.err then r.1
    else if r.2 == 60 then scriptGo .lessThanSign r.1
    else scriptGo .data r.1
  | .lessThanSign =>               -- read_script_data_less_than_sign
    let r := t.readByte
    if _h : r.1.err then r.1
    else if r.2 == 47 then scriptGo .endTagOpen r.1
    else if r.2 == 33 then scriptGo .escapeStart r.1
    else scriptGo .data (r.1.unread 1)
  | .endTagOpen =>                 -- read_script_data_end_tag_open
    let r := t.readRawEndTag
    if _h : r.2 || r.1.err then r.1
    else scriptGo .data r.1
  | .escapeStart =>                -- read_script_data_escape_start
    let r := t.readByte
    if _h : r.1.err then r.1
    else if r.2 == 45 then scriptGo .escapeStartDash r.1
    else scriptGo .data (r.1.unread 1)
  | .escapeStartDash =>            -- read_script_data_escape_start_dash
    let r := t.readByte
    if _h : r.1.err then r.1
    else if r.2 == 45 then scriptGo .escapedDashDash r.1
    else scriptGo .data (r.1.unread 1)
  | .escaped =>                    -- read_script_data_escaped
    let r := t.readByte
    if _h : r.1.err then r.1
    else if r.2 == 45 then scriptGo .escapedDash r.1
    else if r.2 == 60 then scriptGo .escapedLessThanSign r.1
    else scriptGo .escaped r.1
  | .escapedDash =>                -- read_script_data_escaped_dash
    let r := t.readByte
    if _h : r.1.err then r.1
    else if r.2 == 45 then scriptGo .escapedDashDash r.1
    else if r.2 == 60 then scriptGo .escapedLessThanSign r.1
    else scriptGo .escaped r.1
  | .escapedDashDash =>            -- read_script_data_escaped_dash_dash
    let r := t.readByte
    if _h : r.1.err then r.1
    else if r.2 == 45 then scriptGo .escapedDashDash r.1
    else if r.2 == 60 then scriptGo .escapedLessThanSign r.1
    else if r.2 == 62 then scriptGo .data r.1
    else scriptGo .escaped r.1
  | .escapedLessThanSign =>        -- read_script_data_escaped_less_than_sign
    let r := t.readByte
    if _h : r.1.err then r.1
    else if r.2 == 47 then scriptGo .escapedEndTagOpen r.1
    -- the callee's first statement `self.raw.end -= 1` is performed here (its only call site)
    else if isAlpha r.2 then scriptGo .doubleEscapeStart (r.1.unread 1)
    else scriptGo .data (r.1.unread 1)
  | .escapedEndTagOpen =>          -- read_script_data_escaped_end_tag_open
    let r := t.readRawEndTag
    if _h : r.2 || r.1.err then r.1
    else scriptGo .escaped r.1
  | .doubleEscapeStart =>          -- read_script_data_double_escape_start
    -- (after its first statement `self.raw.end -= 1`, see `escapedLessThanSign`)
    let l := dblEscLoop t htmlDoubleEscapePat
    if _h1 : l.1.err then l.1
    else if _h2 : !l.2 then scriptGo .escaped l.1   -- mismatch: the byte was unread in the loop
    else
      let r := l.1.readByte
      if _h : r.1.err then r.1
      else if isTagEnd r.2 then scriptGo .doubleEscaped r.1
      else scriptGo .escaped (r.1.unread 1)
  | .doubleEscaped =>              -- read_script_data_double_escaped
    let r := t.readByte
    if _h : r.1.err then r.1
    else if r.2 == 45 then scriptGo .doubleEscapedDash r.1
    else if r.2 == 60 then scriptGo .doubleEscapedLessThanSign r.1
    else scriptGo .doubleEscaped r.1
  | .doubleEscapedDash =>          -- read_script_data_double_escaped_dash
    let r := t.readByte
    if _h : r.1.err then r.1
    else if r.2 == 45 then scriptGo .doubleEscapedDashDash r.1
    else if r.2 == 60 then scriptGo .doubleEscapedLessThanSign r.1
    else scriptGo .doubleEscaped r.1
  | .doubleEscapedDashDash =>      -- read_script_data_double_escaped_dash_dash
    let r := t.readByte
    if _h : r.1.err then r.1
    else if r.2 == 45 then scriptGo .doubleEscapedDashDash r.1
    else if r.2 == 60 then scriptGo .doubleEscapedLessThanSign r.1
    else if r.2 == 62 then scriptGo .data r.1
    else scriptGo .doubleEscaped r.1
  | .doubleEscapedLessThanSign =>  -- read_script_data_double_escaped_less_than_sign
    let r := t.readByte
    if _h : r.1.err then r.1
    else if r.2 == 47 then scriptGo .doubleEscapedEnd r.1
    else scriptGo .doubleEscaped (r.1.unread 1)
  | .doubleEscapedEnd =>           -- read_script_data_double_escaped_end
    let r := t.readRawEndTag
    if _h : r.2 then scriptGo .escaped (r.1.addRawE htmlScriptEndTagLen)
    else if _h' : r.1.err then r.1
    else scriptGo .doubleEscaped r.1
termination_by (t.buf.size - t.rawE, st.rank)
decreasing_by
  all_goals simp_wf
  all_goals simp only [Prod.lex_def, SS.rank]
  -- one goal per recursive call, in source order
  · dec_B
  · dec_B
  · dec_B
  · dec_B
  · dec_B
  · dec_E
  · dec_B
  · dec_B
  · dec_B
  · dec_B
  · dec_B
  · dec_B
  · dec_B
  · dec_B
  · dec_B
  · dec_B
  · dec_B
  · dec_B
  · dec_B
  · dec_B
  · dec_B
  · dec_B
  · dec_B
  · dec_E
  · dec_L
  · dec_M
  · dec_M
  · dec_B
  · dec_B
  · dec_B
  · dec_B
  · dec_B
  · dec_B
  · dec_B
  · dec_B
  · dec_B
  · dec_B
  · dec_B
  · dec_B
  · dec_T
  · dec_F

/-- `read_script` -/
def readScript (t : Tokenizer) : Tokenizer :=
  let t1 := scriptGo .data t
  { t1 with dataE := t1.rawE }

/-- the `loop` of `read_raw_or_cdata` (non-script raw text / RCDATA) -/
def rawTextGo (t : Tokenizer) : Tokenizer :=
  let r := t.readByte
  if _h : r.1.err then r.1
  else if r.2 != 60 then rawTextGo r.1
  else
    let r2 := r.1.readByte
    if _h2 : r2.1.err then r2.1
    else if r2.2 != 47 then rawTextGo r2.1
    else
      let e := r2.1.readRawEndTag
      if _h3 : e.2 || e.1.err then e.1
      else rawTextGo e.1
termination_by t.buf.size - t.rawE
decreasing_by
  · exact readByte_decr t _h
  · have h1 := readByte_decr t _h
    have h2 := readByte_decr t.readByte.1 _h2
    omega
  · have h1 := readByte_decr t _h
    have h2 := readByte_decr t.readByte.1 _h2
    have hb : t.readByte.1.readByte.1.readRawEndTag.1.buf.size = t.readByte.1.readByte.1.buf.size := by
      rw [readRawEndTag_buf]
    have h0 : ¬ (t.readByte.1.readByte.1.readRawEndTag.2 || t.readByte.1.readByte.1.readRawEndTag.1.err) = true := _h3
    have h3 : t.readByte.1.readByte.1.readRawEndTag.2 = false :=
      Bool.eq_false_iff.mpr (fun h => h0 ((Bool.or_eq_true _ _).mpr (Or.inl h)))
    have hr := (readRawEndTag_rawE t.readByte.1.readByte.1).2.1 h3
    omega

/-- `read_raw_or_cdata` -/
def readRawOrCdata (t : Tokenizer) : Tokenizer :=
  if t.rawTag == htmlScript then
    let t1 := readScript t
    { t1 with textIsRaw := true, rawTag := [] }
  else
    let t1 := rawTextGo t
    { t1 with dataE := t1.rawE,
              textIsRaw := t1.rawTag != htmlTextarea && t1.rawTag != htmlTitle,
              rawTag := [] }

/-- `while self.err.is_none() { self.read_byte(); }` (plaintext) -/
def readToEnd (t : Tokenizer) : Tokenizer :=
  if t.err then t
  else
    let r := t.readByte
    if _h : r.1.err then r.1 else readToEnd r.1
termination_by t.buf.size - t.rawE
decreasing_by exact readByte_decr t _h

/-! ### comments, declarations -/

/-- the `loop` of `read_comment` -/
def commentGo (t : Tokenizer) (dash : Nat) : Tokenizer :=
  let r := t.readByte
  if _h : r.1.err then
    r.1.setDataEndBack (if dash > 2 then 2 else dash)
  else if r.2 == 45 then commentGo r.1 (dash + 1)
  else if r.2 == 62 then
    if dash ≥ 2 then r.1.setDataEndBack htmlCommentEndLen
    else commentGo r.1 0
  else if r.2 == 33 then
    if dash ≥ 2 then
      let r2 := r.1.readByte
      if _h2 : r2.1.err then { r2.1 with dataE := r2.1.rawE }
      else if r2.2 == 62 then r2.1.setDataEndBack htmlCommentBangEndLen
      else commentGo r2.1 0
    else commentGo r.1 0
  else commentGo r.1 0
termination_by t.buf.size - t.rawE
decreasing_by
  all_goals first
    | exact readByte_decr t _h
    | (have h1 := readByte_decr t _h
       have h2 := readByte_decr t.readByte.1 _h2
       omega)

/-- `read_comment` -/
def readComment (t : Tokenizer) : Tokenizer :=
  let t1 := commentGo { t with dataS := t.rawE } 2
  if t1.dataE < t1.dataS then { t1 with dataE := t1.dataS } else t1

def untilCloseAngleGo (t : Tokenizer) : Tokenizer :=
  let r := t.readByte
  if _h : r.1.err then { r.1 with dataE := r.1.rawE }
  else if r.2 == 62 then r.1.setDataEndBack 1
  else untilCloseAngleGo r.1
termination_by t.buf.size - t.rawE
decreasing_by exact readByte_decr t _h

/-- `read_until_close_angle` -/
def readUntilCloseAngle (t : Tokenizer) : Tokenizer :=
  untilCloseAngleGo { t with dataS := t.rawE }

/-- the `for i in 0..lit.len()` loops of `read_doc_type` (`(b, b + 32)` pairs) and `read_cdata`
(`(b, b)` pairs): EOF → `data.end = raw.end`, mismatch → `raw.end = data.start`; `true` = all matched -/
def declLoop (t : Tokenizer) : List (Nat × Nat) → Tokenizer × Bool
  | [] => (t, true)
  | (c, c') :: cs =>
    let r := t.readByte
    if r.1.err then ({ r.1 with dataE := r.1.rawE }, false)
    else if r.2 != c && r.2 != c' then ({ r.1 with rawE := r.1.dataS }, false)
    else declLoop r.1 cs

/-- `read_doc_type` -/
def readDocType (t : Tokenizer) : Tokenizer × Bool :=
  let l := declLoop t htmlDoctypePat
  if !l.2 then (l.1, false)
  else
    let t1 := l.1.skipWhiteSpace
    if t1.err then ({ t1 with dataS := t1.rawE, dataE := t1.rawE }, true)
    else (t1.readUntilCloseAngle, true)

/-- the `loop` of `read_cdata` -/
def cdataGo (t : Tokenizer) (brackets : Nat) : Tokenizer :=
  let r := t.readByte
  if _h : r.1.err then { r.1 with dataE := r.1.rawE }
  else if r.2 == 93 then cdataGo r.1 (brackets + 1)
  else if r.2 == 62 then
    if brackets ≥ htmlCdataBracketMin then r.1.setDataEndBack htmlCdataEndLen
    else cdataGo r.1 0
  else cdataGo r.1 0
termination_by t.buf.size - t.rawE
decreasing_by all_goals exact readByte_decr t _h

/-- `read_cdata` -/
def readCdata (t : Tokenizer) : Tokenizer × Bool :=
  let l := declLoop t htmlCdataPat
  if !l.2 then (l.1, false)
  else (cdataGo { l.1 with dataS := l.1.rawE } 0, true)

/-- `read_markup_declaration`, after `self.raw.end -= 2`: doctype, CDATA or bogus comment -/
def markupRest (t : Tokenizer) : Tokenizer × TokenType :=
  let d := t.readDocType
  if d.2 then (d.1, .doctype)
  else if d.1.allowCdata then
    let c := d.1.readCdata
    if c.2 then ({ c.1 with convertNull := true }, .text)
    else (c.1.readUntilCloseAngle, .comment)
  else (d.1.readUntilCloseAngle, .comment)

/-- `read_markup_declaration`, after `self.data.start = self.raw.end` -/
def markupGo (t : Tokenizer) : Tokenizer × TokenType :=
  let r1 := t.readByte
  if r1.1.err then ({ r1.1 with dataE := r1.1.rawE }, .comment)
  else
    let r2 := r1.1.readByte
    if r2.1.err then ({ r2.1 with dataE := r2.1.rawE }, .comment)
    else if r1.2 == 45 && r2.2 == 45 then (r2.1.readComment, .comment)
    else markupRest (r2.1.unread 2)

/-- `read_markup_declaration` -/
def readMarkupDeclaration (t : Tokenizer) : Tokenizer × TokenType :=
  markupGo { t with dataS := t.rawE }

/-! ### tags -/

def tagNameGo (t : Tokenizer) : Tokenizer :=
  let r := t.readByte
  if _h : r.1.err then { r.1 with dataE := r.1.rawE }
  else if isWs r.2 then r.1.setDataEndBack 1
  else if r.2 == 47 || r.2 == 62 then
    let u := r.1.unread 1
    { u with dataE := u.rawE }
  else tagNameGo r.1
termination_by t.buf.size - t.rawE
decreasing_by exact readByte_decr t _h

/-- `read_tag_name` (`self.data.start = self.raw.end - 1`) -/
def readTagName (t : Tokenizer) : Tokenizer :=
  if t.rawE = 0 then { t with panic := true }
  else tagNameGo { t with dataS := t.rawE - 1 }

def attrKeyGo (t : Tokenizer) : Tokenizer :=
  let r := t.readByte
  if _h : r.1.err then { r.1 with pkE := r.1.rawE }
  else if isWs r.2 || r.2 == 47 then
    if r.1.rawE = 0 then { r.1 with panic := true } else { r.1 with pkE := r.1.rawE - 1 }
  else if r.2 == 61 || r.2 == 62 then
    let u := r.1.unread 1
    { u with pkE := u.rawE }
  else attrKeyGo r.1
termination_by t.buf.size - t.rawE
decreasing_by exact readByte_decr t _h

/-- `read_tag_name_attr_key` -/
def readTagAttrKey (t : Tokenizer) : Tokenizer :=
  attrKeyGo { t with pkS := t.rawE }

/-- quoted value loop of `read_tag_name_attr_value` -/
def attrValQuotedGo (t : Tokenizer) (quote : Nat) : Tokenizer :=
  let r := t.readByte
  if _h : r.1.err then { r.1 with pvE := r.1.rawE }
  else if r.2 == quote then
    if r.1.rawE = 0 then { r.1 with panic := true } else { r.1 with pvE := r.1.rawE - 1 }
  else attrValQuotedGo r.1 quote
termination_by t.buf.size - t.rawE
decreasing_by exact readByte_decr t _h

/-- unquoted value loop of `read_tag_name_attr_value` -/
def attrValUnquotedGo (t : Tokenizer) : Tokenizer :=
  let r := t.readByte
  if _h : r.1.err then { r.1 with pvE := r.1.rawE }
  else if isWs r.2 then
    if r.1.rawE = 0 then { r.1 with panic := true } else { r.1 with pvE := r.1.rawE - 1 }
  else if r.2 == 62 then
    let u := r.1.unread 1
    { u with pvE := u.rawE }
  else attrValUnquotedGo r.1
termination_by t.buf.size - t.rawE
decreasing_by exact readByte_decr t _h

/-- `read_tag_name_attr_value`, after the `=` was read -/
def attrValRest (t : Tokenizer) : Tokenizer :=
  let t2 := t.skipWhiteSpace
  if t2.err then t2
  else
    let q := t2.readByte
    if q.1.err then q.1
    else if q.2 == 62 then q.1.unread 1
    else if q.2 == 39 || q.2 == 34 then attrValQuotedGo { q.1 with pvS := q.1.rawE } q.2
    else if q.1.rawE = 0 then { q.1 with panic := true }
    else attrValUnquotedGo { q.1 with pvS := q.1.rawE - 1 }

/-- `read_tag_name_attr_value`, after the pending value span was reset -/
def attrValGo (t : Tokenizer) : Tokenizer :=
  let t1 := t.skipWhiteSpace
  if t1.err then t1
  else
    let r := t1.readByte
    if r.1.err then r.1
    else if r.2 != 61 then r.1.unread 1
    else attrValRest r.1

/-- `read_tag_name_attr_value` -/
def readTagAttrVal (t : Tokenizer) : Tokenizer :=
  attrValGo { t with pvS := t.rawE, pvE := t.rawE }

/-- `self.attribute.push(self.pending_attribute.clone())` -/
def pushPending (t : Tokenizer) : Tokenizer :=
  { t with attrs := t.attrs.push ⟨t.pkS, t.pkE, t.pvS, t.pvE⟩ }

/-- one iteration body of the attribute loop of `read_tag`, after the look-ahead byte was unread -/
def readAttr (t : Tokenizer) (saveAttr : Bool) : Tokenizer :=
  let t1 := t.readTagAttrKey
  let t2 := t1.readTagAttrVal
  let t3 := if saveAttr && t2.pkS != t2.pkE then t2.pushPending else t2
  t3.skipWhiteSpace

/-- the attribute `loop` of `read_tag`.  Progress of one iteration depends on the bytes read (a key
may be empty when the next byte is `=`, which the value part then consumes), so the recursion is
guarded by an explicit progress check: no progress = the Rust loop would spin for ever = `hang`. -/
def tagAttrsGo (t : Tokenizer) (saveAttr : Bool) : Tokenizer :=
  let r := t.readByte
  if r.1.err || r.2 == 62 then r.1
  else
    let t1 := readAttr (r.1.unread 1) saveAttr
    if t1.err then t1
    else if _h : t1.buf.size - t1.rawE < t.buf.size - t.rawE then tagAttrsGo t1 saveAttr
    else { t1 with hang := true }
termination_by t.buf.size - t.rawE
decreasing_by exact _h

/-- `read_tag` -/
def readTag (t : Tokenizer) (saveAttr : Bool) : Tokenizer :=
  let t0 := { t with attrs := #[], nAttrRet := 0 }
  let t1 := t0.readTagName
  let t2 := t1.skipWhiteSpace
  if t2.err then t2 else tagAttrsGo t2 saveAttr

/-- `&self.reader[a..b]` (panics unless `a ≤ b ≤ len`) -/
def slice? (t : Tokenizer) (a b : Nat) : Option (List Nat) :=
  if a ≤ b ∧ b ≤ t.buf.size then some (t.buf.extract a b).toList else none

/-- one candidate of `start_tag_in`: `none` = index out of range (panic) -/
def matchLower (t : Tokenizer) (p : Nat) : List Nat → Option Bool
  | [] => some true
  | c :: cs =>
    if h : p < t.buf.size then
      if lowerByte t.buf[p] != c then some false else matchLower t (p + 1) cs
    else none

/-- `start_tag_in`: `none` = panic (`data.end - data.start` underflow or index out of range) -/
def startTagIn (t : Tokenizer) : List (List Nat) → Option Bool
  | [] => some false
  | s :: ss =>
    if t.dataE < t.dataS then none
    else if t.dataE - t.dataS != s.length then startTagIn t ss
    else match matchLower t t.dataS s with
      | none => none
      | some true => some true
      | some false => startTagIn t ss

/-- the `match byte_char` of `read_start_tag` over the regenerated dispatch table -/
def rawLookup (t : Tokenizer) (first : Nat) : List (Nat × List (List Nat)) → Option Bool
  | [] => some false
  | (l, names) :: rest => if first == l then startTagIn t names else rawLookup t first rest

/-- `read_start_tag`: raw-text element detection (`self.raw_tag = ...to_lowercase()`) -/
def startTagRaw (t1 : Tokenizer) : Tokenizer :=
  if h : t1.dataS < t1.buf.size then
    let first := lowerByte t1.buf[t1.dataS]
    match rawLookup t1 first htmlRawDispatch with
    | none => { t1 with panic := true }
    | some false => t1
    | some true =>
      -- `String::from_utf8(self.reader[data.start..data.end].to_vec())?.to_lowercase()`
      match t1.slice? t1.dataS t1.dataE with
      | none => { t1 with panic := true }
      | some bs => if validUtf8 bs then { t1 with rawTag := bs.map lowerByte } else { t1 with utf8Err := true }
  else { t1 with panic := true }

/-- `read_start_tag`: `if self.err.is_none() && self.reader[self.raw.end - 2] == b'/'` -/
def startTagKind (t2 : Tokenizer) : TokenType :=
  if h2 : t2.rawE - 2 < t2.buf.size then
    if !t2.err && t2.buf[t2.rawE - 2] == 47 then .selfClosing else .startTag
  else .error

/-- `read_start_tag` -/
def readStartTag (t : Tokenizer) : Tokenizer × TokenType :=
  let t1 := t.readTag true
  if t1.err then (t1, .error)
  else
    let t2 := t1.startTagRaw
    if t2.panic || t2.utf8Err then (t2, .error)
    else if t2.rawE < 2 || t2.buf.size ≤ t2.rawE - 2 then ({ t2 with panic := true }, .error)
    else (t2, t2.startTagKind)

/-! ### `next` -/

/-- after the `'main` loop -/
def finishText (t : Tokenizer) : Tokenizer :=
  if t.rawS < t.rawE then { t with dataE := t.rawE, token := .text }
  else { t with token := .error }

/-- the body of the `'main` loop of `next` once `<` and a tag-opening byte `c` (letter, `/`, `!`, `?`)
have been read: flush pending text, or read the tag / comment / declaration -/
def dispatchTag (t2 : Tokenizer) (c : Nat) : Tokenizer :=
  -- `let x = self.raw.end - "<a".len();`
  if t2.rawE < htmlTagOpenLen then { t2 with panic := true }
  else
    let x := t2.rawE - htmlTagOpenLen
    if t2.rawS < x then { t2 with rawE := x, dataE := x, token := .text }
    else if isAlpha c then
      let s := t2.readStartTag
      { s.1 with token := s.2 }
    else if c == 47 then
      let r3 := t2.readByte
      if r3.1.err then finishText r3.1
      else if r3.2 == 62 then { r3.1 with token := .comment }
      else if isAlpha r3.2 then
        let t4 := r3.1.readTag false
        if t4.err then { t4 with token := .error } else { t4 with token := .endTag }
      else
        let t4 := (r3.1.unread 1).readUntilCloseAngle
        { t4 with token := .comment }
    else if c == 33 then
      let m := t2.readMarkupDeclaration
      { m.1 with token := m.2 }
    else
      let t4 := (t2.unread 1).readUntilCloseAngle
      { t4 with token := .comment }

/-- the `'main: loop` of `next` -/
def mainLoop (t : Tokenizer) : Tokenizer :=
  let r := t.readByte
  if _h : r.1.err then finishText r.1
  else if r.2 != 60 then mainLoop r.1
  else
    let r2 := r.1.readByte
    if _h2 : r2.1.err then finishText r2.1
    else if !(isAlpha r2.2 || r2.2 == 47 || r2.2 == 33 || r2.2 == 63) then mainLoop (r2.1.unread 1)
    else dispatchTag r2.1 r2.2
termination_by t.buf.size - t.rawE
decreasing_by
  · exact readByte_decr t _h
  · have h1 := readByte_decr t _h
    have h2 := readByte_decr t.readByte.1 _h2
    have hub : (t.readByte.1.readByte.1.unread 1).buf.size = t.readByte.1.readByte.1.buf.size := by rw [unread_buf]
    have hur := unread_rawE t.readByte.1.readByte.1 1
    omega

/-- `Tokenizer::next` after the three span assignments at its top -/
def nextGo (t : Tokenizer) : Tokenizer :=
  if t.err then { t with token := .error }
  else
    let cont (t : Tokenizer) : Tokenizer :=
      mainLoop { t with textIsRaw := false, convertNull := false }
    if t.rawTag != [] then
      let t1 :=
        if t.rawTag == htmlPlaintext then
          let t1 := t.readToEnd
          { t1 with dataE := t1.rawE, textIsRaw := true }
        else t.readRawOrCdata
      if t1.dataE > t1.dataS then { t1 with token := .text, convertNull := true }
      else cont t1
    else cont t

/-- `Tokenizer::next`.  (`Err(FromUtf8Error)` is the flag `utf8Err`; the returned token type is the
field `token`.) -/
def next (t : Tokenizer) : Tokenizer :=
  nextGo { t with rawS := t.rawE, dataS := t.rawE, dataE := t.rawE }

/-! ### construction and accessors -/

/-- `Tokenizer::new` -/
def new (bytes : Array Nat) : Tokenizer := { buf := bytes }

/-- `Tokenizer::new_fragment`; `ctxLower` = bytes of `context_tag.to_lowercase()` -/
def newFragment (bytes : Array Nat) (ctxLower : List Nat) : Tokenizer :=
  if htmlFragmentRawTags.contains ctxLower then { buf := bytes, rawTag := ctxLower } else { buf := bytes }

/-- `allow_cdata` -/
def setAllowCdata (t : Tokenizer) (b : Bool) : Tokenizer := { t with allowCdata := b }

/-- outcome of an accessor: `Err(FromUtf8Error)` or a (would-be) panic are explicit -/
inductive Res (α : Type) where
  | ok (a : α)
  | utf8Err
  | panic
  deriving Repr

/-- `raw()`: `none` = slice out of range (panic) -/
def raw (t : Tokenizer) : Option (List Nat) := t.slice? t.rawS t.rawE

/-- `buffered()`: `none` = slice out of range (panic) -/
def buffered (t : Tokenizer) : Option (List Nat) := t.slice? t.rawE t.buf.size

/-- `s.replace('\x00', "\u{fffd}")` on UTF-8 bytes -/
def replaceNul (bs : List Nat) : List Nat :=
  bs.flatMap fun b => if b == 0 then [239, 191, 189] else [b]

def isTextLike (k : TokenType) : Bool := k == .text || k == .comment || k == .doctype
def isTagLike (k : TokenType) : Bool := k == .startTag || k == .endTag || k == .selfClosing

/-- `text()` → UTF-8 bytes of the returned string -/
def text (t : Tokenizer) : Res (Option (List Nat)) × Tokenizer :=
  if isTextLike t.token then
    match t.slice? t.dataS t.dataE with
    | none => (.panic, { t with panic := true })
    | some bs =>
      if !validUtf8 bs then (.utf8Err, t)
      else
        let t' := { t with dataS := t.rawE, dataE := t.rawE }
        let out := if t.convertNull || (t.token == .text && bs.contains 0) then replaceNul bs else bs
        (.ok (some out), t')
  else (.ok none, t)

/-- `tag_name()` → (name bytes, has_attr).  `String::to_lowercase` is modelled by ASCII lower-casing:
exact for ASCII names; for names with non-ASCII letters Rust applies Unicode lower-casing, which is not
modelled (the correspondence compares such names only up to validity). -/
def tagName (t : Tokenizer) : Res (Option (List Nat) × Bool) × Tokenizer :=
  if t.dataS < t.dataE && isTagLike t.token then
    match t.slice? t.dataS t.dataE with
    | none => (.panic, { t with panic := true })
    | some bs =>
      if !validUtf8 bs then (.utf8Err, t)
      else (.ok (some (bs.map lowerByte), t.nAttrRet < t.attrs.size),
            { t with dataS := t.rawE, dataE := t.rawE })
  else (.ok (none, false), t)

/-- `tag_attr()` → (key bytes lower-cased as in `tagName`, value bytes, has_more).  As in the Rust,
`number_attribute_returned` is incremented before the UTF-8 checks. -/
def tagAttr (t : Tokenizer) : Res (Option (List Nat) × Option (List Nat) × Bool) × Tokenizer :=
  if h : t.nAttrRet < t.attrs.size then
    if t.token == .startTag || t.token == .selfClosing then
      let a := t.attrs[t.nAttrRet]
      let t' := { t with nAttrRet := t.nAttrRet + 1 }
      match t.slice? a.ks a.ke with
      | none => (.panic, { t' with panic := true })
      | some k =>
        if !validUtf8 k then (.utf8Err, t')
        else match t.slice? a.vs a.ve with
          | none => (.panic, { t' with panic := true })
          | some v =>
            if !validUtf8 v then (.utf8Err, t')
            else (.ok (some (k.map lowerByte), some v, t'.nAttrRet < t'.attrs.size), t')
    else (.ok (none, none, false), t)
  else (.ok (none, none, false), t)

/-- the `while has_attr { tag_attr()? }` loop of `token()`: all remaining attributes, or the first
failure -/
def attrsAll (t : Tokenizer) : Res (List (List Nat × List Nat)) × Tokenizer :=
  go (t.attrs.size - t.nAttrRet) t []
where
  go : Nat → Tokenizer → List (List Nat × List Nat) → Res (List (List Nat × List Nat)) × Tokenizer
    | 0, t, acc => (.ok acc.reverse, t)
    | n + 1, t, acc =>
      match t.tagAttr with
      | (.ok (some k, some v, more), t') => if more then go n t' ((k, v) :: acc) else (.ok ((k, v) :: acc).reverse, t')
      | (.ok _, t') => (.ok acc.reverse, t')
      | (.utf8Err, t') => (.utf8Err, t')
      | (.panic, t') => (.panic, t')

/-- Driver convenience: the state after each `next()` up to and including the first `ErrorToken`.
The fuel `size + 2` always suffices (`Rio.C16.token_count_le`). -/
def run (t : Tokenizer) : List Tokenizer :=
  go (t.buf.size + 2) t []
where
  go : Nat → Tokenizer → List Tokenizer → List Tokenizer
    | 0, _, acc => acc.reverse
    | n + 1, t, acc =>
      let t' := t.next
      if t'.token == .error then (t' :: acc).reverse else go n t' (t' :: acc)

end Tokenizer
end Rio.Html
