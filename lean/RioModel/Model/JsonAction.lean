/-
serde representation of everything an agent hands to a proxy: `Action` (src/action/mod.rs) with
`StatusCodeUpdate`, `LogOverride`, `RuleTrace`, `HeaderFilterAction`, `BodyFilterAction`,
`api::HeaderFilter`, the untagged `api::BodyFilter` (`Text` tried before `HTML`), and `Request`
(src/http/request.rs) with `PathAndQueryWithSkipped` and `Header`.

The Lean structures mirror the Rust structs field by field, in declaration order (= the order
`#[derive(Serialize)]` emits and the order the positional form of `#[derive(Deserialize)]`
expects).  `ser*` is the derived `Serialize`; `de*` is the derived `Deserialize` on the value
level (see Model/Json.lean): a struct is accepted as a JSON object (`visit_map`: lookup by name,
duplicates rejected, unknown keys ignored, absent `Option` ⇒ `None`, `#[serde(default)]`) **and**
as a JSON array (`visit_seq`: positional, exact length – an absent trailing `Option` is *not*
defaulted there).  `u16` fields are `UInt16`, sets (`LinkedHashSet<String>`) are lists; the only
well-formedness a serialisable value needs is that its sets are duplicate-free (`Action.WF`).
-/
import RioModel.Model.JsonAtoms

namespace Rio.Json

/-! ### Types -/

/-- `api::HeaderFilter`. -/
structure HeaderFilter where
  action : String
  header : String
  value : String
  id : Option String
  target_hash : Option String
deriving DecidableEq, Repr, Inhabited

/-- `api::HTMLBodyFilter`. -/
structure HtmlBodyFilter where
  action : String
  value : String
  inner_value : Option String
  element_tree : List String
  css_selector : Option String
  id : Option String
  target_hash : Option String
deriving DecidableEq, Repr, Inhabited

/-- `api::TextAction` (`#[serde(rename = "append_text")]` …). -/
inductive TextAction where
  | append | prepend | replace
deriving DecidableEq, Repr, Inhabited

/-- `api::TextBodyFilter`. -/
structure TextBodyFilter where
  action : TextAction
  content : String
  id : Option String
  target_hash : Option String
deriving DecidableEq, Repr, Inhabited

/-- `api::BodyFilter`, `#[serde(untagged)]`, variants in declaration order. -/
inductive BodyFilter where
  | text (t : TextBodyFilter)
  | html (h : HtmlBodyFilter)
deriving DecidableEq, Repr, Inhabited

/-- `action::StatusCodeUpdate`. -/
structure StatusCodeUpdate where
  status_code : UInt16
  on_response_status_codes : List UInt16
  exclude_response_status_codes : Bool
  fallback_status_code : UInt16
  rule_id : Option String
  fallback_rule_id : Option String
  unit_id : Option String
  target_hash : Option String
deriving DecidableEq, Repr, Inhabited

/-- `action::log_override::LogOverride`. -/
structure LogOverride where
  log_override : Bool
  rule_id : Option String
  on_response_status_codes : List UInt16
  exclude_response_status_codes : Bool
  fallback_log_override : Option Bool
  fallback_rule_id : Option String
  unit_id : Option String
deriving DecidableEq, Repr, Inhabited

/-- `action::RuleTrace`. -/
structure RuleTrace where
  id : String
  on_response_status_codes : List UInt16
  exclude_response_status_codes : Bool
deriving DecidableEq, Repr, Inhabited

/-- `action::HeaderFilterAction`. -/
structure HeaderFilterAction where
  filter : HeaderFilter
  on_response_status_codes : List UInt16
  exclude_response_status_codes : Bool
  rule_id : Option String
deriving DecidableEq, Repr, Inhabited

/-- `action::BodyFilterAction`. -/
structure BodyFilterAction where
  filter : BodyFilter
  on_response_status_codes : List UInt16
  exclude_response_status_codes : Bool
  rule_id : Option String
deriving DecidableEq, Repr, Inhabited

/-- `action::Action`. -/
structure Action where
  status_code_update : Option StatusCodeUpdate
  header_filters : List HeaderFilterAction
  body_filters : List BodyFilterAction
  rule_ids : List String
  rule_traces : List RuleTrace
  rules_applied : List String
  log_override : Option LogOverride
deriving DecidableEq, Repr, Inhabited

/-- The representation invariant of the two `LinkedHashSet`s. -/
def Action.WF (a : Action) : Prop := a.rule_ids.Nodup ∧ a.rules_applied.Nodup

instance (a : Action) : Decidable a.WF := by unfold Action.WF; exact inferInstance

/-- `http::Header`. -/
structure Header where
  name : String
  value : String
deriving DecidableEq, Repr, Inhabited

/-- `http::PathAndQueryWithSkipped`. -/
structure PathAndQuery where
  path_and_query : String
  path_and_query_matching : Option String
  skipped_query_params : Option String
  original : String
deriving DecidableEq, Repr, Inhabited

/-- `http::Request`.  `remote_addr` (`std::net::IpAddr`) and `created_at`
(`chrono::DateTime<Utc>`) are the concrete values of Model/JsonAtoms.lean; they travel as the strings
their `Display` / `Serialize` impls print (`showIp`, `showDt`). -/
structure Request where
  path_and_query_skipped : PathAndQuery
  path_and_query : Option String
  host : Option String
  scheme : Option String
  method : Option String
  headers : List Header
  remote_addr : Option Ip
  created_at : Option DateTime
  sampling_override : Option Bool
deriving DecidableEq, Repr, Inhabited

/-- The real atom parsers as an ORACLE for spellings the concrete readers of Model/JsonAtoms.lean do not
cover (they read canonical texts only; `IpAddr::from_str` and chrono's RFC 3339 reader accept more:
upper-case hex, uncompressed IPv6, offsets, a space for `T` …): each maps a text to the canonical text
of the value it denotes.  No law is assumed of the oracle: the round-trip theorems never consult it. -/
structure Codec where
  parseIp : String → Option String
  parseDt : String → Option String

/-- `IpAddr::from_str`: the concrete reader first, otherwise the oracle's canonical text read concretely. -/
def readIp (P : Codec) (s : String) : Option Ip :=
  match parseIp s.toList with
  | some x => some x
  | none => (P.parseIp s).bind fun c => parseIp c.toList

/-- `DateTime<Utc>`'s `Deserialize` (RFC 3339, converted to UTC). -/
def readDt (P : Codec) (s : String) : Option DateTime :=
  match parseDt s.toList with
  | some d => some d
  | none => (P.parseDt s).bind fun c => parseDt c.toList

/-- The representation invariant of `DateTime<Utc>`: the calendar fields denote an instant chrono can
represent.  (Nothing is required of the address.) -/
def Request.WF (q : Request) : Prop := ∀ d, q.created_at = some d → d.Valid

instance (q : Request) : Decidable q.WF := by
  unfold Request.WF
  cases q.created_at with
  | none => exact isTrue (by intro d h; cases h)
  | some d =>
    exact if h : d.Valid then isTrue (by intro d' h'; cases h'; exact h)
          else isFalse (fun hh => h (hh d rfl))

/-! ### Serialisation (`#[derive(Serialize)]`: every field, declaration order) -/

def serHeaderFilter (f : HeaderFilter) : Json :=
  .obj [("action", .str f.action), ("header", .str f.header), ("value", .str f.value),
        ("id", serOption .str f.id), ("target_hash", serOption .str f.target_hash)]

def serHtmlBodyFilter (f : HtmlBodyFilter) : Json :=
  .obj [("action", .str f.action), ("value", .str f.value),
        ("inner_value", serOption .str f.inner_value),
        ("element_tree", serVec .str f.element_tree),
        ("css_selector", serOption .str f.css_selector),
        ("id", serOption .str f.id), ("target_hash", serOption .str f.target_hash)]

def TextAction.name : TextAction → String
  | .append => "append_text"
  | .prepend => "prepend_text"
  | .replace => "replace_text"

def serTextBodyFilter (f : TextBodyFilter) : Json :=
  .obj [("action", .str f.action.name), ("content", .str f.content),
        ("id", serOption .str f.id), ("target_hash", serOption .str f.target_hash)]

/-- untagged: the variant's own representation, nothing added. -/
def serBodyFilter : BodyFilter → Json
  | .text t => serTextBodyFilter t
  | .html h => serHtmlBodyFilter h

def serStatusCodeUpdate (s : StatusCodeUpdate) : Json :=
  .obj [("status_code", serU16 s.status_code),
        ("on_response_status_codes", serVec serU16 s.on_response_status_codes),
        ("exclude_response_status_codes", .bool s.exclude_response_status_codes),
        ("fallback_status_code", serU16 s.fallback_status_code),
        ("rule_id", serOption .str s.rule_id),
        ("fallback_rule_id", serOption .str s.fallback_rule_id),
        ("unit_id", serOption .str s.unit_id),
        ("target_hash", serOption .str s.target_hash)]

def serLogOverride (l : LogOverride) : Json :=
  .obj [("log_override", .bool l.log_override),
        ("rule_id", serOption .str l.rule_id),
        ("on_response_status_codes", serVec serU16 l.on_response_status_codes),
        ("exclude_response_status_codes", .bool l.exclude_response_status_codes),
        ("fallback_log_override", serOption .bool l.fallback_log_override),
        ("fallback_rule_id", serOption .str l.fallback_rule_id),
        ("unit_id", serOption .str l.unit_id)]

def serRuleTrace (t : RuleTrace) : Json :=
  .obj [("id", .str t.id),
        ("on_response_status_codes", serVec serU16 t.on_response_status_codes),
        ("exclude_response_status_codes", .bool t.exclude_response_status_codes)]

def serHeaderFilterAction (f : HeaderFilterAction) : Json :=
  .obj [("filter", serHeaderFilter f.filter),
        ("on_response_status_codes", serVec serU16 f.on_response_status_codes),
        ("exclude_response_status_codes", .bool f.exclude_response_status_codes),
        ("rule_id", serOption .str f.rule_id)]

def serBodyFilterAction (f : BodyFilterAction) : Json :=
  .obj [("filter", serBodyFilter f.filter),
        ("on_response_status_codes", serVec serU16 f.on_response_status_codes),
        ("exclude_response_status_codes", .bool f.exclude_response_status_codes),
        ("rule_id", serOption .str f.rule_id)]

def serAction (a : Action) : Json :=
  .obj [("status_code_update", serOption serStatusCodeUpdate a.status_code_update),
        ("header_filters", serVec serHeaderFilterAction a.header_filters),
        ("body_filters", serVec serBodyFilterAction a.body_filters),
        ("rule_ids", serSet a.rule_ids),
        ("rule_traces", serVec serRuleTrace a.rule_traces),
        ("rules_applied", serSet a.rules_applied),
        ("log_override", serOption serLogOverride a.log_override)]

def serHeader (h : Header) : Json :=
  .obj [("name", .str h.name), ("value", .str h.value)]

def serPathAndQuery (p : PathAndQuery) : Json :=
  .obj [("path_and_query", .str p.path_and_query),
        ("path_and_query_matching", serOption .str p.path_and_query_matching),
        ("skipped_query_params", serOption .str p.skipped_query_params),
        ("original", .str p.original)]

/-- `#[serde(rename = "path_and_query")] path_and_query_skipped`,
`#[serde(rename = "path_and_query_v2")] path_and_query`. -/
def serRequest (q : Request) : Json :=
  .obj [("path_and_query", serPathAndQuery q.path_and_query_skipped),
        ("path_and_query_v2", serOption .str q.path_and_query),
        ("host", serOption .str q.host),
        ("scheme", serOption .str q.scheme),
        ("method", serOption .str q.method),
        ("headers", serVec serHeader q.headers),
        ("remote_addr", serOption (fun x => .str (String.ofList (showIp x))) q.remote_addr),
        ("created_at", serOption (fun d => .str (String.ofList (showDt d))) q.created_at),
        ("sampling_override", serOption .bool q.sampling_override)]

/-! ### Deserialisation (`#[derive(Deserialize)]`) -/

def deHeaderFilter : Json → Option HeaderFilter
  | .obj kvs => do
    let action ← reqField deString kvs "action"
    let header ← reqField deString kvs "header"
    let value ← reqField deString kvs "value"
    let id ← optField deString kvs "id"
    let target_hash ← optField deString kvs "target_hash"
    pure ⟨action, header, value, id, target_hash⟩
  | .arr [a, h, v, i, t] => do
    let action ← deString a
    let header ← deString h
    let value ← deString v
    let id ← deOption deString i
    let target_hash ← deOption deString t
    pure ⟨action, header, value, id, target_hash⟩
  | _ => none

def deHtmlBodyFilter : Json → Option HtmlBodyFilter
  | .obj kvs => do
    let action ← reqField deString kvs "action"
    let value ← reqField deString kvs "value"
    let inner_value ← optField deString kvs "inner_value"
    let element_tree ← reqField (deVec deString) kvs "element_tree"
    let css_selector ← optField deString kvs "css_selector"
    let id ← optField deString kvs "id"
    let target_hash ← optField deString kvs "target_hash"
    pure ⟨action, value, inner_value, element_tree, css_selector, id, target_hash⟩
  | .arr [a, v, iv, et, cs, i, t] => do
    let action ← deString a
    let value ← deString v
    let inner_value ← deOption deString iv
    let element_tree ← deVec deString et
    let css_selector ← deOption deString cs
    let id ← deOption deString i
    let target_hash ← deOption deString t
    pure ⟨action, value, inner_value, element_tree, css_selector, id, target_hash⟩
  | _ => none

def TextAction.ofName (s : String) : Option TextAction :=
  if s == "append_text" then some .append
  else if s == "prepend_text" then some .prepend
  else if s == "replace_text" then some .replace
  else none

/-- A unit-variant enum: the variant name as a string, or the externally tagged map form
`{"<variant>": null}` with exactly one entry. -/
def deTextAction : Json → Option TextAction
  | .str s => TextAction.ofName s
  | .obj [(k, .null)] => TextAction.ofName k
  | _ => none

def deTextBodyFilter : Json → Option TextBodyFilter
  | .obj kvs => do
    let action ← reqField deTextAction kvs "action"
    let content ← reqField deString kvs "content"
    let id ← optField deString kvs "id"
    let target_hash ← optField deString kvs "target_hash"
    pure ⟨action, content, id, target_hash⟩
  | .arr [a, c, i, t] => do
    let action ← deTextAction a
    let content ← deString c
    let id ← deOption deString i
    let target_hash ← deOption deString t
    pure ⟨action, content, id, target_hash⟩
  | _ => none

/-- `#[serde(untagged)] enum BodyFilter { Text(..), HTML(..) }`: buffer the value, try `Text`,
then `HTML`, else "data did not match any variant".  `base` = number of enclosing containers.
Buffering *reads* every token of the value, also those under unknown keys: a skippable-only token
(`junk`) anywhere inside is an error. -/
def deBodyFilter (base : Nat) (j : Json) : Option BodyFilter :=
  if hasJunk j || base + depth j > recursionLimit then none
  else
    match deTextBodyFilter j with
    | some t => some (.text t)
    | none =>
      match deHtmlBodyFilter j with
      | some h => some (.html h)
      | none => none

def deStatusCodeUpdate : Json → Option StatusCodeUpdate
  | .obj kvs => do
    let status_code ← reqField deU16 kvs "status_code"
    let codes ← reqField (deVec deU16) kvs "on_response_status_codes"
    let exclude ← reqField deBool kvs "exclude_response_status_codes"
    let fallback_status_code ← reqField deU16 kvs "fallback_status_code"
    let rule_id ← optField deString kvs "rule_id"
    let fallback_rule_id ← optField deString kvs "fallback_rule_id"
    let unit_id ← optField deString kvs "unit_id"
    let target_hash ← optField deString kvs "target_hash"
    pure ⟨status_code, codes, exclude, fallback_status_code, rule_id, fallback_rule_id, unit_id, target_hash⟩
  | .arr [sc, cs, ex, fb, r, fr, u, t] => do
    let status_code ← deU16 sc
    let codes ← deVec deU16 cs
    let exclude ← deBool ex
    let fallback_status_code ← deU16 fb
    let rule_id ← deOption deString r
    let fallback_rule_id ← deOption deString fr
    let unit_id ← deOption deString u
    let target_hash ← deOption deString t
    pure ⟨status_code, codes, exclude, fallback_status_code, rule_id, fallback_rule_id, unit_id, target_hash⟩
  | _ => none

def deLogOverride : Json → Option LogOverride
  | .obj kvs => do
    let log_override ← reqField deBool kvs "log_override"
    let rule_id ← optField deString kvs "rule_id"
    let codes ← reqField (deVec deU16) kvs "on_response_status_codes"
    let exclude ← reqField deBool kvs "exclude_response_status_codes"
    let fallback_log_override ← optField deBool kvs "fallback_log_override"
    let fallback_rule_id ← optField deString kvs "fallback_rule_id"
    let unit_id ← optField deString kvs "unit_id"
    pure ⟨log_override, rule_id, codes, exclude, fallback_log_override, fallback_rule_id, unit_id⟩
  | .arr [l, r, cs, ex, fl, fr, u] => do
    let log_override ← deBool l
    let rule_id ← deOption deString r
    let codes ← deVec deU16 cs
    let exclude ← deBool ex
    let fallback_log_override ← deOption deBool fl
    let fallback_rule_id ← deOption deString fr
    let unit_id ← deOption deString u
    pure ⟨log_override, rule_id, codes, exclude, fallback_log_override, fallback_rule_id, unit_id⟩
  | _ => none

def deRuleTrace : Json → Option RuleTrace
  | .obj kvs => do
    let id ← reqField deString kvs "id"
    let codes ← reqField (deVec deU16) kvs "on_response_status_codes"
    let exclude ← reqField deBool kvs "exclude_response_status_codes"
    pure ⟨id, codes, exclude⟩
  | .arr [i, cs, ex] => do
    let id ← deString i
    let codes ← deVec deU16 cs
    let exclude ← deBool ex
    pure ⟨id, codes, exclude⟩
  | _ => none

def deHeaderFilterAction : Json → Option HeaderFilterAction
  | .obj kvs => do
    let filter ← reqField deHeaderFilter kvs "filter"
    let codes ← reqField (deVec deU16) kvs "on_response_status_codes"
    let exclude ← reqField deBool kvs "exclude_response_status_codes"
    let rule_id ← optField deString kvs "rule_id"
    pure ⟨filter, codes, exclude, rule_id⟩
  | .arr [f, cs, ex, r] => do
    let filter ← deHeaderFilter f
    let codes ← deVec deU16 cs
    let exclude ← deBool ex
    let rule_id ← deOption deString r
    pure ⟨filter, codes, exclude, rule_id⟩
  | _ => none

/-- `base` = number of containers enclosing this value. -/
def deBodyFilterAction (base : Nat) : Json → Option BodyFilterAction
  | .obj kvs => do
    let filter ← reqField (deBodyFilter (base + 1)) kvs "filter"
    let codes ← reqField (deVec deU16) kvs "on_response_status_codes"
    let exclude ← reqField deBool kvs "exclude_response_status_codes"
    let rule_id ← optField deString kvs "rule_id"
    pure ⟨filter, codes, exclude, rule_id⟩
  | .arr [f, cs, ex, r] => do
    let filter ← deBodyFilter (base + 1) f
    let codes ← deVec deU16 cs
    let exclude ← deBool ex
    let rule_id ← deOption deString r
    pure ⟨filter, codes, exclude, rule_id⟩
  | _ => none

/-- `Action` at the top level of a document (`serde_json::from_str::<Action>`).
`rule_traces` and `rules_applied` are `#[serde(default)]`; in the positional form the last
field (`log_override`, an `Option` without `default`) is mandatory, so exactly 7 elements. -/
def deAction : Json → Option Action
  | .obj kvs => do
    let status_code_update ← optField deStatusCodeUpdate kvs "status_code_update"
    let header_filters ← reqField (deVec deHeaderFilterAction) kvs "header_filters"
    let body_filters ← reqField (deVec (deBodyFilterAction 2)) kvs "body_filters"
    let rule_ids ← reqField deSet kvs "rule_ids"
    let rule_traces ← defaultField (deVec deRuleTrace) [] kvs "rule_traces"
    let rules_applied ← defaultField deSet [] kvs "rules_applied"
    let log_override ← optField deLogOverride kvs "log_override"
    pure ⟨status_code_update, header_filters, body_filters, rule_ids, rule_traces, rules_applied, log_override⟩
  | .arr [s, hf, bf, ri, rt, ra, lo] => do
    let status_code_update ← deOption deStatusCodeUpdate s
    let header_filters ← deVec deHeaderFilterAction hf
    let body_filters ← deVec (deBodyFilterAction 2) bf
    let rule_ids ← deSet ri
    let rule_traces ← deVec deRuleTrace rt
    let rules_applied ← deSet ra
    let log_override ← deOption deLogOverride lo
    pure ⟨status_code_update, header_filters, body_filters, rule_ids, rule_traces, rules_applied, log_override⟩
  | _ => none

def deHeader : Json → Option Header
  | .obj kvs => do
    let name ← reqField deString kvs "name"
    let value ← reqField deString kvs "value"
    pure ⟨name, value⟩
  | .arr [n, v] => do
    let name ← deString n
    let value ← deString v
    pure ⟨name, value⟩
  | _ => none

def dePathAndQuery : Json → Option PathAndQuery
  | .obj kvs => do
    let path_and_query ← reqField deString kvs "path_and_query"
    let matching ← optField deString kvs "path_and_query_matching"
    let skipped ← optField deString kvs "skipped_query_params"
    let original ← reqField deString kvs "original"
    pure ⟨path_and_query, matching, skipped, original⟩
  | .arr [p, m, s, o] => do
    let path_and_query ← deString p
    let matching ← deOption deString m
    let skipped ← deOption deString s
    let original ← deString o
    pure ⟨path_and_query, matching, skipped, original⟩
  | _ => none

/-- an atom travels as a JSON string handed to its parser. -/
def deAtom {α : Type} (parse : String → Option α) : Json → Option α
  | .str s => parse s
  | _ => none

def deRequest (P : Codec) : Json → Option Request
  | .obj kvs => do
    let paq ← reqField dePathAndQuery kvs "path_and_query"
    let v2 ← optField deString kvs "path_and_query_v2"
    let host ← optField deString kvs "host"
    let scheme ← optField deString kvs "scheme"
    let method ← optField deString kvs "method"
    let headers ← reqField (deVec deHeader) kvs "headers"
    let remote_addr ← optField (deAtom (readIp P)) kvs "remote_addr"
    let created_at ← optField (deAtom (readDt P)) kvs "created_at"
    let sampling_override ← optField deBool kvs "sampling_override"
    pure ⟨paq, v2, host, scheme, method, headers, remote_addr, created_at, sampling_override⟩
  | .arr [p, v, h, s, m, hs, ra, ca, so] => do
    let paq ← dePathAndQuery p
    let v2 ← deOption deString v
    let host ← deOption deString h
    let scheme ← deOption deString s
    let method ← deOption deString m
    let headers ← deVec deHeader hs
    let remote_addr ← deOption (deAtom (readIp P)) ra
    let created_at ← deOption (deAtom (readDt P)) ca
    let sampling_override ← deOption deBool so
    pure ⟨paq, v2, host, scheme, method, headers, remote_addr, created_at, sampling_override⟩
  | _ => none

/-! ### `from_str`: the reader, then the derived `Deserialize` -/

/-- `serde_json::from_str::<Action>` on a document. -/
def deActionText (cs : List Char) : Option Action := (parseText cs).bind deAction

/-- `serde_json::from_str::<Request>`. -/
def deRequestText (P : Codec) (cs : List Char) : Option Request := (parseText cs).bind (deRequest P)

/-- `serde_json::from_str` into a type that keeps everything (`deserialize_any`: serde_json's
own `Value`, or the harness's ordered tree): every token is *read*, so junk and nesting beyond
the recursion limit are errors. -/
def parseAny (cs : List Char) : Option Json :=
  match parseText cs with
  | some j => if hasJunk j || depth j > recursionLimit then none else some j
  | none => none

end Rio.Json
