/-
Model of the marker pipeline around `MarkerString` (C10): transformers (`src/marker/transformer/*.rs`,
`src/api/transformer.rs`), api markers / variables (`src/api/{marker,variable}.rs`), `Rule::markers`,
`Rule::path_and_query` / `host` / `headers` (marker part), `Rule::variables` (`src/api/rule.rs`),
`Route::capture` (`src/router/route.rs`), the marker-relevant part of matching one rule, and the places where
`StaticOrDynamic::replace` is applied in `Action::from_route_rule` / `get_target` (`src/action/mod.rs`).

The regex engine is a parameter (`Engine`); `str::to_lowercase` / `to_uppercase` and the three `heck`
conversions are parameters of the theorems too (`CaseFns`), with ASCII stand-ins for the driver.
-/
import RioModel.Model.Marker
import RioModel.Generated.Consts

namespace Rio.Marker

/-! ### UTF-8 byte offsets (for `Slice`) -/

/-- `str::is_char_boundary(i)` for `i ≤ len`: `i` is the byte length of a prefix. -/
def isBoundary : Str → Nat → Bool
  | _, 0 => true
  | [], _ + 1 => false
  | c :: cs, i + 1 => decide (c.utf8Size ≤ i + 1) && isBoundary cs (i + 1 - c.utf8Size)

/-- Drop the chars that start before byte offset `i`. -/
def dropBytes : Str → Nat → Str
  | s, 0 => s
  | [], _ + 1 => []
  | c :: cs, i + 1 => dropBytes cs (i + 1 - c.utf8Size)

/-- Keep the chars that end at or before byte offset `i`. -/
def takeBytes : Str → Nat → Str
  | _, 0 => []
  | [], _ + 1 => []
  | c :: cs, i + 1 => if c.utf8Size ≤ i + 1 then c :: takeBytes cs (i + 1 - c.utf8Size) else []

/-- `str.get(a..b)` -/
def strGet (s : Str) (a b : Nat) : Option Str :=
  if a ≤ b ∧ b ≤ blen s ∧ isBoundary s a = true ∧ isBoundary s b = true then
    some (takeBytes (dropBytes s a) (b - a))
  else none

/-- `impl Transform for Slice` after the repair of D7 (`str.get(from..to).unwrap_or_default()`). -/
def sliceT (from_ : Nat) (to : Option Nat) (s : Str) : Str :=
  let to0 := to.getD (blen s)
  if from_ > blen s then []
  else
    let to1 := if to0 > blen s then blen s else to0
    (strGet s from_ to1).getD []

/-! ### Case functions -/

/-- The library functions the case transformers call. -/
structure CaseFns where
  lower : Str → Str          -- str::to_lowercase
  upper : Str → Str          -- str::to_uppercase
  camel : Str → Str          -- heck::ToLowerCamelCase
  kebab : Str → Str          -- heck::ToKebabCase
  snake : Str → Str          -- heck::ToSnakeCase

def isLowerA (c : Char) : Bool := decide ('a' ≤ c) && decide (c ≤ 'z')
def isUpperA (c : Char) : Bool := decide ('A' ≤ c) && decide (c ≤ 'Z')
def isDigitA (c : Char) : Bool := decide ('0' ≤ c) && decide (c ≤ '9')
/-- `char::is_alphanumeric`: ASCII exact; the generator only uses non-ASCII chars that are uncased letters. -/
def isAlnum (c : Char) : Bool := isLowerA c || isUpperA c || isDigitA c || decide (c.toNat ≥ 128)
def lowerA (s : Str) : Str := s.map Char.toLower
def upperA (s : Str) : Str := s.map Char.toUpper

/-- `s.split(|c| !c.is_alphanumeric())` (empty pieces included) -/
def splitWords : Str → Str → List Str
  | [], cur => [cur.reverse]
  | c :: cs, cur => if isAlnum c then splitWords cs (c :: cur) else cur.reverse :: splitWords cs []

inductive WordMode where
  | boundary | lowercase | uppercase
deriving DecidableEq

/-- The `while let` loop of heck's `transform` over one alphanumeric run: returns the sub-words.
`cur` = chars of the sub-word being collected (reversed), `mode` as in the source. -/
def heckWord : Str → Str → WordMode → List Str
  | [], _, _ => []
  | [c], cur, _ => [(c :: cur).reverse]                      -- trailing characters
  | c :: next :: rest, cur, mode =>
    let nextMode := if isLowerA c then WordMode.lowercase else if isUpperA c then WordMode.uppercase else mode
    if nextMode = .lowercase && isUpperA next then
      (c :: cur).reverse :: heckWord (next :: rest) [] .boundary
    else if mode = .uppercase && isUpperA c && isLowerA next then
      cur.reverse :: heckWord (next :: rest) [c] .boundary
    else heckWord (next :: rest) (c :: cur) nextMode

/-- All sub-words heck hands to `with_word`, in order. -/
def heckWords (s : Str) : List Str := (splitWords s []).flatMap fun w => heckWord w [] .boundary

def capitalizeA : Str → Str
  | [] => []
  | c :: cs => c.toUpper :: lowerA cs

def joinWith (sep : Str) : List Str → Str
  | [] => []
  | [w] => w
  | w :: ws => w ++ sep ++ joinWith sep ws

def kebabA (s : Str) : Str := joinWith ['-'] ((heckWords s).map lowerA)
def snakeA (s : Str) : Str := joinWith ['_'] ((heckWords s).map lowerA)
def camelA (s : Str) : Str :=
  match heckWords s with
  | [] => []
  | w :: ws => lowerA w ++ (ws.flatMap capitalizeA)

/-- ASCII stand-ins used by the driver. -/
def asciiCase : CaseFns := ⟨lowerA, upperA, camelA, kebabA, snakeA⟩

/-! ### Transformers -/

/-- `api::Transformer` (JSON: `type`, `options`). -/
structure Transformer where
  kind : Option Str
  options : Option (List (Str × Str))
deriving Repr, DecidableEq

inductive Transform where
  | camelize | dasherize | lowercase | underscorize | uppercase
  | replace (something with_ : Str)
  | slice (from_ : Nat) (to : Option Nat)
deriving Repr, DecidableEq

/-- `usize::from_str` (64-bit): optional `+`, at least one ASCII digit, no overflow. -/
def parseUsize (s : Str) : Option Nat :=
  let ds := match s with
    | '+' :: rest => rest
    | _ => s
  if ds.isEmpty || !ds.all isDigitA then none
  else
    let n := ds.foldl (fun acc c => acc * 10 + (c.toNat - '0'.toNat)) 0
    if n < 2 ^ 64 then some n else none

/-- `Transformer::to_transform`; `none` = the transformer is skipped. -/
def Transformer.toTransform (t : Transformer) : Option Transform :=
  match t.kind with
  | none => none
  | some k =>
    if k = "camelize".toList then some .camelize
    else if k = "dasherize".toList then some .dasherize
    else if k = "lowercase".toList then some .lowercase
    else if k = "replace".toList then
      match t.options with
      | none => none
      | some o =>
        match o.lookup "something".toList, o.lookup "with".toList with
        | some a, some b => some (.replace a b)
        | _, _ => none
    else if k = "slice".toList then
      match t.options with
      | none => none
      | some o =>
        match o.lookup "from".toList, o.lookup "to".toList with
        | some a, some b => some (.slice ((parseUsize a).getD 0) (parseUsize b))
        | _, _ => none
    else if k = "underscorize".toList then some .underscorize
    else if k = "uppercase".toList then some .uppercase
    else none

/-- `Transform::transform` -/
def Transform.apply (cf : CaseFns) : Transform → Str → Str
  | .camelize, s => cf.camel s
  | .dasherize, s => cf.kebab s
  | .lowercase, s => cf.lower s
  | .underscorize, s => cf.snake s
  | .uppercase, s => cf.upper s
  | .replace a b, s => strReplace a b s
  | .slice f t, s => sliceT f t s

/-- The loop `for transformer in &self.transformers { match to_transform() { None => (), Some(t) => value = t.transform(value) } }`
(`api::Marker::transform` and the tail of `Variable::get_value`). -/
def applyTransformers (cf : CaseFns) (ts : List Transformer) (v : Str) : Str :=
  ts.foldl (fun acc t => match t.toTransform with
    | none => acc
    | some tr => tr.apply cf acc) v

/-! ### Rule, request -/

/-- `api::Marker` -/
structure ApiMarker where
  name : Str
  regex : Str
  transformers : List Transformer
deriving Repr

inductive VarKind where
  | marker (name : Str)
  | requestHeader (name : Str) (default : Option Str)
  | requestHost | requestMethod | requestPath | requestScheme | requestRemoteAddress | requestTime
deriving Repr

/-- `api::Variable` -/
structure Variable where
  name : Str
  kind : VarKind
  transformers : List Transformer
deriving Repr

/-- The part of `api::Rule` that C10 is about; every header trigger is `match_regex`. -/
structure Rule where
  path : Str
  host : Option Str
  headers : List (Str × Str)          -- (name, value template)
  markers : List ApiMarker
  variables : List Variable
  target : Option Str
  headerFilters : List Str            -- value templates of the custom header filters
  bodyFilters : List Str              -- content templates of the text body filters
  htmlFilters : List (Str × Option Str) := []   -- (value, inner_value) templates of the html body filters
deriving Repr

structure Config where
  ignorePathCase : Bool
  ignoreHostCase : Bool
  ignoreHeaderCase : Bool
deriving Repr

/-- `request.created_at`: the year and chrono's two renderings (`to_rfc2822` panics outside years 0..=9999, so the
code picks by year; the renderings themselves are a table for the model). -/
structure TimeInfo where
  year : Int
  rfc2822 : Str
  rfc3339 : Str
deriving Repr

/-- `http::Request` as built by `Request::from_config` + `add_header(.., ignore_header_case)` for a path without
query string. -/
structure Request where
  original : Str                      -- path_and_query_skipped.original
  path : Str                          -- path_and_query_skipped.path_and_query (sanitised)
  matching : Str                      -- path_and_query_skipped.path_and_query_matching
  host : Option Str
  scheme : Option Str
  method : Option Str
  headers : List (Str × Str)
  remoteAddr : Option Str := none     -- `remote_addr.to_string()`
  createdAt : Option TimeInfo := none
deriving Repr

/-- What the model needs from the `regex` crate. -/
structure Engine where
  /-- `RegexBuilder::new("^p$").case_insensitive(ic)` compiles and `is_match(s)` (tree leaf). -/
  full : Bool → Str → Str → Bool
  /-- `Regex::new(p)` compiles and `is_match(s)` (unanchored; header `match_regex`). -/
  search : Str → Str → Bool
  /-- `RegexBuilder::new("^p$").case_insensitive(ic)`: `captures(s)` restricted to the named groups that
  participated; `none` = does not compile or does not match. -/
  caps : Bool → Str → Str → Option (List (Str × Str))

/-! percent-encoding -/

def hexDigitU (n : Nat) : Char := if n < 10 then Char.ofNat (n + 48) else Char.ofNat (n - 10 + 65)

def utf8Bytes (c : Char) : List Nat := (String.singleton c).toUTF8.toList.map (·.toNat)

/-- `utf8_percent_encode(s, CONTROLS.add(extra…))` -/
def pctEncode (extra : List Nat) (s : Str) : Str :=
  s.flatMap fun c =>
    let n := c.toNat
    if n < 32 || n = 127 || n ≥ 128 || extra.contains n then
      (utf8Bytes c).flatMap fun b => ['%', hexDigitU (b / 16), hexDigitU (b % 16)]
    else [c]

/-- `Rule::markers()` as `(name, regex)` pairs. -/
def Rule.routeMarkers (r : Rule) : List (Str × Str) :=
  r.markers.map fun m => (m.name, pctEncode Rio.Consts.markerRegexEncodeSet m.regex)

/-- `Rule::path_and_query` without query. -/
def Rule.pathSoD (cf : CaseFns) (r : Rule) (cfg : Config) : StaticOrDynamic :=
  .newWithMarkers cf.lower (pctEncode Rio.Consts.markerPathEncodeSet r.path) r.routeMarkers cfg.ignorePathCase

/-- `Rule::host` -/
def Rule.hostSoD (cf : CaseFns) (r : Rule) (cfg : Config) : Option StaticOrDynamic :=
  r.host.map fun h => .newWithMarkers cf.lower h r.routeMarkers cfg.ignoreHostCase

/-- `Rule::headers`: a `match_regex` trigger whose value uses no marker is dropped (`None => continue`). -/
def Rule.routeHeaders (r : Rule) (cfg : Config) : List (Str × MarkerString) :=
  r.headers.filterMap fun h => (MarkerString.new h.2 r.routeMarkers cfg.ignoreHeaderCase).map fun m => (h.1, m)

/-- `Request::from_config` (+ `add_header`) for a path without `?`. -/
def Request.fromConfig (cf : CaseFns) (cfg : Config) (path : Str) (host scheme method : Option Str)
    (headers : List (Str × Str)) : Request :=
  let url := pctEncode Rio.Consts.encSetQueryRsUrlEncodeSet path
  { original := path
    path := url
    matching := if cfg.ignorePathCase then cf.lower url else url
    host := host.map fun h => if cfg.ignoreHostCase then cf.lower h else h
    scheme := scheme
    method := method
    headers := headers.map fun h => (h.1, if cfg.ignoreHeaderCase then cf.lower h.2 else h.2) }

/-- `Request::header_values(name)` -/
def Request.headerValues (cf : CaseFns) (q : Request) (name : Str) : List Str :=
  (q.headers.filter fun h => cf.lower h.1 == cf.lower name).map (·.2)

/-- Does the one rule match the request (path, host and header layers of the router)? -/
def Rule.matches (E : Engine) (cf : CaseFns) (r : Rule) (cfg : Config) (q : Request) : Bool :=
  let pathOk := match r.pathSoD cf cfg with
    | .static s => s == q.matching
    | .dynamic m => E.full cfg.ignorePathCase m.regex q.matching
  let hostOk := match r.hostSoD cf cfg with
    | none => true
    | some (.static s) => s.isEmpty || q.host == some s
    | some (.dynamic m) => match q.host with
      | some h => E.full cfg.ignoreHostCase m.regex h
      | none => false
  let hdrOk := (r.routeHeaders cfg).all fun h => (q.headerValues cf h.1).any fun v => E.search h.2.regex v
  pathOk && hostOk && hdrOk

/-- `HashMap::extend`: later entries overwrite. -/
def extendMap (m : List (Str × Str)) (kv : List (Str × Str)) : List (Str × Str) :=
  kv.foldl (fun acc p => (acc.filter fun e => e.1 != p.1) ++ [p]) m

def capOf (E : Engine) (m : MarkerString) (s : Str) : List (Str × Str) :=
  (E.caps m.ignoreCase m.capture s).getD []

def sodCapture (E : Engine) : StaticOrDynamic → Str → List (Str × Str)
  | .static _, _ => []
  | .dynamic m, s => capOf E m s

/-- `Route::capture` -/
def Rule.capture (E : Engine) (cf : CaseFns) (r : Rule) (cfg : Config) (q : Request) : List (Str × Str) :=
  let p := extendMap [] (sodCapture E (r.pathSoD cf cfg) q.path)
  let h := match r.hostSoD cf cfg, q.host with
    | some sod, some host => extendMap p (sodCapture E sod host)
    | _, _ => p
  (r.routeHeaders cfg).foldl (fun acc rh =>
    q.headers.foldl (fun acc2 qh =>
      if cf.lower qh.1 != cf.lower rh.1 then acc2 else extendMap acc2 (capOf E rh.2 qh.2)) acc) h

/-- `Rule::get_marker` -/
def Rule.getMarker (r : Rule) (name : Str) : Option ApiMarker := r.markers.find? fun m => m.name == name

/-- The `input` map of `Rule::variables`: every captured value through its marker's transformers. -/
def Rule.transformed (cf : CaseFns) (r : Rule) (captured : List (Str × Str)) : List (Str × Str) :=
  captured.map fun p => match r.getMarker p.1 with
    | none => p
    | some m => (p.1, applyTransformers cf m.transformers p.2)

/-- `Variable::get_value` -/
def Variable.getValue (cf : CaseFns) (v : Variable) (input : List (Str × Str)) (q : Request) : Str :=
  let value : Str := match v.kind with
    | .requestHeader name default =>
      match q.headerValues cf name with
      | [] => default.getD []
      | vs => joinWith [','] vs
    | .requestHost => q.host.getD []
    | .requestMethod => q.method.getD []
    | .requestPath => q.original
    | .requestScheme => q.scheme.getD []
    | .requestRemoteAddress => q.remoteAddr.getD []
    | .requestTime => match q.createdAt with
      | none => []
      | some d => if 0 ≤ d.year ∧ d.year ≤ 9999 then d.rfc2822 else d.rfc3339
    | .marker name => (input.lookup name).getD []
  applyTransformers cf v.transformers value

/-- `Rule::variables` before the final sort; `captured` in the iteration order of the HashMap. -/
def Rule.variablesUnsorted (cf : CaseFns) (r : Rule) (captured : List (Str × Str)) (q : Request) : List (Str × Str) :=
  let input := r.transformed cf captured
  if r.variables.isEmpty then input
  else r.variables.map fun v => (v.name, v.getValue cf input q)

/-- `Rule::variables` -/
def Rule.vars (cf : CaseFns) (r : Rule) (captured : List (Str × Str)) (q : Request) : List (Str × Str) :=
  sortVars (r.variablesUnsorted cf captured q)

/-- What is observed of the action of one matched rule. -/
structure Outcome where
  location : List Str      -- values of the `Location` header after `filter_headers`
  headers : List Str       -- values of the custom header filters
  body : Str               -- output of the text body filters on the probe (`""` without filters)
  html : List (Str × Str)  -- (value, inner_value) of the html body filters carried by the action
  target : Option Str      -- `Action::get_target`
deriving Repr, DecidableEq

/-- Every place where `from_route_rule` / `get_target` substitute, with substitution function `sub`. -/
def Rule.outcomeWith (r : Rule) (probe : Str) (sub : Str → Str) : Outcome :=
  { location := match r.target with
      | some t => if t.isEmpty then [] else [sub t]
      | none => []
    headers := r.headerFilters.map sub
    body := if r.bodyFilters.isEmpty then [] else probe ++ r.bodyFilters.flatMap sub
    -- `inner_value: Some(replace(inner_value.unwrap_or(value)))`
    html := r.htmlFilters.map fun f => (sub f.1, sub (f.2.getD f.1))
    target := r.target.map sub }

/-- The code: sequential replace with the sorted variable list. -/
def Rule.outcome (cf : CaseFns) (r : Rule) (probe : Str) (captured : List (Str × Str)) (q : Request) : Outcome :=
  r.outcomeWith probe fun t => replaceVars t (r.vars cf captured q)

/-- The specification: simultaneous substitution with the (unsorted) variable list. -/
def Rule.outcomeSpec (cf : CaseFns) (r : Rule) (probe : Str) (captured : List (Str × Str)) (q : Request) : Outcome :=
  r.outcomeWith probe fun t => subst (r.variablesUnsorted cf captured q) t

/-- The outcomes the library can produce: one (since repair 96f3afa the variable order is fixed by the code). -/
def Rule.outcomes (cf : CaseFns) (r : Rule) (probe : Str) (captured : List (Str × Str)) (q : Request) : List Outcome :=
  [r.outcome cf probe captured q]

end Rio.Marker
