/-
Router model with SHARING made explicit (property C02, second sentence: "deriving an updated router from a shared
existing one never changes the answers of the existing one").

In the value model of Model/RouterLayers.lean a clone is the same value and isolation holds by construction.  Here
the one thing two clones of a `Router<T>` really share AND that can be written through the shared pointer is a
heap object: the `LazyRegex` of a route's marker strings, `MarkerString.regex_capture : Arc<RwLock<LazyRegex>>`
(src/marker/mod.rs), reached through the `Arc<Route<T>>` both routers hold.  The heap is the `Store` of
Model/MarkerCache.lean (cells by index), a marker string is a HANDLE (`MString.cell`).

  world      = (store of shared cells, routers 0 .. n-1)
  one router = (`core : RouterG O` — buckets, regex trees, id map: a VALUE, because `Router: Clone` copies them,
                `marks` — the same id map `HashMap<String, Arc<Route<T>>>` seen through the marker HANDLES of each
                route: what `Router::cache` (second phase) iterates and what `Route::capture` reads)
  clone      = copy `core` (deep), copy `marks` (the handles, i.e. the cells stay SHARED)
  operations = insert (allocates FRESH cells: `MarkerString::new` → `Arc::new(RwLock::new(new_leaf))`), remove,
               batch_remove, apply_change_set, cache(limit) (first phase on `core`, second phase WRITES the cells of the
               router's routes — cells other routers hold too), matcher-level cache(limit, level).

Generic in the outermost matcher `O : MOps` (specification-level tower `towerOps E`, radix-tree tower `towerTOps T`).
Field-by-field justification of `SRouter.clone` against the Rust `Clone` impls: notes/wp/W12.md.
-/
import RioModel.Model.RouterOps
import RioModel.Model.MarkerCache

namespace Rio.RouterShare
open Rio.Router
open Rio.Marker (Str)
open Rio.MarkerCache (RegexLib LazyRegex Store MString StoreOK compileRoutes)

/-- The marker-handle part of an `Arc<Route<T>>` (Model/MarkerCache.lean). -/
abbrev MRoute := Rio.MarkerCache.Route
abbrev MSoD := Rio.MarkerCache.SoD

variable {R : Type}

/-! ### Allocation: what `IntoRoute::into_route` does besides computing the (immutable) route value -/

/-- A marker string before its cell exists: the strings `MarkerString::new` computed. -/
structure MTpl where
  regex : Str
  capture : Str
  ignoreCase : Bool
deriving Repr, DecidableEq

inductive SoDTpl where
  | static (s : Str)
  | dynamic (t : MTpl)
deriving Repr, DecidableEq

/-- The marker-carrying parts of a route before allocation (`Rule::host`, `Rule::path_and_query`, `Rule::headers`
in the order `into_route` evaluates them). -/
structure RouteTpl where
  host : Option SoDTpl
  pathAndQuery : SoDTpl
  headers : List (Str × MTpl)
deriving Repr

/-- `MarkerString::new`: `regex_capture: Arc::new(RwLock::new(LazyRegex::new_leaf(capture, ignore_case)))` — a FRESH
cell at the end of the heap. -/
def allocM (st : Store R) (t : MTpl) : Store R × MString :=
  (st ++ [LazyRegex.newLeaf t.capture t.ignoreCase], ⟨t.regex, t.capture, t.ignoreCase, st.length⟩)

/-- `StaticOrDynamic::new_with_markers` -/
def allocSoD (st : Store R) : SoDTpl → Store R × MSoD
  | .static s => (st, .static s)
  | .dynamic t => ((allocM st t).1, .dynamic (allocM st t).2)

def allocHeaders (st : Store R) : List (Str × MTpl) → Store R × List (Str × MString)
  | [] => (st, [])
  | (n, t) :: rest =>
    let r := allocHeaders (allocM st t).1 rest
    (r.1, (n, (allocM st t).2) :: r.2)

def allocHost (st : Store R) : Option SoDTpl → Store R × Option MSoD
  | none => (st, none)
  | some x => ((allocSoD st x).1, some (allocSoD st x).2)

/-- the marker part of `Rule::into_route`: host, then path, then headers. -/
def allocRoute (st : Store R) (t : RouteTpl) : Store R × MRoute :=
  let h := allocHost st t.host
  let p := allocSoD h.1 t.pathAndQuery
  let hs := allocHeaders p.1 t.headers
  (hs.1, ⟨p.2, h.2, hs.2⟩)

/-- `items.into_iter().map(|item| item.into_route(config)).collect()` -/
def allocAll (st : Store R) : List (Route × RouteTpl) → Store R × List (Route × MRoute)
  | [] => (st, [])
  | (r, t) :: rest =>
    let a := allocRoute st t
    let b := allocAll a.1 rest
    (b.1, (r, a.2) :: b.2)

/-! ### One router -/

/-- `Router<T>`: `core` = matcher tower + id map as VALUES (cloned deeply), `marks` = the id map
`routes: HashMap<String, Arc<Route<T>>>` seen through each route's marker handles (cloned shallowly: the handles
are copied, the cells are shared). -/
structure SRouter (O : MOps) where
  core : RouterG O
  marks : List (String × MRoute)

variable {O : MOps}

/-- `#[derive(Clone)] Router<T>`:
* `matcher: SchemeMatcher<T>` — derived / hand-written field-wise `Clone` all the way down: every `HashMap`, `Vec`,
  `count`, tree `Item` is COPIED; what the copies share is behind `Arc`s that are never written through
  (`Arc<RouterConfig>`, `Arc<LazyRegex>` of tree items — REPLACED by `cache`, `Arc<Regex>`) ⇒ a value copy of `core`;
* `routes: HashMap<String, Arc<Route<T>>>` — the map is copied, the `Arc<Route>` are shared: the immutable fields
  of a route are a value (in `core`), the `Arc<RwLock<LazyRegex>>` inside its marker strings are the shared cells ⇒
  the HANDLES in `marks` are copied. -/
def SRouter.clone (S : SRouter O) : SRouter O := ⟨S.core, S.marks⟩

/-- `Router::insert_route(route)` with an already allocated route. -/
def SRouter.insertRoute (r : Route) (mk : MRoute) (S : SRouter O) : SRouter O :=
  ⟨RouterG.insert O r S.core, aupsert (fun _ => mk) mk r.id S.marks⟩

/-- `Router::insert(item)` = `insert_route(item.into_route(config))`. -/
def SRouter.insert (st : Store R) (r : Route) (t : RouteTpl) (S : SRouter O) : Store R × SRouter O :=
  ((allocRoute st t).1, S.insertRoute r (allocRoute st t).2)

/-- `Router::remove(id)`: the id map loses the entry iff it had it. -/
def SRouter.remove (id : String) (S : SRouter O) : SRouter O × Option Route :=
  (⟨(RouterG.remove O id S.core).1,
    if (alookup id S.core.routes).isSome then S.marks.filter (fun e => e.1 != id) else S.marks⟩,
   (RouterG.remove O id S.core).2)

/-- `Router::batch_remove(ids)` -/
def SRouter.batchRemove (ids : List String) (S : SRouter O) : SRouter O :=
  ⟨RouterG.batchRemove O ids S.core, S.marks.filter (fun e => !ids.contains e.1)⟩

/-- `Router::apply_change_set(added, updated, removed)`: convert (= allocate) the updated rules, batch-remove
`removed ∪ ids(updated)`, insert the updated routes, then `insert` the added rules one by one. -/
def SRouter.applyChangeSet (st : Store R) (added updated : List (Route × RouteTpl)) (removed : List String)
    (S : SRouter O) : Store R × SRouter O :=
  let us := allocAll st updated
  let S1 := S.batchRemove (removed ++ updated.map (·.1.id))
  let S2 := us.2.foldl (fun S e => S.insertRoute e.1 e.2) S1
  added.foldl (fun p e => p.2.insert p.1 e.1 e.2) (us.1, S2)

/-- What is left of the budget after the `while prev_cache_limit > 0` loop of `Router::cache`. -/
def cacheLeft (limit : Option Nat) (S : RouterG O) : Int :=
  (RouterG.cacheLoop O ((RouterG.cachePrev O limit S).toNat + 7) (RouterG.cachePrev O limit S) 0 0 S.matcher).2.1

/-- `Router::cache(limit)`: first phase on the router's own trees (`RouterG.cache`), second phase
`for route in self.routes.values() { left -= route.compile(); .. }` — WRITES the shared cells.  (`values()` is in
`HashMap` order; the model takes the list order of `marks`; the isolation theorems do not depend on it.) -/
def SRouter.cache (lib : RegexLib R) (st : Store R) (limit : Option Nat) (S : SRouter O) : Store R × SRouter O :=
  (if cacheLeft limit S.core > 0 then compileRoutes lib st (S.marks.map (·.2)) (cacheLeft limit S.core) else st,
   ⟨RouterG.cache O limit S.core, S.marks⟩)

/-- `Router::cache(limit)` with the iteration order of `self.routes.values()` made explicit: `order` = the ids in the
order the `HashMap` yields them (ANY list is allowed: repetitions, unknown ids — a superset of what can happen). -/
def SRouter.cacheIn (lib : RegexLib R) (st : Store R) (limit : Option Nat) (order : List String) (S : SRouter O) :
    Store R × SRouter O :=
  (if cacheLeft limit S.core > 0 then
      compileRoutes lib st (order.filterMap (fun id => alookup id S.marks)) (cacheLeft limit S.core)
    else st,
   ⟨RouterG.cache O limit S.core, S.marks⟩)

/-- `self.matcher.cache(limit, level)` alone (one step of the first phase). -/
def SRouter.matcherCache (limit level : Nat) (S : SRouter O) : SRouter O :=
  ⟨⟨(O.cache limit level S.core.matcher).1, S.core.routes⟩, S.marks⟩

inductive Op where
  | insert (r : Route) (t : RouteTpl)
  | remove (id : String)
  | batchRemove (ids : List String)
  | changeSet (added updated : List (Route × RouteTpl)) (removed : List String)
  | cache (limit : Option Nat)
  | cacheIn (limit : Option Nat) (order : List String)
  | matcherCache (limit level : Nat)
deriving Repr

/-- one operation on one router: new heap, new router -/
def Op.run (lib : RegexLib R) (st : Store R) (S : SRouter O) : Op → Store R × SRouter O
  | .insert r t => S.insert st r t
  | .remove id => (st, (S.remove id).1)
  | .batchRemove ids => (st, S.batchRemove ids)
  | .changeSet a u d => S.applyChangeSet st a u d
  | .cache limit => S.cache lib st limit
  | .cacheIn limit order => S.cacheIn lib st limit order
  | .matcherCache limit level => (st, S.matcherCache limit level)

/-- the operation of the value model (Model/RouterOps.lean) this one refines; `matcherCache` has none -/
def Op.plain : Op → Option Rio.Router.Op
  | .insert r _ => some (.insert r)
  | .remove id => some (.remove id)
  | .batchRemove ids => some (.batchRemove ids)
  | .changeSet a u d => some (.changeSet (a.map (·.1)) (u.map (·.1)) d)
  | .cache limit => some (.cache limit)
  | .cacheIn limit _ => some (.cache limit)
  | .matcherCache _ _ => none

/-! ### The world: one heap, any number of routers -/

structure World (R : Type) (O : MOps) where
  store : Store R
  routers : List (SRouter O)

inductive Step where
  /-- `let new_router = routers[i].clone()` (`existing_router.as_ref().clone()`): appended as a new router -/
  | clone (i : Nat)
  /-- an operation on router `i` -/
  | op (i : Nat) (op : Op)
deriving Repr

def World.step (lib : RegexLib R) (w : World R O) : Step → World R O
  | .clone i =>
    match w.routers[i]? with
    | none => w
    | some S => ⟨w.store, w.routers ++ [S.clone]⟩
  | .op i op =>
    match w.routers[i]? with
    | none => w
    | some S => ⟨(op.run lib w.store S).1, w.routers.set i (op.run lib w.store S).2⟩

def World.run (lib : RegexLib R) (w : World R O) (steps : List Step) : World R O := steps.foldl (World.step lib) w

/-- the step does not operate on router `j` (clones OF `j` are allowed) -/
def Step.Spares (j : Nat) : Step → Prop
  | .clone _ => True
  | .op i _ => i ≠ j

/-- `RuleChangeSet::update_existing_router(self, existing_router: Arc<Router<Rule>>)`:
`let mut new_router = existing_router.as_ref().clone(); new_router.apply_change_set(added, updated, deleted)`.
The new router is the last one of the resulting world. -/
def World.updateExisting (lib : RegexLib R) (w : World R O) (i : Nat) (added updated : List (Route × RouteTpl))
    (removed : List String) : World R O :=
  World.run lib w [.clone i, .op w.routers.length (.changeSet added updated removed)]

/-! ### Observations of one router -/

/-- `Route::capture(request)` on the handle part: path, then host, then headers (rule order × request order); the
`HashMap::extend`s are kept as one list in that order (the map is "last occurrence wins").  `nameEq` is the
`to_lowercase()` comparison of header names (a parameter). -/
def captureRoute (lib : RegexLib R) (st : Store R) (nameEq : Str → Str → Bool) (rt : MRoute)
    (path : Str) (host : Option Str) (hdrs : List (Str × Str)) : List (Str × Str) :=
  rt.pathAndQuery.captureOn lib st path ++
  (match rt.host, host with
   | some h, some rh => h.captureOn lib st rh
   | _, _ => []) ++
  rt.headers.flatMap (fun h => hdrs.flatMap (fun q => if nameEq q.1 h.1 then h.2.captureOn lib st q.2 else []))

/-- Everything a caller can ask a router (besides mutating it). -/
structure Obs where
  matchReq : Req → List Route
  getRoute : Req → Option Route
  trace : Req → List Trace
  getTrace : Req → List Route × Option Route
  len : Nat
  getRouteById : String → Option Route
  /-- the ids of `routes()` -/
  ids : List String
  /-- `routes()[id].capture(request)` for every route the router holds -/
  capture : String → Option (Str → Option Str → List (Str × Str) → List (Str × Str))

def SRouter.obs (lib : RegexLib R) (nameEq : Str → Str → Bool) (st : Store R) (S : SRouter O) : Obs where
  matchReq := RouterG.matchReq O S.core
  getRoute := RouterG.getRoute O S.core
  trace := RouterG.trace O S.core
  getTrace := RouterG.getTrace O S.core
  len := RouterG.len O S.core
  getRouteById := RouterG.getRouteById O S.core
  ids := S.core.routes.map (·.1)
  capture := fun id => (alookup id S.marks).map (captureRoute lib st nameEq)

def World.obs (lib : RegexLib R) (nameEq : Str → Str → Bool) (w : World R O) (j : Nat) : Option Obs :=
  (w.routers[j]?).map (SRouter.obs lib nameEq w.store)

/-! ### Well-formedness: no dangling handle -/

def MSoD.Below (n : Nat) : MSoD → Prop
  | .static _ => True
  | .dynamic m => m.cell < n

def MRoute.Below (n : Nat) (rt : MRoute) : Prop :=
  MSoD.Below n rt.pathAndQuery ∧ (∀ h, rt.host = some h → MSoD.Below n h) ∧ ∀ e ∈ rt.headers, e.2.cell < n

def SRouter.HandlesOK (n : Nat) (S : SRouter O) : Prop := ∀ e ∈ S.marks, MRoute.Below n e.2

/-- every cell is consistent (Model/MarkerCache `StoreOK`) and every handle of every router points into the heap -/
def World.WF (lib : RegexLib R) (w : World R O) : Prop :=
  StoreOK lib w.store ∧ ∀ S ∈ w.routers, S.HandlesOK w.store.length

/-! ### What one operation does to `core` (heap-independent), and the operations a run addresses to one router -/

def Op.runCore : Op → RouterG O → RouterG O
  | .insert r _, C => RouterG.insert O r C
  | .remove id, C => (RouterG.remove O id C).1
  | .batchRemove ids, C => RouterG.batchRemove O ids C
  | .changeSet a u d, C => RouterG.applyChangeSet O (a.map (·.1)) (u.map (·.1)) d C
  | .cache limit, C => RouterG.cache O limit C
  | .cacheIn limit _, C => RouterG.cache O limit C
  | .matcherCache limit level, C => ⟨(O.cache limit level C.matcher).1, C.routes⟩

def opsOf (i : Nat) : List Step → List Op
  | [] => []
  | .clone _ :: rest => opsOf i rest
  | .op k op :: rest => if k = i then op :: opsOf i rest else opsOf i rest

/-! ### VARIANT — NOT the code — for the necessity witness of Props/C02iso.lean

What isolation would be if `Router<T>` kept its matcher tower (buckets, regex trees) behind a shared mutable pointer
(`Arc<RwLock<SchemeMatcher<T>>>`, or a tree item behind `Arc<RefCell<..>>`) and `Clone` copied the POINTER: the heap
holds matchers, a router is (matcher handle, its own copy of the id map). -/

structure AWorld (O : MOps) where
  heap : List O.M
  routers : List (Nat × List (String × Route))

inductive AStep where
  | clone (i : Nat)
  | insert (i : Nat) (r : Route)

def AWorld.step (w : AWorld O) : AStep → AWorld O
  | .clone i =>
    match w.routers[i]? with
    | none => w
    | some S => ⟨w.heap, w.routers ++ [S]⟩
  | .insert i r =>
    match w.routers[i]? with
    | none => w
    | some S =>
      match w.heap[S.1]? with
      | none => w
      | some m => ⟨w.heap.set S.1 (O.insert r m), w.routers.set i (S.1, aupsert (fun _ => r) r r.id S.2)⟩

def AWorld.run (w : AWorld O) (steps : List AStep) : AWorld O := steps.foldl AWorld.step w

def AStep.Spares (j : Nat) : AStep → Prop
  | .clone _ => True
  | .insert i _ => i ≠ j

/-- `routers[j].match_request(q)` -/
def AWorld.matchReq (w : AWorld O) (j : Nat) (q : Req) : Option (List Route) :=
  (w.routers[j]?).bind fun S => (w.heap[S.1]?).map fun m => O.matchReq m q

/-- the isolation statement of Props/C02iso.lean, for the match observation, in the variant -/
def AWorld.Isolated (O : MOps) : Prop :=
  ∀ (w : AWorld O) (steps : List AStep) (j : Nat) (q : Req), j < w.routers.length →
    (∀ s ∈ steps, s.Spares j) → (w.run steps).matchReq j q = w.matchReq j q

end Rio.RouterShare
