/-
Model of `src/http/addr.rs` (`impl FromStr for Addr`).

    let trimmed = s.trim_matches(|c| c == '\0' || c == '\n' || c == '\r' || c == '\t' || c == ' ');
    if let Ok(addr) = trimmed.parse::<IpAddr>()        { Ok(Addr { addr, port: None }) }
    else if let Ok(sock) = trimmed.parse::<SocketAddr>() { Ok(Addr { addr: sock.ip(), port: Some(sock.port()) }) }
    else { Err(()) }

The file contains NO index, slice, unwrap or arithmetic site (tools/panic_sites.py lists none for it): the hand-written part is
the trimming and the order of the two attempts.  The two std parsers are PARAMETERS (`Std`): total functions to `Option`;
an address is represented by its canonical text (`IpAddr::to_string`).  Strings are `List Char`.
-/
namespace Rio.AddrParse

/-- the characters `Addr::from_str` trims at both ends -/
def trimSet : List Char := ['\x00', '\n', '\r', '\t', ' ']

def inTrimSet (c : Char) : Bool := trimSet.contains c

/-- `str::trim_matches(p)`: drop matching chars at the front, then at the back -/
def trimChars (p : Char → Bool) (s : List Char) : List Char :=
  ((s.dropWhile p).reverse.dropWhile p).reverse

/-- `<IpAddr as FromStr>` and `<SocketAddr as FromStr>` (std): canonical text of the address, and the port -/
structure Std where
  parseIp : List Char → Option String
  parseSock : List Char → Option (String × Nat)

inductive Res where
  | ok (ip : String) (port : Option Nat)
  | err
deriving DecidableEq, Repr

/-- `Addr::from_str` -/
def parseAddr (S : Std) (s : List Char) : Res :=
  let t := trimChars inTrimSet s
  match S.parseIp t with
  | some ip => .ok ip none
  | none =>
    match S.parseSock t with
    | some (ip, p) => .ok ip (some p)
    | none => .err

/-- the `addr` field when the parse succeeded -/
def Res.ip? : Res → Option String
  | .ok ip _ => some ip
  | .err => none

end Rio.AddrParse
