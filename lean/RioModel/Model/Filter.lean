/-
Model of the streaming body-filter chain (C03, C04, C14, C15):

  src/filter/html_filter_body.rs        `HtmlFilterBodyAction` (filter / end / on_start_tag_token / on_end_tag_token, BufferLink)
  src/filter/html_body_action/*.rs      the three visitors (`enter` / `leave`, `append_child`, `prepend_child`)
  src/filter/text_filter_body.rs        `TextFilterBodyAction`
  src/filter/filter_body.rs             `FilterBodyAction` (new / filter / do_filter / end / do_end, `in_error`),
                                        `FilterBodyActionItem::new` (content-type gate)
  src/filter/encoding/*.rs              as an abstract `Codec` (state machines with write+flush and finish)

Conventions.
* Bytes are `Nat`s in a `List` (same as `Model/Html.lean`).  Strings that only ever meet bytes (element names of a
  path, css selectors, values) are their UTF-8 bytes.
* The tokenizer is a PARAMETER (`structure Tokenize`): `plain` for `html::Tokenizer::new` (append_child /
  prepend_child), `stream` for `Tokenizer::new_fragment(data, last_context)` (the filter loop): the complete tokens in
  order (kind, raw bytes, lower-cased tag name; for `stream` also the cut flag and the context) and the remainder
  (`raw()` of the final `ErrorToken` followed by `buffered()`).  `Model/FilterHtml.lean` instantiates it with the
  tokenizer model of W5; the theorems are stated for every tokenizer satisfying the laws they name.
* `scraper` is a PARAMETER: `evaluate data selector : Bool`.
* A visitor's `element_tree` + `position` is a zipper (`before` reversed, `cur = element_tree[position]`, `after`):
  `position + 1 < len` is `after ≠ []`, `position > 0` is `before ≠ []`; the indexing `element_tree[position]`
  cannot be out of range by construction (the Rust maintains `position < len`, the zipper is that invariant).
* `?` exits of `filter` other than the UTF-8 validation (`tokenizer.next()?`, `raw_as_string()?`, `tag_name()?`) cannot
  fire on validated input (C16 `accessors_ok_of_utf8`); the instantiation reports them as a driver error instead of
  hiding them.  `tag_name.unwrap()` on a tag token: the tokenizer always has a name there (C16 `tag_name_some`).
-/
import RioModel.Generated.Consts

namespace Rio.Filter
open Rio.Consts

abbrev Bytes := List Nat

/-! ### `std::str::from_utf8`: valid / incomplete trailing sequence (`error_len() == None`) / invalid -/

structure U8St where
  /-- continuation bytes still expected -/
  need : Nat := 0
  /-- admissible range of the next byte -/
  lo : Nat := 128
  hi : Nat := 191
  deriving Repr, DecidableEq

/-- one byte of the validator; `none` = an invalid sequence (`error_len() == Some(_)`) -/
def u8Step (s : U8St) (b : Nat) : Option U8St :=
  if s.need = 0 then
    if b < 128 then some {}
    else if 194 ≤ b && b ≤ 223 then some { need := 1 }
    else if b == 224 then some { need := 2, lo := 160 }
    else if (225 ≤ b && b ≤ 236) || b == 238 || b == 239 then some { need := 2 }
    else if b == 237 then some { need := 2, hi := 159 }
    else if b == 240 then some { need := 3, lo := 144 }
    else if 241 ≤ b && b ≤ 243 then some { need := 3 }
    else if b == 244 then some { need := 3, hi := 143 }
    else none
  else if s.lo ≤ b && b ≤ s.hi then some { need := s.need - 1 }
  else none

inductive U8Res where
  | ok
  /-- the input ends inside a sequence that is valid so far; `validUpTo` = `err.valid_up_to()` -/
  | incomplete (validUpTo : Nat)
  | invalid
  deriving Repr, DecidableEq

/-- scan from position `pos` in state `st`; `bd` = end of the last complete character -/
def utf8Go : Bytes → U8St → Nat → Nat → U8Res
  | [], st, _, bd => if st.need = 0 then .ok else .incomplete bd
  | b :: rest, st, pos, bd =>
    match u8Step st b with
    | none => .invalid
    | some st' => utf8Go rest st' (pos + 1) (if st'.need = 0 then pos + 1 else bd)

def utf8Scan (bs : Bytes) : U8Res := utf8Go bs {} 0 0

/-! ### tokens (the tokenizer is a parameter) -/

inductive TokKind where
  | text | startTag | endTag | selfClosing
  /-- comment or doctype -/
  | other
  deriving DecidableEq, Repr, Inhabited

structure Tok where
  kind : TokKind
  /-- `raw()` -/
  raw : Bytes
  /-- `tag_name()` lower-cased (`[]` for a non-tag token) -/
  name : Bytes := []
  deriving DecidableEq, Repr, Inhabited

/-- a token of the stream tokenizer of `HtmlFilterBodyAction::filter`, with what the filter reads around `next()` -/
structure TokX where
  tok : Tok
  /-- `tokenizer.err().is_some()` after the `next()` that produced the token: the end of the data was reached -/
  cut : Bool
  /-- `tokenizer.raw_tag()` before that `next()`: the raw-text element in whose content the token starts (`[]` = none) -/
  ctx : Bytes
  deriving DecidableEq, Repr, Inhabited

/-- The tokenizer as the filters use it (a parameter of the model).
`plain b` = `Tokenizer::new(b)` run to the `ErrorToken`: complete tokens in order and `raw() ++ buffered()` at the
`ErrorToken` (`append_child`, `prepend_child`).
`stream c b` = `Tokenizer::new_fragment(b, c)` run to the `ErrorToken`: tokens with `cut` and `ctx`, the remainder, and
`raw_tag()` before the `next()` that returned the `ErrorToken` (`HtmlFilterBodyAction::filter` since fe7eac6). -/
structure Tokenize where
  plain : Bytes → List Tok × Bytes
  stream : Bytes → Bytes → List TokX × Bytes × Bytes

instance : CoeFun Tokenize (fun _ => Bytes → List Tok × Bytes) := ⟨Tokenize.plain⟩

def rawsOf (ts : List Tok) : Bytes := ts.flatMap (·.raw)

/-- `VOID_ELEMENTS.contains(name)` (table regenerated from the source) -/
def isVoid (name : Bytes) : Bool := filterVoidElements.contains name

/-- `token_data.contains('<') || token_data.contains("</")` (the second disjunct implies the first) -/
def hasLt (bs : Bytes) : Bool := bs.contains 60

/-! ### the three visitors -/

inductive VKind where
  | append | prepend | replace
  deriving DecidableEq, Repr, Inhabited

/-- `BodyAppend` / `BodyPrepend` / `BodyReplace` (same fields; `is_buffering` unused by append) -/
structure Visitor where
  kind : VKind
  /-- `element_tree[..position]`, reversed -/
  before : List Bytes := []
  /-- `element_tree[position]` -/
  cur : Bytes
  /-- `element_tree[position+1..]` -/
  after : List Bytes := []
  /-- `css_selector` -/
  sel : Option Bytes := none
  /-- `content` -/
  content : Bytes
  isBuffering : Bool := false
  deriving Repr, DecidableEq, Inhabited

namespace Visitor

/-- `self.css_selector.is_some() && !self.css_selector.as_ref().unwrap().is_empty()` -/
def hasSel (v : Visitor) : Bool :=
  match v.sel with
  | some s => !s.isEmpty
  | none => false

def selector (v : Visitor) : Bytes := v.sel.getD []

/-- `self.position += 1` (only called when `after ≠ []`) -/
def advance (v : Visitor) : Visitor :=
  match v.after with
  | [] => v
  | a :: rest => { v with before := v.cur :: v.before, cur := a, after := rest }

/-- `self.position -= 1` (only called when `before ≠ []`) -/
def retreat (v : Visitor) : Visitor :=
  match v.before with
  | [] => v
  | b :: rest => { v with before := rest, cur := b, after := v.cur :: v.after }

/-- `first()` -/
def first (v : Visitor) : Bytes :=
  match v.before.reverse with
  | [] => v.cur
  | f :: _ => f

/-- `enter(data)` → ((next_enter, next_leave, start_buffer, data), self) -/
def enter (v : Visitor) (data : Bytes) : (Option Bytes × Option Bytes × Bool × Bytes) × Visitor :=
  let nextLeave := some v.cur
  if v.after ≠ [] then
    let v' := v.advance
    ((some v'.cur, nextLeave, false, data), v')
  else
    match v.kind with
    | .append => ((none, nextLeave, v.hasSel, data), v)
    | .prepend =>
      if !v.hasSel then ((none, nextLeave, v.isBuffering, data ++ v.content), v)
      else
        let v' := { v with isBuffering := true }
        ((none, nextLeave, true, data), v')
    | .replace =>
      let v' := { v with isBuffering := true }
      ((none, nextLeave, true, data), v')

end Visitor

section
variable (tk : Tokenize) (evaluate : Bytes → Bytes → Bool)

/-- the token loop of `append_child(content, child)`; `none` = the `ErrorToken` exit (content unchanged) -/
def appendChildGo (child : Bytes) : List Tok → Bytes → Int → Bytes → Option Bytes
  | [], _, _, _ => none
  | t :: ts, rest, level, out =>
    let level1 := if t.kind = .startTag then (if isVoid t.name then level else level + 1) else level
    if t.kind = .endTag then
      let level2 := level1 - 1
      if level2 = 0 then some (out ++ child ++ t.raw ++ rawsOf ts ++ rest)
      else appendChildGo child ts rest level2 (out ++ t.raw)
    else appendChildGo child ts rest level1 (out ++ t.raw)

/-- `append_child(content, child)` of body_append.rs -/
def appendChild (content child : Bytes) : Bytes :=
  let (ts, rest) := tk content
  (appendChildGo child ts rest 0 []).getD content

/-- the token loop of `prepend_child` -/
def prependChildGo (child : Bytes) : List Tok → Bytes → Bytes → Option Bytes
  | [], _, _ => none
  | t :: ts, rest, out =>
    if t.kind = .startTag then some (out ++ t.raw ++ child ++ rawsOf ts ++ rest)
    else prependChildGo child ts rest (out ++ t.raw)

/-- `prepend_child(content, child)` of body_prepend.rs -/
def prependChild (content child : Bytes) : Bytes :=
  let (ts, rest) := tk content
  (prependChildGo child ts rest []).getD content

namespace Visitor

/-- the `next_leave` computation shared by the three `leave`s; `guard` = the extra `!self.is_buffering` of replace -/
def leaveMove (v : Visitor) (guard : Bool) : Option Bytes × Visitor :=
  if v.before ≠ [] ∧ guard then
    let v' := v.retreat
    (some v'.cur, v')
  else (none, v)

/-- `leave(data)` → ((next_enter, next_leave, data), self) -/
def leave (v : Visitor) (data : Bytes) : (Option Bytes × Option Bytes × Bytes) × Visitor :=
  let nextEnter := some v.cur
  match v.kind with
  | .append =>
    let isProcessing := v.after = []
    let (nextLeave, v1) := v.leaveMove true
    if isProcessing then
      if v.hasSel then
        if !evaluate data v.selector then ((nextEnter, nextLeave, appendChild tk data v.content), v1)
        else ((nextEnter, nextLeave, data), v1)
      else ((nextEnter, nextLeave, v.content ++ data), v1)
    else ((nextEnter, nextLeave, data), v1)
  | .prepend =>
    let (nextLeave, v1) := v.leaveMove true
    if v.isBuffering && v.hasSel then
      let v2 := { v1 with isBuffering := false }
      if !evaluate data v.selector then ((nextEnter, nextLeave, prependChild tk data v.content), v2)
      else ((nextEnter, nextLeave, data), v2)
    else ((nextEnter, nextLeave, data), v1)
  | .replace =>
    let (nextLeave, v1) := v.leaveMove (!v.isBuffering)
    if v.isBuffering then
      let v2 := { v1 with isBuffering := false }
      if !v.hasSel then ((nextEnter, nextLeave, v.content), v2)
      else if evaluate data v.selector then ((nextEnter, nextLeave, v.content), v2)
      else ((nextEnter, nextLeave, data), v2)
    else ((nextEnter, nextLeave, data), v1)

end Visitor

/-! ### `HtmlFilterBodyAction` -/

/-- `BufferLink` (the `previous` pointer is the tail of the list) -/
structure Link where
  buffer : Bytes
  tagName : Bytes
  deriving Repr, DecidableEq, Inhabited

structure HtmlSt where
  enter : Option Bytes
  leave : Option Bytes := none
  visitor : Visitor
  /-- `current_buffer` and its `previous` chain, innermost first -/
  stack : List Link := []
  /-- `last_buffer` -/
  last : Bytes := []
  /-- `last_context`: the raw-text element in whose content `last_buffer` starts (`[]` outside one) -/
  ctx : Bytes := []
  deriving Repr, DecidableEq, Inhabited

/-- `HtmlFilterBodyAction::new` -/
def HtmlSt.new (v : Visitor) : HtmlSt := { enter := some v.first, visitor := v }

def topMatches (stack : List Link) (name : Bytes) : Bool :=
  match stack with
  | l :: _ => l.tagName == name
  | [] => false

def topBuffer (stack : List Link) : Bytes :=
  match stack with
  | l :: _ => l.buffer
  | [] => []

/-- `on_start_tag_token` -/
def onStart (s : HtmlSt) (name data : Bytes) : HtmlSt × Bytes :=
  if s.enter = some name then
    let ((ne, nl, startBuffer, data'), v') := s.visitor.enter data
    let s1 := { s with enter := ne, leave := nl, visitor := v' }
    if startBuffer then ({ s1 with stack := ⟨[], name⟩ :: s1.stack }, data') else (s1, data')
  else (s, data)

/-- `on_end_tag_token` -/
def onEnd (s : HtmlSt) (name data : Bytes) : HtmlSt × Bytes :=
  let tm := topMatches s.stack name
  let buffer := if tm then topBuffer s.stack ++ data else data
  let (s1, buffer1) :=
    if s.leave = some name then
      let ((ne, nl, b), v') := s.visitor.leave tk evaluate buffer
      ({ s with enter := ne, leave := nl, visitor := v' }, b)
    else (s, buffer)
  if tm then ({ s1 with stack := s1.stack.tail }, buffer1) else (s1, buffer1)

/-- `if self.current_buffer.is_some() { buffer.push_str(data) } else { to_return.push_str(data) }` -/
def push (s : HtmlSt) (out data : Bytes) : HtmlSt × Bytes :=
  match s.stack with
  | l :: rest => ({ s with stack := { l with buffer := l.buffer ++ data } :: rest }, out)
  | [] => (s, out ++ data)

/-- one iteration of the token loop of `filter` (state, `to_return`) -/
def stepTok (so : HtmlSt × Bytes) (t : Tok) : HtmlSt × Bytes :=
  let (s, out) := so
  match t.kind with
  | .startTag =>
    let (s1, d1) := onStart s t.name t.raw
    let (s2, d2) := if isVoid t.name then onEnd tk evaluate s1 t.name d1 else (s1, d1)
    push s2 out d2
  | .endTag =>
    let (s1, d1) := onEnd tk evaluate s t.name t.raw
    push s1 out d1
  | .selfClosing =>
    let (s1, d1) := onStart s t.name t.raw
    let (s2, d2) := onEnd tk evaluate s1 t.name d1
    push s2 out d2
  | _ => push s out t.raw

/-- The inner `while` of `filter`: a text token containing `<` is emitted only once the following token is known;
if it is the last token before the `ErrorToken` it is held back.  Returns (tokens to process, held text). -/
def splitHeld (ts : List Tok) : List Tok × Bytes :=
  match ts.getLast? with
  | some t => if t.kind = .text ∧ hasLt t.raw then (ts.dropLast, t.raw) else (ts, [])
  | none => ([], [])

/-- the UTF-8 prologue of `filter`: `none` = invalid bytes (`Err` before any state change), else (data, pending) -/
def utf8Split (data : Bytes) : Option (Bytes × Bytes) :=
  match utf8Scan data with
  | .ok => some (data, [])
  | .incomplete n => some (data.take n, data.drop n)
  | .invalid => none

/-- `is_cut`: the token was ended by the end of the data and not by its own syntax; plain text (and `plaintext`
content) is emitted as it is -/
def isCut (x : TokX) : Bool :=
  x.cut && (x.tok.kind != .text || (x.ctx != [] && x.ctx != htmlPlaintext))

/-- the tokens before the first cut one, and the cut one with whatever follows it -/
def cutSplit (xs : List TokX) : List TokX × List TokX :=
  (xs.takeWhile fun x => !isCut x, xs.dropWhile fun x => !isCut x)

def toksOf (xs : List TokX) : List Tok := xs.map (·.tok)

/-- `last_context` after the call: the context of the first held token -/
def heldCtx (pre post : List TokX) (held ctxE : Bytes) : Bytes :=
  match post with
  | x :: _ => x.ctx
  | [] => if held.isEmpty then ctxE else (pre.getLast?.map (·.ctx)).getD ctxE

/-- `HtmlFilterBodyAction::filter` (since fe7eac6); `none` = `Err` (state unchanged).
The tokenizer is built with `new_fragment(data, last_context)`.  The loop stops at the `ErrorToken` or at the first
token for which `is_cut` holds; that token and what follows are kept (`raw() ++ buffered()`).  The "text containing `<`
is held" rule only applies when the loop stopped at the `ErrorToken`. -/
def filterHtml (s : HtmlSt) (input : Bytes) : Option (HtmlSt × Bytes) :=
  match utf8Split (s.last ++ input) with
  | none => none
  | some (data, pending) =>
    let (xs, rest, ctxE) := tk.stream s.ctx data
    let (pre, post) := cutSplit xs
    let (todo, held) := if post.isEmpty then splitHeld (toksOf pre) else (toksOf pre, [])
    let (s', out) := todo.foldl (stepTok tk evaluate) (s, [])
    some ({ s' with last := held ++ rawsOf (toksOf post) ++ rest ++ pending, ctx := heldCtx pre post held ctxE }, out)

/-- `HtmlFilterBodyAction::end` (reads only): outer buffers first, then `last_buffer` -/
def endHtml (s : HtmlSt) : Bytes :=
  (s.stack.reverse.flatMap (·.buffer)) ++ s.last

/-! ### `TextFilterBodyAction` -/

inductive TextAction where
  | append | prepend | replace
  deriving DecidableEq, Repr, Inhabited

structure TextSt where
  action : TextAction
  content : Bytes
  executed : Bool := false
  deriving Repr, DecidableEq, Inhabited

/-- `TextFilterBodyAction::filter` -/
def filterText (s : TextSt) (data : Bytes) : TextSt × Bytes :=
  match s.action with
  | .replace => if s.executed then (s, []) else ({ s with executed := true }, s.content)
  | .append => (s, data)
  | .prepend => if s.executed then (s, data) else ({ s with executed := true }, s.content ++ data)

/-- `TextFilterBodyAction::end` -/
def endText (s : TextSt) : TextSt × Bytes :=
  if s.executed then (s, []) else ({ s with executed := true }, s.content)

/-! ### codec stages (abstract) -/

/-- `DecodeFilterBody` / `EncodeFilterBody` as state machines: `write` = `write_all + flush + take the buffer`,
`finish` = `end()`; `none` = `Err(IoError)`.  (`end()` swaps in a fresh coder; the chain is never used after `end`.) -/
structure Codec (D E : Type) where
  /-- `get_encoding_filters(encoding)` for a supported encoding -/
  create : String → D × E
  decWrite : D → Bytes → Option (D × Bytes)
  decFinish : D → Option Bytes
  encWrite : E → Bytes → Option (E × Bytes)
  encFinish : E → Option Bytes

/-! ### the chain -/

inductive Stage (D E : Type) where
  | html (s : HtmlSt)
  | text (s : TextSt)
  | decode (d : D)
  | encode (e : E)

variable {D E : Type} (codec : Codec D E)

/-- `FilterBodyActionItem::filter`; `none` = `Err` (the stage keeps its state) -/
def Stage.filter (st : Stage D E) (data : Bytes) : Option (Stage D E × Bytes) :=
  match st with
  | .html s => (filterHtml tk evaluate s data).map fun (s', o) => (.html s', o)
  | .text s => let (s', o) := filterText s data; some (.text s', o)
  | .decode d => (codec.decWrite d data).map fun (d', o) => (.decode d', o)
  | .encode e => (codec.encWrite e data).map fun (e', o) => (.encode e', o)

/-- `FilterBodyActionItem::end` -/
def Stage.end (st : Stage D E) : Option (Stage D E × Bytes) :=
  match st with
  | .html s => some (.html s, endHtml s)
  | .text s => let (s', o) := endText s; some (.text s', o)
  | .decode d => (codec.decFinish d).map fun o => (.decode d, o)
  | .encode e => (codec.encFinish e).map fun o => (.encode e, o)

/-- `do_filter`: the stages after the call (also when it failed: the stages before the failing one have
consumed their input) and `Some(data)` / `None` = `Err`.  Note the `break` on an empty intermediate result. -/
def doFilter : List (Stage D E) → Bytes → List (Stage D E) × Option Bytes
  | [], data => ([], some data)
  | st :: rest, data =>
    match st.filter tk evaluate codec data with
    | none => (st :: rest, none)
    | some (st', out) =>
      if out.isEmpty then (st' :: rest, some out)
      else
        let (rest', r) := doFilter rest out
        (st' :: rest', r)

/-- one stage of `do_end`: `None => item.end()`, `Some(str) => item.filter(str) ++ item.end()` -/
def Stage.endWith (st : Stage D E) (data : Option Bytes) : Stage D E × Option Bytes :=
  match data with
  | none =>
    match st.end codec with
    | none => (st, none)
    | some (st', o) => (st', some o)
  | some str =>
    match st.filter tk evaluate codec str with
    | none => (st, none)
    | some (st1, o1) =>
      match st1.end codec with
      | none => (st1, none)
      | some (st2, o2) => (st2, some (o1 ++ o2))

/-- the error branches: what the html stages hold, last stage first -/
def flushHtml {D E : Type} (items : List (Stage D E)) : Bytes :=
  items.reverse.flatMap fun st =>
    match st with
    | .html s => endHtml s
    | _ => []

/-- `do_end` (as repaired by 7be7ac2): `data` is the `Option<Vec<u8>>` threaded through the stages.
`.error passthrough` = `Err((err, passthrough))`: what the stages from the failing one to the last still hold, last
stage first, then the in-flight data that was handed to the failing stage. -/
def doEnd : List (Stage D E) → Option Bytes → List (Stage D E) × Except Bytes (Option Bytes)
  | [], data => ([], .ok data)
  | st :: rest, data =>
    match st.endWith tk evaluate codec data with
    | (st', none) => (st' :: rest, .error (flushHtml (st' :: rest) ++ data.getD []))
    | (st', some newData) =>
      let (rest', r) := doEnd rest (if newData.isEmpty then none else some newData)
      (st' :: rest', r)

/-- `FilterBodyAction` -/
structure Chain (D E : Type) where
  items : List (Stage D E)
  inError : Bool := false

/-- `FilterBodyAction::filter` -/
def Chain.filter (c : Chain D E) (data : Bytes) : Chain D E × Bytes :=
  if c.inError then (c, data)
  else
    match doFilter tk evaluate codec c.items data with
    | (items', some out) => ({ c with items := items' }, out)
    | (items', none) => ({ items := items', inError := true }, flushHtml items' ++ data)

/-- `FilterBodyAction::end` -/
def Chain.end (c : Chain D E) : Chain D E × Bytes :=
  if c.inError then (c, [])
  else
    match doEnd tk evaluate codec c.items none with
    | (items', .ok out) => ({ c with items := items' }, out.getD [])
    | (items', .error passthrough) => ({ items := items', inError := true }, passthrough)

/-- feed the chunks in order: (chain afterwards, outputs of the `filter` calls) -/
def Chain.feed (c : Chain D E) : List Bytes → Chain D E × List Bytes
  | [] => (c, [])
  | x :: xs =>
    let (c1, o) := c.filter tk evaluate codec x
    let (c2, os) := c1.feed xs
    (c2, o :: os)

/-- what a client observes: outputs of the `filter` calls, then the output of `end` -/
def Chain.runOuts (c : Chain D E) (chunks : List Bytes) : List Bytes × Bytes :=
  let (c1, os) := c.feed tk evaluate codec chunks
  (os, (c1.end tk evaluate codec).2)

/-- concatenation of everything emitted -/
def Chain.run (c : Chain D E) (chunks : List Bytes) : Bytes :=
  let (os, e) := c.runOuts tk evaluate codec chunks
  os.flatten ++ e

end

/-! ### construction: `FilterBodyAction::new`, `FilterBodyActionItem::new`, `HtmlBodyVisitor::new` -/

/-- `api::BodyFilter` (ids / target hashes / inner_value only feed the unit trace) -/
inductive BodyFilter where
  | html (action : String) (path : List Bytes) (sel : Option Bytes) (value : Bytes)
  | text (action : TextAction) (content : Bytes)
  deriving Repr, DecidableEq, Inhabited

/-- `HtmlBodyVisitor::new` -/
def Visitor.new (action : String) (path : List Bytes) (sel : Option Bytes) (value : Bytes) : Option Visitor :=
  match path with
  | [] => none
  | p :: ps =>
    if action = filterActionAppend then some { kind := .append, cur := p, after := ps, sel := sel, content := value }
    else if action = filterActionPrepend then some { kind := .prepend, cur := p, after := ps, sel := sel, content := value }
    else if action = filterActionReplace then some { kind := .replace, cur := p, after := ps, sel := sel, content := value }
    else none

/-- `haystack.contains(needle)` on characters -/
def isInfix (needle : List Char) : List Char → Bool
  | [] => needle.isEmpty
  | c :: cs => needle.isPrefixOf (c :: cs) || isInfix needle cs

/-- the content-type gate of `FilterBodyActionItem::new` for an html filter:
`Some(ct) if ct.contains("text/html")` or `None` -/
def htmlAllowed (contentType : Option String) : Bool :=
  match contentType with
  | none => true
  | some ct => isInfix filterHtmlContentTypeNeedle.toList ct.toList

/-- `FilterBodyActionItem::new` -/
def Stage.new {D E : Type} (f : BodyFilter) (contentType : Option String) : Option (Stage D E) :=
  match f with
  | .html action path sel value =>
    if htmlAllowed contentType then (Visitor.new action path sel value).map fun v => .html (HtmlSt.new v)
    else none
  | .text a content => some (.text { action := a, content := content })

/-- the header scan of `FilterBodyAction::new`: the last header with that lower-cased name wins, value lower-cased -/
def headerValue (lower : String → String) (name : String) (headers : List (String × String)) : Option String :=
  headers.foldl (fun acc h => if lower h.1 = name then some (lower h.2) else acc) none

/-- `FilterBodyAction::new` (feature `compress` on) -/
def Chain.new {D E : Type} (codec : Codec D E) (lower : String → String) (filters : List BodyFilter)
    (headers : List (String × String)) : Chain D E :=
  let contentType := headerValue lower filterHeaderContentType headers
  let contentEncoding := headerValue lower filterHeaderContentEncoding headers
  let chain : List (Stage D E) := filters.filterMap fun f => Stage.new f contentType
  if chain.isEmpty then { items := chain }
  else
    match contentEncoding with
    | none => { items := chain }
    | some enc =>
      if filterSupportedEncodings.contains enc then
        let (d, e) := codec.create enc
        { items := .decode d :: chain ++ [.encode e] }
      else { items := [] }

/-- `verif_chain_kinds()` -/
def Stage.kind {D E : Type} : Stage D E → String
  | .html _ => "html"
  | .text _ => "text"
  | .decode _ => "decode"
  | .encode _ => "encode"

/-- a codec for chains without codec stages (C03 / C04 / C15) -/
def noCodec : Codec Unit Unit where
  create _ := ((), ())
  decWrite _ b := some ((), b)
  decFinish _ := some []
  encWrite _ b := some ((), b)
  encFinish _ := some []

end Rio.Filter
