/-
Router model, part 8 (drivers only): the environment of the tower over the real regex-tree model
for the generator's pattern language – `MarkerString.regex` as a string (`regex::escape` of the
literal text, `(?:regex)` for a marker) and W1's executable engine `stdEngine`.
-/
import RioModel.Model.RouterTreeLayers
import RioModel.Model.RouterParse

namespace Rio.Router

/-- `regex_syntax::is_meta_character`. -/
def isMetaChar (c : Char) : Bool := "\\.+*?()|[]{}^$#&-~".toList.contains c

/-- one token of `MarkerString.regex` -/
def renderTok : Tok → List Char
  | .lit c => if isMetaChar c then ['\\', c] else [c]
  | .plus .digit => "(?:[0-9]+)".toList
  | .plus .lower => "(?:[a-z]+)".toList
  | .plus .notSlash => "(?:[^/]+)".toList
  | .plus .any => "(?:.+)".toList
  | .star .digit => "(?:[0-9]*)".toList
  | .star .lower => "(?:[a-z]*)".toList
  | .star .notSlash => "(?:[^/]*)".toList
  | .star .any => "(?:.*)".toList

/-- `MarkerString.regex`. -/
def renderPat (p : Pat) : List Char := p.flatMap renderTok

/-- The tree-level environment of a configuration: W1's engine on the rendered regex strings; the
header-regex search stays the token matcher (it does not go through a tree). -/
def tenvOf (cfg : Cfg) : TEnv where
  alwaysAnyHost := cfg.alwaysAnyHost
  engine := Rio.Regex.stdEngine
  render := renderPat
  icHost := cfg.ignoreHostCase
  icPath := cfg.ignorePathCase
  headerRegex := patSearch
  lower := String.toLower

end Rio.Router
