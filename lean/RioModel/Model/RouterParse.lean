/-
Router model, part 4 (used by the drivers only): the executable stand-in for the regex engine on
the token language of the correspondence generator, and the model of `impl IntoRoute<Rule> for Rule`
(src/api/rule.rs) / `Request::from_config` + `add_header` (src/http/request.rs) on the abstract
rule / request descriptions the harness generates.

Marker menu (name ↦ regex): `d ↦ [0-9]+`, `l ↦ [a-z]+`, `s ↦ [^/]+`, `x ↦ .*`.
A source string `"/a/@d/b"` with marker `d` listed becomes the pattern
`lit '/', lit 'a', lit '/', plus digit, lit '/', lit 'b'` (the code builds
`/a/(?:[0-9]+)/b` by `regex::escape` + `str::replace`).
-/
import RioModel.Model.RouterSpec

namespace Rio.Router

/-! ### The token matcher -/

def Cls.test (ic : Bool) : Cls → Char → Bool
  | .digit, c => c.isDigit
  | .lower, c => if ic then c.isAlpha else c.isLower
  | .notSlash, c => c != '/'
  | .any, c => c != '\n'

def litEq (ic : Bool) (a b : Char) : Bool := if ic then a.toLower == b.toLower else a == b

/-- `cls*` followed by the continuation `k` (all split points are tried). -/
def starK (ic : Bool) (cls : Cls) (k : List Char → Bool) : List Char → Bool
  | [] => k []
  | x :: xs => k (x :: xs) || (cls.test ic x && starK ic cls k xs)

/-- The tokens followed by the continuation `k`. -/
def matchK (ic : Bool) : List Tok → (List Char → Bool) → List Char → Bool
  | [], k, s => k s
  | .lit c :: ts, k, s =>
    match s with
    | [] => false
    | x :: xs => litEq ic c x && matchK ic ts k xs
  | .plus cls :: ts, k, s =>
    match s with
    | [] => false
    | x :: xs => cls.test ic x && starK ic cls (matchK ic ts k) xs
  | .star cls :: ts, k, s => starK ic cls (matchK ic ts k) s

/-- `^pattern$` (a leaf of the regex tree; `find` of a tree returns the leaves that match). -/
def patFull (ic : Bool) (p : Pat) (s : String) : Bool := matchK ic p (fun r => r.isEmpty) s.toList

def searchK (ic : Bool) (p : Pat) : List Char → Bool
  | [] => matchK ic p (fun _ => true) []
  | x :: xs => matchK ic p (fun _ => true) (x :: xs) || searchK ic p xs

/-- Unanchored `Regex::new(pattern).is_match(s)` (`ValueCondition::MatchRegex`). -/
def patSearch (p : Pat) (s : String) : Bool := searchK false p s.toList

/-! ### Source strings to patterns (`MarkerString::new`) -/

def markerTok : Char → Option Tok
  | 'd' => some (.plus .digit)
  | 'l' => some (.plus .lower)
  | 's' => some (.plus .notSlash)
  | 'x' => some (.star .any)
  | _ => none

/-- `regex.replace("@name", "(?:regex)")` for every listed marker. -/
def tokenize (markers : List Char) : List Char → List Tok
  | [] => []
  | [c] => [.lit c]
  | c :: d :: rest =>
    if c == '@' && markers.contains d then
      match markerTok d with
      | some t => t :: tokenize markers rest
      | none => .lit c :: tokenize markers (d :: rest)
    else .lit c :: tokenize markers (d :: rest)

def Tok.isLit : Tok → Bool
  | .lit _ => true
  | _ => false

/-- `StaticOrDynamic::new_with_markers(str, markers, ignore_case)`. -/
def sodOf (ic : Bool) (markers : List Char) (s : String) : SoD :=
  let toks := tokenize markers s.toList
  if toks.all Tok.isLit then .static (if ic then s.toLower else s) else .dyn toks

/-! ### Abstract rule / request descriptions (the case format of c01 / c02 / c17) -/

structure Cfg where
  ignoreHostCase : Bool
  ignoreHeaderCase : Bool
  ignorePathCase : Bool
  alwaysAnyHost : Bool
deriving Repr, Inhabited

structure HeaderDesc where
  name : String
  kind : String
  value : Option String
deriving Repr, Inhabited

structure RuleDesc where
  id : String
  rank : Nat
  scheme : Option String
  host : Option String
  markers : List Char
  ips : Option (List RouteIp)
  methods : Option (List String)
  exclude : Option Bool
  headers : List HeaderDesc
  datetime : Option (List DRange)
  time : Option (List DRange)
  weekdays : Option (List Nat)
  path : String
deriving Repr, Inhabited

structure ReqDesc where
  scheme : Option String
  host : Option String
  method : Option String
  headers : List (String × String)
  ip : Option Ip
  createdAt : Option Nat
  path : String
deriving Repr, Inhabited

def envOf (cfg : Cfg) : Env where
  alwaysAnyHost := cfg.alwaysAnyHost
  hostFind := patFull cfg.ignoreHostCase
  pathFind := patFull cfg.ignorePathCase
  headerRegex := patSearch
  lower := String.toLower

/-- `Rule::headers(ignore_case)`. -/
def headerOf (ic : Bool) (markers : List Char) (h : HeaderDesc) : Option RouteHeader :=
  let v (f : String → HKind) : Option RouteHeader :=
    h.value.map (fun s => ⟨h.name, f (if ic then s.toLower else s)⟩)
  match h.kind with
  | "is_defined" => some ⟨h.name, .isDefined⟩
  | "is_not_defined" => some ⟨h.name, .isNotDefined⟩
  | "is_equals" => v .isEquals
  | "is_not_equal_to" => v .isNotEqualTo
  | "contains" => v .contains
  | "does_not_contain" => v .doesNotContain
  | "ends_with" => v .endsWith
  | "starts_with" => v .startsWith
  | "match_regex" =>
    match h.value with
    | none => none
    | some s =>
      let toks := tokenize markers s.toList
      if toks.all Tok.isLit then none else some ⟨h.name, .matchRegex toks⟩
  | _ => none

def noneIfEmpty {α : Type} : Option (List α) → Option (List α)
  | some [] => none
  | o => o

/-- `impl IntoRoute<Rule> for Rule`. -/
def mkRoute (cfg : Cfg) (d : RuleDesc) : Route where
  id := d.id
  priority := 0 - (d.rank : Int)
  scheme := d.scheme
  host := d.host.map (sodOf cfg.ignoreHostCase d.markers)
  ips := noneIfEmpty d.ips
  methods := d.methods
  excludeMethods := d.exclude
  headers := d.headers.filterMap (headerOf cfg.ignoreHeaderCase d.markers)
  datetime := noneIfEmpty d.datetime
  time := noneIfEmpty d.time
  weekdays := noneIfEmpty d.weekdays
  path := sodOf cfg.ignorePathCase d.markers d.path

/-- `Request::from_config` + `add_header(.., config.ignore_header_case)` + `created_at`,
then `Request::path_and_query()` (on the generator's path alphabet normalisation is the identity
up to lower-casing). -/
def mkReq (cfg : Cfg) (d : ReqDesc) : Req where
  scheme := d.scheme
  host := d.host.map (fun h => if cfg.ignoreHostCase then h.toLower else h)
  method := d.method
  headers := d.headers.map (fun h => (h.1, if cfg.ignoreHeaderCase then h.2.toLower else h.2))
  ip := d.ip
  createdAt := d.createdAt
  path := if cfg.ignorePathCase then d.path.toLower else d.path

/-- Canonical observation: sorted ids (duplicates kept). -/
def sortedIds (rs : List Route) : List String :=
  (rs.map (·.id)).mergeSort (fun a b => decide (a ≤ b))

end Rio.Router
