/-
Null-pointer behaviour of the `extern "C"` surface (C07: "the C entry points additionally accept null
pointers wherever their contract says so").

`Rio.Consts.ffiNullTable` is regenerated from the source on every run (tools/consts.d/w8_ffi.py): for each
entry point, its nullable parameters and — in source order — the null checks, the dereferences and the
hand-overs to null-safe helpers.  This file gives the table its meaning: running an entry point under a
*null pattern* (which parameters are null) either reaches a dereference of a null parameter (undefined
behaviour, in practice a crash of the host) or does not.
-/
import RioModel.Generated.Consts

namespace Rio.FfiNull

inductive Ev where
  | guard (p : Nat)      -- `if p.is_null() { … return … }`
  | deref (p : Nat)      -- `&*p`, `&mut *p`, `Box::from_raw(p)`, `CStr::from_ptr(p)`
  | derefElse (p : Nat)  -- a dereference inside `if p.is_null() { … } else { HERE }`
  | helper (p : Nat)     -- handed to a null-safe helper / returned as a value
  | unknown              -- an event kind the model does not know: never safe
deriving DecidableEq, Repr

/-- event codes of the generated table: 0 = guard, 1 = deref, 2 = derefElse, 3 = helper -/
def Ev.ofPair : Nat × Nat → Ev
  | (0, p) => .guard p
  | (1, p) => .deref p
  | (2, p) => .derefElse p
  | (3, p) => .helper p
  | _ => .unknown

/-- Outcome of running the events under a null pattern (`nulls[p] = true` ⇔ parameter `p` is null;
an index outside the pattern counts as null: fail closed). -/
inductive Outcome where
  | returnedEarly (p : Nat)   -- left through the null check of parameter `p`
  | completed                 -- ran to the end without dereferencing a null parameter
  | nullDeref (p : Nat)       -- dereferenced the null parameter `p`
deriving DecidableEq, Repr

def isNull (nulls : List Bool) (p : Nat) : Bool := nulls.getD p true

def run (nulls : List Bool) : List Ev → Outcome
  | [] => .completed
  | .guard p :: rest => if isNull nulls p then .returnedEarly p else run nulls rest
  | .deref p :: rest => if isNull nulls p then .nullDeref p else run nulls rest
  | .derefElse _ :: rest => run nulls rest
  | .helper _ :: rest => run nulls rest
  | .unknown :: _ => .nullDeref 0

def Outcome.safe : Outcome → Bool
  | .nullDeref _ => false
  | _ => true

/-- All null patterns over `n` parameters. -/
def patterns : Nat → List (List Bool)
  | 0 => [[]]
  | n + 1 => (patterns n).flatMap fun p => [false :: p, true :: p]

structure Entry where
  name : String
  params : List String
  evs : List Ev
deriving Repr

def table : List Entry :=
  Rio.Consts.ffiNullTable.map fun (name, params, evs) => ⟨name, params, evs.map Ev.ofPair⟩

/-- The entry point is safe under every null pattern of its nullable parameters. -/
def Entry.safeAll (e : Entry) : Bool :=
  (patterns e.params.length).all fun nulls => (run nulls e.evs).safe

def find? (name : String) : Option Entry := table.find? (·.name == name)

end Rio.FfiNull
