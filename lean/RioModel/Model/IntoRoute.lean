/-
Model of `impl IntoRoute<Rule> for Rule` (src/api/rule.rs) from a *rule-source record* — the fields of
`api::Rule` / `api::Source` that the conversion reads, as they come out of the JSON (cidrs, instants,
times of day and week days still as strings; path and query as the UTF-8 bytes of the strings) — to
the router model's `Route` (W2, Model/RouterBase.lean).

  Rule::into_route        `intoRoute`        priority = 0 - rank, id, methods / exclude_methods / scheme copied
  Rule::host              `routeHost`        `StaticOrDynamic::new_with_markers(host, markers, ignore_host_case)`
  Rule::path_and_query    `routePath`        sorted + re-encoded query (W7's URL model: `buildSortedQuery`,
                                             `pctEncode` with the sets regenerated from the source), then
                                             `new_with_markers(.., ignore_path_and_query_case)`
  Rule::headers           `routeHeaders`     the nine kinds (W2's `headerOf` transcribes the `match`), unknown
                                             kinds / missing values / marker-less `match_regex` skipped
  Rule::route_ips         `routeIps`         unparsable cidrs dropped, empty ⇒ `None`
  Rule::route_datetimes   `routeDateTimes`   `RouteDateTime::from_range`: an unparsable bound becomes OPEN
  Rule::route_times       `routeTimes`       `RouteTime::from_range`: same
  Rule::route_weekdays    `routeWeekdays`    `RouteWeekday::from_weekdays`: unparsable names dropped, empty ⇒ `None`

The four external parsers (`str::parse::<AnyIpCidr>`, `::<DateTime<Utc>>`, `::<NaiveTime>`,
`::<Weekday>`: crates `cidr` and `chrono`) are a PARAMETER (`Parsers`); every theorem holds for all
parsers.  `Parsers.std` is the executable stand-in used by the correspondence on the syntax the
generator produces (dotted-quad cidrs, RFC 3339 instants with `Z` / numeric offsets, `HH:MM:SS`,
English week-day names) — hand-modelled and differential-tested, not verified.
Markers are W2's menu (`d l s x`, one character per name); marker substitution proper is C10.
-/
import RioModel.Model.RouterParse
import RioModel.Model.Url

namespace Rio.IntoRoute
open Rio.Router
open Rio.Url (Bytes)

/-- `api::IpConstraint`: `InRange(String)` / `NotInRange(String)`. -/
structure IpSource where
  neg : Bool
  range : String
deriving DecidableEq, Repr, Inhabited

/-- `api::DateTimeConstraint(Option<String>, Option<String>)`. -/
abbrev RangeSource := Option String × Option String

/-- The fields of `api::Rule` + `api::Source` read by `into_route`. -/
structure RuleSource where
  id : String
  rank : Nat
  scheme : Option String
  host : Option String
  /-- UTF-8 bytes of `source.path` -/
  path : Bytes
  /-- UTF-8 bytes of `source.query` -/
  query : Option Bytes
  /-- names of the rule's markers (W2's one-letter menu) -/
  markers : List Char
  ips : Option (List IpSource)
  methods : Option (List String)
  excludeMethods : Option Bool
  headers : Option (List HeaderDesc)
  datetime : Option (List RangeSource)
  time : Option (List RangeSource)
  weekdays : Option (List String)
deriving Repr, Inhabited

/-- The external parsers (crates `cidr`, `chrono`): `none` = `Err`. -/
structure Parsers where
  cidr : String → Option Cidr
  /-- epoch seconds of `dt.naive_utc()` -/
  dateTime : String → Option Nat
  /-- seconds since midnight -/
  time : String → Option Nat
  /-- `num_days_from_monday` -/
  weekday : String → Option Nat

section
variable (P : Parsers)

/-- `Rule::route_ips`. -/
def routeIps (ips : Option (List IpSource)) : Option (List RouteIp) :=
  match ips with
  | none => none
  | some l =>
    let routeIps := l.filterMap fun ip =>
      match P.cidr ip.range with
      | some c => some (if ip.neg then RouteIp.notInRange c else RouteIp.inRange c)
      | none => none
    if routeIps.isEmpty then none else some routeIps

/-- `RouteDateTime::from_range` / `RouteTime::from_range`: each bound parsed on its own; a bound
that does not parse is logged and left `None`. -/
def rangeOf (parse : String → Option Nat) (r : RangeSource) : DRange :=
  ⟨match r.1 with | none => none | some s => parse s,
   match r.2 with | none => none | some s => parse s⟩

/-- `Rule::route_datetimes`. -/
def routeDateTimes (d : Option (List RangeSource)) : Option (List DRange) :=
  let rs := match d with | none => [] | some l => l.map (rangeOf P.dateTime)
  if rs.isEmpty then none else some rs

/-- `Rule::route_times`. -/
def routeTimes (d : Option (List RangeSource)) : Option (List DRange) :=
  let rs := match d with | none => [] | some l => l.map (rangeOf P.time)
  if rs.isEmpty then none else some rs

/-- `Rule::route_weekdays` + `RouteWeekday::from_weekdays`. -/
def routeWeekdays (w : Option (List String)) : Option (List Nat) :=
  match w with
  | none => none
  | some l =>
    let ws := l.filterMap P.weekday
    if ws.isEmpty then none else some ws

end

/-- ASCII bytes as a `String` (the percent-encoded path is pure ASCII). -/
def asciiStr (b : Bytes) : String := String.ofList (b.map Char.ofNat)

/-- The string `Rule::path_and_query` hands to `new_with_markers`: encoded path, `?`, sorted and
re-encoded query. -/
def rulePathBytes (path : Bytes) (query : Option Bytes) : Bytes :=
  let q := match query with
    | none => none
    | some sourceQuery => Rio.Url.buildSortedQuery sourceQuery
  let p := Rio.Url.pctEncode Rio.Url.ruleUrlSet path
  match q with
  | some queryString => p ++ 63 :: Rio.Url.pctEncode Rio.Url.ruleQuerySet queryString
  | none => p

/-- `StaticOrDynamic::new_with_markers(str, markers, ignore_case)` on an ASCII byte string:
`Static(lower-cased iff ignore_case)` unless a listed marker occurs. -/
def sodOfBytes (ic : Bool) (markers : List Char) (k : Bytes) : SoD :=
  let toks := tokenize markers (asciiStr k).toList
  if toks.all Tok.isLit then .static (asciiStr (Rio.Url.lowerIf ic k)) else .dyn toks

/-- `Rule::path_and_query(ignore_case)`. -/
def routePath (ic : Bool) (src : RuleSource) : SoD :=
  sodOfBytes ic src.markers (rulePathBytes src.path src.query)

/-- `Rule::host(ignore_case)`. -/
def routeHost (ic : Bool) (src : RuleSource) : Option SoD :=
  src.host.map (sodOf ic src.markers)

/-- `Rule::headers(ignore_case)`. -/
def routeHeaders (ic : Bool) (src : RuleSource) : List RouteHeader :=
  (match src.headers with | none => [] | some hs => hs).filterMap (headerOf ic src.markers)

/-- `impl IntoRoute<Rule> for Rule { fn into_route(self, config) }`. -/
def intoRoute (P : Parsers) (cfg : Cfg) (src : RuleSource) : Route where
  id := src.id
  priority := 0 - (src.rank : Int)
  scheme := src.scheme
  host := routeHost cfg.ignoreHostCase src
  ips := routeIps P src.ips
  methods := src.methods
  excludeMethods := src.excludeMethods
  headers := routeHeaders cfg.ignoreHeaderCase src
  datetime := routeDateTimes P src.datetime
  time := routeTimes P src.time
  weekdays := routeWeekdays P src.weekdays
  path := routePath cfg.ignorePathCase src

/-! ### Executable stand-ins for the external parsers (correspondence only) -/

namespace Std

def digitsToNat (cs : List Char) : Option Nat :=
  if cs.isEmpty || !cs.all Char.isDigit then none
  else some (cs.foldl (fun n c => n * 10 + (c.toNat - '0'.toNat)) 0)

def splitOn (sep : Char) (cs : List Char) : List (List Char) :=
  let r := cs.foldr (fun c (acc : List Char × List (List Char)) =>
    if c == sep then ([], acc.1 :: acc.2) else (c :: acc.1, acc.2)) ([], [])
  r.1 :: r.2

/-- An octet as `Ipv4Addr::from_str` accepts it: 1-3 digits, no leading zero, ≤ 255. -/
def octet (cs : List Char) : Option Nat :=
  match digitsToNat cs with
  | some n => if n ≤ 255 && cs.length ≤ 3 && !(cs.length > 1 && cs.head? == some '0') then some n else none
  | none => none

def hexVal (c : Char) : Option Nat :=
  if c.isDigit then some (c.toNat - '0'.toNat)
  else if 'a' ≤ c ∧ c ≤ 'f' then some (c.toNat - 'a'.toNat + 10)
  else if 'A' ≤ c ∧ c ≤ 'F' then some (c.toNat - 'A'.toNat + 10)
  else none

/-- one group of an IPv6 address: 1-4 hex digits -/
def hexGroup (cs : List Char) : Option Nat :=
  if cs.isEmpty || cs.length > 4 then none
  else (cs.mapM hexVal).map fun ds => ds.foldl (fun n d => n * 16 + d) 0

def ipv4 (cs : List Char) : Option Nat :=
  match (splitOn '.' cs).mapM octet with
  | some [a, b, c, d] => some (((a * 256 + b) * 256 + c) * 256 + d)
  | _ => none

/-- `:`-separated groups; the LAST one may be a dotted quad (two groups).  `none` = malformed. -/
def v6Groups (allowV4 : Bool) (cs : List Char) : Option (List Nat) :=
  if cs.isEmpty then some []
  else
    let parts := splitOn ':' cs
    let front := parts.dropLast
    match parts.getLast? with
    | none => some []
    | some last =>
      match front.mapM hexGroup with
      | none => none
      | some fs =>
        match hexGroup last with
        | some g => some (fs ++ [g])
        | none =>
          if allowV4 then (ipv4 last).map fun v => fs ++ [v / 65536, v % 65536] else none

/-- first occurrence of `::` : (before, after) -/
def splitDoubleColon : List Char → Option (List Char × List Char)
  | [] => none
  | [_] => none
  | a :: b :: rest =>
    if a == ':' && b == ':' then some ([], rest)
    else (splitDoubleColon (b :: rest)).map fun p => (a :: p.1, p.2)

/-- `Ipv6Addr::from_str`: eight 16-bit groups, `::` standing for at least one zero group, an embedded IPv4 tail. -/
def ipv6 (cs : List Char) : Option Nat :=
  let value (gs : List Nat) : Nat := gs.foldl (fun n g => n * 65536 + g) 0
  match splitDoubleColon cs with
  | none =>
    match v6Groups true cs with
    | some gs => if gs.length == 8 then some (value gs) else none
    | none => none
  | some (head, tail) =>
    match v6Groups false head, v6Groups true tail with
    | some hs, some ts =>
      if hs.length + ts.length ≤ 7 then some (value (hs ++ List.replicate (8 - hs.length - ts.length) 0 ++ ts))
      else none
    | _, _ => none

/-- `u8::from_str` (the prefix length): an optional `+`, then digits (leading zeros allowed), ≤ 255. -/
def u8 (cs : List Char) : Option Nat :=
  let ds := match cs with | '+' :: r => r | r => r
  match digitsToNat ds with
  | some n => if n ≤ 255 then some n else none
  | none => none

/-- `AnyIpCidr::from_str` for addresses and networks of both families (NOT the literal `any`, see `cidrInScope`):
`addr` = a host network (/32, /128), `addr/len` with `len` ≤ the family width and a zero host part. -/
def cidr (s : String) : Option Cidr :=
  let mk (v6 : Bool) (v : Nat) (len : Option Nat) : Option Cidr :=
    let w := if v6 then 128 else 32
    match len with
    | none => some ⟨v6, v, w⟩
    | some n => if n ≤ w && v % 2 ^ (w - n) == 0 then some ⟨v6, v, n⟩ else none
  let addr (cs : List Char) : Option (Bool × Nat) :=
    match ipv4 cs with
    | some v => some (false, v)
    | none => (ipv6 cs).map fun v => (true, v)
  match splitOn '/' s.toList with
  | [a] => (addr a).bind fun p => mk p.1 p.2 none
  | [a, len] =>
    match addr a, u8 len with
    | some p, some n => mk p.1 p.2 (some n)
    | _, _ => none
  | _ => none

/-- The stand-in does not represent `AnyIpCidr::Any` (the literal `any`): such a range is outside its scope. -/
def cidrInScope (s : String) : Bool := s != "any"

def isLeap (y : Nat) : Bool := (y % 4 == 0 && y % 100 != 0) || y % 400 == 0

def daysInMonth (y m : Nat) : Nat :=
  if m == 2 then (if isLeap y then 29 else 28)
  else if m == 4 || m == 6 || m == 9 || m == 11 then 30 else 31

/-- days since 1970-01-01 of a civil date (years ≥ 1970). -/
def daysFromCivil (y m d : Nat) : Nat :=
  let yearDays := (List.range (y - 1970)).foldl (fun acc i => acc + (if isLeap (1970 + i) then 366 else 365)) 0
  let monthDays := (List.range (m - 1)).foldl (fun acc i => acc + daysInMonth y (i + 1)) 0
  yearDays + monthDays + (d - 1)

def fixed (n : Nat) (cs : List Char) : Option Nat := if cs.length == n then digitsToNat cs else none

def hms (cs : List Char) : Option Nat :=
  match splitOn ':' cs with
  | [h, m, s] =>
    match fixed 2 h, fixed 2 m, fixed 2 s with
    | some h, some m, some s =>
      -- second 60 is a leap second: chrono keeps it as second 59 (+ a nanosecond part)
      if h < 24 && m < 60 && s ≤ 60 then some (h * 3600 + m * 60 + min s 59) else none
    | _, _, _ => none
  | _ => none

/-- `"HH:MM:SS"` (`NaiveTime::from_str`, the form the generator uses). -/
def time (s : String) : Option Nat := hms s.toList

/-- `"YYYY-MM-DDTHH:MM:SS"` followed by `Z` or `±HH:MM` (RFC 3339; `DateTime<Utc>::from_str`), years
1970-9999, as epoch seconds of the UTC instant. -/
def dateTime (s : String) : Option Nat :=
  let cs := s.toList
  if cs.length < 20 then none
  else
    let date := cs.take 10
    let sep := cs.drop 10 |>.take 1
    let tod := cs.drop 11 |>.take 8
    let zone := cs.drop 19
    if sep != ['T'] then none
    else
      match splitOn '-' date with
      | [y, m, d] =>
        match fixed 4 y, fixed 2 m, fixed 2 d, hms tod with
        | some y, some m, some d, some t =>
          if y < 1970 || m < 1 || m > 12 || d < 1 || d > daysInMonth y m then none
          else
            let base := daysFromCivil y m d * 86400 + t
            if zone == ['Z'] then some base
            else
              match zone with
              | sign :: rest =>
                match splitOn ':' rest with
                | [oh, om] =>
                  match fixed 2 oh, fixed 2 om with
                  | some oh, some om =>
                    if oh ≥ 24 || om ≥ 60 then none
                    else
                      let off := oh * 3600 + om * 60
                      if sign == '+' then (if off ≤ base then some (base - off) else none)
                      else if sign == '-' then some (base + off)
                      else none
                  | _, _ => none
                | _ => none
              | [] => none
        | _, _, _, _ => none
      | _ => none

def hasDigit (s : String) : Bool := s.toList.any Char.isDigit

def shape (pat : List Char) (cs : List Char) : Bool :=
  pat.length == cs.length && (pat.zip cs).all fun (p, c) => if p == 'd' then c.isDigit else p == c

/-- Scope of the `NaiveTime` stand-in: exactly `dd:dd:dd`, or a text without any digit (always rejected).  chrono also
accepts single digits, optional seconds, fractions and white space between the parts: outside the stand-in. -/
def timeInScope (s : String) : Bool := shape "dd:dd:dd".toList s.toList || !hasDigit s

/-- Scope of the `DateTime<Utc>` stand-in: `dddd-dd-ddTdd:dd:dd` + `Z` or `±dd:dd`, or a text without any digit.
chrono also accepts a space / lower-case separator, white space, fractions, `+hhmm`, a signed year: outside. -/
def dateTimeInScope (s : String) : Bool :=
  let cs := s.toList
  let year := (digitsToNat (cs.take 4)).getD 0
  let plus := shape "dddd-dd-ddTdd:dd:dd+dd:dd".toList cs
  -- instants before the epoch (negative timestamps) are outside the stand-in (`Nat` seconds)
  ((shape "dddd-dd-ddTdd:dd:ddZ".toList cs || plus || shape "dddd-dd-ddTdd:dd:dd-dd:dd".toList cs) &&
      (year ≥ 1971 || (year == 1970 && !plus))) || !hasDigit s

/-- English week-day names, short or long, any case (`Weekday::from_str`). -/
def weekday (s : String) : Option Nat :=
  let l := s.toLower
  if l == "mon" || l == "monday" then some 0
  else if l == "tue" || l == "tuesday" then some 1
  else if l == "wed" || l == "wednesday" then some 2
  else if l == "thu" || l == "thursday" then some 3
  else if l == "fri" || l == "friday" then some 4
  else if l == "sat" || l == "saturday" then some 5
  else if l == "sun" || l == "sunday" then some 6
  else none

end Std

def Parsers.std : Parsers := ⟨Std.cidr, Std.dateTime, Std.time, Std.weekday⟩

end Rio.IntoRoute
