/-
Model of `impl IntoRoute<Rule> for Rule` (src/api/rule.rs) from a *rule-source record* — the fields of
`api::Rule` / `api::Source` that the conversion reads, as they come out of the JSON (cidrs, instants,
times of day and week days still as strings; path and query as the UTF-8 bytes of the strings) — to
the router model's `Route` (W2, Model/RouterBase.lean).

  Rule::into_route        `intoRoute`        priority = 0 - rank, id, methods / exclude_methods / scheme copied
  Rule::host              `routeHost`        `StaticOrDynamic::new_with_markers(host, markers, ignore_host_case)`
  Rule::path_and_query    `routePath`        sorted + re-encoded query (W7's URL model: `buildSortedQuery`,
                                             `pctEncode` with the sets regenerated from the source), then
                                             `new_with_markers(.., ignore_path_and_query_case)`
  Rule::headers           `routeHeaders`     the nine kinds (W2's `headerOf` transcribes the `match`), unknown
                                             kinds / missing values / marker-less `match_regex` skipped
  Rule::route_ips         `routeIps`         unparsable cidrs dropped, empty ⇒ `None`
  Rule::route_datetimes   `routeDateTimes`   `RouteDateTime::from_range`: an unparsable bound becomes OPEN
  Rule::route_times       `routeTimes`       `RouteTime::from_range`: same
  Rule::route_weekdays    `routeWeekdays`    `RouteWeekday::from_weekdays`: unparsable names dropped, empty ⇒ `None`

The four external parsers (`str::parse::<AnyIpCidr>`, `::<DateTime<Utc>>`, `::<NaiveTime>`,
`::<Weekday>`: crates `cidr` and `chrono`) are a PARAMETER (`Parsers`); every theorem holds for all
parsers.  `Parsers.std` is the executable stand-in used by the correspondence on the syntax the
generator produces (dotted-quad cidrs, RFC 3339 instants with `Z` / numeric offsets, `HH:MM:SS`,
English week-day names) — hand-modelled and differential-tested, not verified.
Markers are W2's menu (`d l s x`, one character per name); marker substitution proper is C10.
-/
import RioModel.Model.RouterParse
import RioModel.Model.Url

namespace Rio.IntoRoute
open Rio.Router
open Rio.Url (Bytes)

/-- `api::IpConstraint`: `InRange(String)` / `NotInRange(String)`. -/
structure IpSource where
  neg : Bool
  range : String
deriving DecidableEq, Repr, Inhabited

/-- `api::DateTimeConstraint(Option<String>, Option<String>)`. -/
abbrev RangeSource := Option String × Option String

/-- The fields of `api::Rule` + `api::Source` read by `into_route`. -/
structure RuleSource where
  id : String
  rank : Nat
  scheme : Option String
  host : Option String
  /-- UTF-8 bytes of `source.path` -/
  path : Bytes
  /-- UTF-8 bytes of `source.query` -/
  query : Option Bytes
  /-- names of the rule's markers (W2's one-letter menu) -/
  markers : List Char
  ips : Option (List IpSource)
  methods : Option (List String)
  excludeMethods : Option Bool
  headers : Option (List HeaderDesc)
  datetime : Option (List RangeSource)
  time : Option (List RangeSource)
  weekdays : Option (List String)
deriving Repr, Inhabited

/-- The external parsers (crates `cidr`, `chrono`): `none` = `Err`. -/
structure Parsers where
  cidr : String → Option Cidr
  /-- epoch seconds of `dt.naive_utc()` -/
  dateTime : String → Option Nat
  /-- seconds since midnight -/
  time : String → Option Nat
  /-- `num_days_from_monday` -/
  weekday : String → Option Nat

section
variable (P : Parsers)

/-- `Rule::route_ips`. -/
def routeIps (ips : Option (List IpSource)) : Option (List RouteIp) :=
  match ips with
  | none => none
  | some l =>
    let routeIps := l.filterMap fun ip =>
      match P.cidr ip.range with
      | some c => some (if ip.neg then RouteIp.notInRange c else RouteIp.inRange c)
      | none => none
    if routeIps.isEmpty then none else some routeIps

/-- `RouteDateTime::from_range` / `RouteTime::from_range`: each bound parsed on its own; a bound
that does not parse is logged and left `None`. -/
def rangeOf (parse : String → Option Nat) (r : RangeSource) : DRange :=
  ⟨match r.1 with | none => none | some s => parse s,
   match r.2 with | none => none | some s => parse s⟩

/-- `Rule::route_datetimes`. -/
def routeDateTimes (d : Option (List RangeSource)) : Option (List DRange) :=
  let rs := match d with | none => [] | some l => l.map (rangeOf P.dateTime)
  if rs.isEmpty then none else some rs

/-- `Rule::route_times`. -/
def routeTimes (d : Option (List RangeSource)) : Option (List DRange) :=
  let rs := match d with | none => [] | some l => l.map (rangeOf P.time)
  if rs.isEmpty then none else some rs

/-- `Rule::route_weekdays` + `RouteWeekday::from_weekdays`. -/
def routeWeekdays (w : Option (List String)) : Option (List Nat) :=
  match w with
  | none => none
  | some l =>
    let ws := l.filterMap P.weekday
    if ws.isEmpty then none else some ws

end

/-- ASCII bytes as a `String` (the percent-encoded path is pure ASCII). -/
def asciiStr (b : Bytes) : String := String.ofList (b.map Char.ofNat)

/-- The string `Rule::path_and_query` hands to `new_with_markers`: encoded path, `?`, sorted and
re-encoded query. -/
def rulePathBytes (path : Bytes) (query : Option Bytes) : Bytes :=
  let q := match query with
    | none => none
    | some sourceQuery => Rio.Url.buildSortedQuery sourceQuery
  let p := Rio.Url.pctEncode Rio.Url.ruleUrlSet path
  match q with
  | some queryString => p ++ 63 :: Rio.Url.pctEncode Rio.Url.ruleQuerySet queryString
  | none => p

/-- `StaticOrDynamic::new_with_markers(str, markers, ignore_case)` on an ASCII byte string:
`Static(lower-cased iff ignore_case)` unless a listed marker occurs. -/
def sodOfBytes (ic : Bool) (markers : List Char) (k : Bytes) : SoD :=
  let toks := tokenize markers (asciiStr k).toList
  if toks.all Tok.isLit then .static (asciiStr (Rio.Url.lowerIf ic k)) else .dyn toks

/-- `Rule::path_and_query(ignore_case)`. -/
def routePath (ic : Bool) (src : RuleSource) : SoD :=
  sodOfBytes ic src.markers (rulePathBytes src.path src.query)

/-- `Rule::host(ignore_case)`. -/
def routeHost (ic : Bool) (src : RuleSource) : Option SoD :=
  src.host.map (sodOf ic src.markers)

/-- `Rule::headers(ignore_case)`. -/
def routeHeaders (ic : Bool) (src : RuleSource) : List RouteHeader :=
  (match src.headers with | none => [] | some hs => hs).filterMap (headerOf ic src.markers)

/-- `impl IntoRoute<Rule> for Rule { fn into_route(self, config) }`. -/
def intoRoute (P : Parsers) (cfg : Cfg) (src : RuleSource) : Route where
  id := src.id
  priority := 0 - (src.rank : Int)
  scheme := src.scheme
  host := routeHost cfg.ignoreHostCase src
  ips := routeIps P src.ips
  methods := src.methods
  excludeMethods := src.excludeMethods
  headers := routeHeaders cfg.ignoreHeaderCase src
  datetime := routeDateTimes P src.datetime
  time := routeTimes P src.time
  weekdays := routeWeekdays P src.weekdays
  path := routePath cfg.ignorePathCase src

/-! ### Executable stand-ins for the external parsers (correspondence only) -/

namespace Std

def digitsToNat (cs : List Char) : Option Nat :=
  if cs.isEmpty || !cs.all Char.isDigit then none
  else some (cs.foldl (fun n c => n * 10 + (c.toNat - '0'.toNat)) 0)

def splitOn (sep : Char) (cs : List Char) : List (List Char) :=
  let r := cs.foldr (fun c (acc : List Char × List (List Char)) =>
    if c == sep then ([], acc.1 :: acc.2) else (c :: acc.1, acc.2)) ([], [])
  r.1 :: r.2

/-- An octet as `Ipv4Addr::from_str` accepts it: 1-3 digits, no leading zero, ≤ 255. -/
def octet (cs : List Char) : Option Nat :=
  match digitsToNat cs with
  | some n => if n ≤ 255 && cs.length ≤ 3 && !(cs.length > 1 && cs.head? == some '0') then some n else none
  | none => none

/-- `"a.b.c.d"` or `"a.b.c.d/n"` (`AnyIpCidr::from_str`, IPv4 part): the host part must be zero. -/
def cidr (s : String) : Option Cidr :=
  match splitOn '/' s.toList with
  | [addr] =>
    match (splitOn '.' addr).mapM octet with
    | some [a, b, c, d] => some ⟨false, ((a * 256 + b) * 256 + c) * 256 + d, 32⟩
    | _ => none
  | [addr, len] =>
    match (splitOn '.' addr).mapM octet, digitsToNat len with
    | some [a, b, c, d], some n =>
      let v := ((a * 256 + b) * 256 + c) * 256 + d
      if n ≤ 32 && len.length ≤ 2 && v % 2 ^ (32 - n) == 0 then some ⟨false, v, n⟩ else none
    | _, _ => none
  | _ => none

def isLeap (y : Nat) : Bool := (y % 4 == 0 && y % 100 != 0) || y % 400 == 0

def daysInMonth (y m : Nat) : Nat :=
  if m == 2 then (if isLeap y then 29 else 28)
  else if m == 4 || m == 6 || m == 9 || m == 11 then 30 else 31

/-- days since 1970-01-01 of a civil date (years ≥ 1970). -/
def daysFromCivil (y m d : Nat) : Nat :=
  let yearDays := (List.range (y - 1970)).foldl (fun acc i => acc + (if isLeap (1970 + i) then 366 else 365)) 0
  let monthDays := (List.range (m - 1)).foldl (fun acc i => acc + daysInMonth y (i + 1)) 0
  yearDays + monthDays + (d - 1)

def fixed (n : Nat) (cs : List Char) : Option Nat := if cs.length == n then digitsToNat cs else none

def hms (cs : List Char) : Option Nat :=
  match splitOn ':' cs with
  | [h, m, s] =>
    match fixed 2 h, fixed 2 m, fixed 2 s with
    | some h, some m, some s => if h < 24 && m < 60 && s < 60 then some (h * 3600 + m * 60 + s) else none
    | _, _, _ => none
  | _ => none

/-- `"HH:MM:SS"` (`NaiveTime::from_str`, the form the generator uses). -/
def time (s : String) : Option Nat := hms s.toList

/-- `"YYYY-MM-DDTHH:MM:SS"` followed by `Z` or `±HH:MM` (RFC 3339; `DateTime<Utc>::from_str`), years
1970-9999, as epoch seconds of the UTC instant. -/
def dateTime (s : String) : Option Nat :=
  let cs := s.toList
  if cs.length < 20 then none
  else
    let date := cs.take 10
    let sep := cs.drop 10 |>.take 1
    let tod := cs.drop 11 |>.take 8
    let zone := cs.drop 19
    if sep != ['T'] then none
    else
      match splitOn '-' date with
      | [y, m, d] =>
        match fixed 4 y, fixed 2 m, fixed 2 d, hms tod with
        | some y, some m, some d, some t =>
          if y < 1970 || m < 1 || m > 12 || d < 1 || d > daysInMonth y m then none
          else
            let base := daysFromCivil y m d * 86400 + t
            if zone == ['Z'] then some base
            else
              match zone with
              | sign :: rest =>
                match splitOn ':' rest with
                | [oh, om] =>
                  match fixed 2 oh, fixed 2 om with
                  | some oh, some om =>
                    if oh ≥ 24 || om ≥ 60 then none
                    else
                      let off := oh * 3600 + om * 60
                      if sign == '+' then (if off ≤ base then some (base - off) else none)
                      else if sign == '-' then some (base + off)
                      else none
                  | _, _ => none
                | _ => none
              | [] => none
        | _, _, _, _ => none
      | _ => none

/-- English week-day names, short or long, any case (`Weekday::from_str`). -/
def weekday (s : String) : Option Nat :=
  let l := s.toLower
  if l == "mon" || l == "monday" then some 0
  else if l == "tue" || l == "tuesday" then some 1
  else if l == "wed" || l == "wednesday" then some 2
  else if l == "thu" || l == "thursday" then some 3
  else if l == "fri" || l == "friday" then some 4
  else if l == "sat" || l == "saturday" then some 5
  else if l == "sun" || l == "sunday" then some 6
  else none

end Std

def Parsers.std : Parsers := ⟨Std.cidr, Std.dateTime, Std.time, Std.weekday⟩

end Rio.IntoRoute
