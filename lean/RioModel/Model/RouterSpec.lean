/-
Router model, part 3: the flat specification `sat` of property C01 and the specification the
regex-tree layers are modelled by (`TreeSpec`).
-/
import RioModel.Model.RouterLayers

namespace Rio.Router

/-! ## The flat predicate: every trigger of the rule is satisfied by the request -/

/-- Scheme scope of a rule: `none` = any scheme (`scheme` absent or empty). -/
def schemeKey (r : Route) : Option String :=
  match r.scheme with
  | none => none
  | some s => if s = "" then none else some s

/-- scheme trigger -/
def schemeOk (r : Route) (q : Req) : Bool :=
  match schemeKey r with
  | none => true
  | some s => q.scheme == some s

/-- The rule is bound to a host (host present and not the empty string). -/
def hostBound (r : Route) : Bool :=
  match r.host with
  | none => false
  | some (.static h) => h != ""
  | some (.dyn _) => true

section
variable (E : Env)

/-- host trigger -/
def hostOk (r : Route) (q : Req) : Bool :=
  match r.host with
  | none => true
  | some (.static h) => h == "" || q.host == some h
  | some (.dyn p) =>
    match q.host with
    | none => false
    | some h => E.hostFind p h

/-- client-IP trigger: some listed range (or negated range) accepts the address. -/
def ipOk (r : Route) (q : Req) : Bool :=
  match r.ips with
  | none => true
  | some ks =>
    match q.ip with
    | none => false
    | some a => ks.any (fun k => k.matchIp a)

/-- method trigger: list or exclusion (exclusion iff the flag is present); no method = `GET`. -/
def methodOk (r : Route) (q : Req) : Bool :=
  match r.methods with
  | none => true
  | some ms =>
    ms.isEmpty ||
      (if r.excludeMethods.isSome then !ms.contains q.methodStr else ms.contains q.methodStr)

/-- header trigger: all conditions hold. -/
def headersOk (r : Route) (q : Req) : Bool :=
  r.headers.all (fun h => (h.toCond E).eval E q)

/-- date / time-of-day / week-day windows: each present constraint is satisfied by the request's
instant (no instant = not satisfied); windows are start-inclusive, end-exclusive. -/
def dateOk (r : Route) (q : Req) : Bool :=
  (match r.datetime with
   | none => true
   | some rs =>
     match q.createdAt with
     | none => false
     | some t => rs.any (fun w => w.matchInstant t)) &&
  (match r.time with
   | none => true
   | some rs =>
     match q.createdAt with
     | none => false
     | some t => rs.any (fun w => w.matchInstant (timeOfDay t))) &&
  (match r.weekdays with
   | none => true
   | some ws =>
     match q.createdAt with
     | none => false
     | some t => ws.contains (weekdayOf t))

/-- path-and-query trigger: literal equality or pattern match. -/
def pathOk (r : Route) (q : Req) : Bool :=
  match r.path with
  | .static p => p == q.path
  | .dyn p => E.pathFind p q.path

/-- All seven triggers. -/
def triggersOk (r : Route) (q : Req) : Bool :=
  schemeOk r q && hostOk E r q && ipOk r q && methodOk r q && headersOk E r q && dateOk r q &&
    pathOk E r q

/-- `sat cfg R r q`: the triggers hold, and a host-less rule is a candidate iff
`always_match_any_host` or no host-bound rule of the same scheme scope in `R` has all its
triggers satisfied by `q`. -/
def sat (R : List Route) (r : Route) (q : Req) : Bool :=
  triggersOk E r q &&
    (hostBound r || E.alwaysAnyHost ||
      !(R.any (fun r' => hostBound r' && schemeKey r' == schemeKey r && triggersOk E r' q)))

end

/-! ## What the model assumes about the regex radix tree

The two tree layers are modelled by association lists (`HKey.dyn p ↦ bucket` in `HostMatcher`,
`(p, id) ↦ route` in `PathAndQueryMatcher`) and `find` by filtering with `Env.hostFind` /
`Env.pathFind`.  `TreeSpec` states, for an arbitrary implementation `T` of the tree with values
`V`, the refinement obligations under which that is a faithful model; property C08
(`find_spec`, `history_spec`, `len_spec`, `get_spec` of work package W1) discharges them for the
model of `regex_radix_tree/*.rs`, and the correspondence check of C01/C02/C17 exercises them on
the real tree on every run. -/

structure TreeSpec (T V : Type) where
  /-- abstraction: the `(pattern, id) ↦ value` entries stored in the tree -/
  entries : T → List ((Pat × String) × V)
  /-- one pattern of the tree matches a haystack (engine + `ignore_case` flag of the tree) -/
  pmatch : Pat → String → Bool
  empty : T
  insert : Pat → String → V → T → T
  find : T → String → List V
  get : T → Pat → String → Option V
  retain : (String → V → Option V) → T → T
  isEmpty : T → Bool
  entries_empty : entries empty = []
  /-- `insert` replaces the value under an existing `(pattern, id)` or adds an entry -/
  entries_insert : ∀ t p id v,
    (akeys (entries t)).Nodup →
      (akeys (entries (insert p id v t))).Nodup ∧
      ∀ k, alookup k (entries (insert p id v t)) = if k = (p, id) then some v else alookup k (entries t)
  /-- `find` returns exactly the values of the matching patterns (in some order) -/
  find_spec : ∀ t h v, v ∈ find t h ↔ ∃ e ∈ entries t, pmatch e.1.1 h = true ∧ e.2 = v
  /-- `get` / `get_mut` address one entry -/
  get_spec : ∀ t p id, get t p id = alookup (p, id) (entries t)
  /-- `retain` keeps (and updates) exactly the entries the closure keeps -/
  retain_spec : ∀ t f k, (akeys (entries t)).Nodup →
    (akeys (entries (retain f t))).Nodup ∧
    alookup k (entries (retain f t)) = (alookup k (entries t)).bind (f k.2)
  isEmpty_spec : ∀ t, isEmpty t = (entries t).isEmpty

end Rio.Router
