/-
Model of the four project-level analyses of `src/api/`:

  test_examples.rs   `TestExamplesOutput::{from_project, create_result_without_project, create_result,
                      test_example, add_failed_example, add_errored_example}`
  unit_ids.rs        `UnitIdsOutput::{create_result_from_project, create_result_without_project, create_result}`
  explain_request.rs `ExplainRequestOutput::{create_result_from_project, create_result_without_project, create_result}`
  impact.rs          `ImpactOutput::{from_impact_project, create_result, compute_impacts}`
  rules_message.rs   `RuleChangeSet::{update_existing_router, is_empty}`

as functions of

* an ABSTRACT ROUTER VIEW (`View`): what `create_result` reads of a `Router<Rule>` – `router.config`,
  the values of `router.routes()` *in the iteration order of the HashMap* (a list in an arbitrary
  order: nothing may depend on it), `router.match_request(&request)` and `router.trace_request(&request)`;
* an ABSTRACT PER-EXAMPLE PIPELINE (`Pipe`): `Request::from_example`, the accessors of `Example`, and, per
  analysis, everything that is computed from the matched routes, the request and the example
  (`Action::from_routes_rule` with its unit trace, the `get_status_code` convention of that analysis,
  `filter_headers`, the body filter on the fixed probe document, `should_log_request`,
  `squash_with_target_unit_traces`) bundled into ONE function of `(matched routes, request, example)`
  per convention: `evalTest` (test-examples: proxy order, with the log unit), `evalUnit` (unit-ids: proxy
  order, *without* `should_log_request`), `evalExplain` (explain and impact:
  `get_final_status_code_with_fallback(example status or 0, 200)`), `evalHop` (one turn of the redirect
  walker: status and joined `Location`);
* an ABSTRACT ROUTER ALGEBRA (`Alg`): `Router::from_config`, `insert`, `remove`, `apply_change_set` on some
  state type, with `view` giving the `View` of a state.  Project entry points run on
  `apply_change_set(existing router)`, stand-alone entry points on a router filled rule by rule.

The redirect walker itself is W8's `Rio.Loop.compute` (Model/Loop.lean); here its `step` parameter is
instantiated from a `View` and a `Pipe` (`loopStep`).

What is NOT a function of this interface in the Rust code, and how it is treated:
* the iteration order of `router.routes()` – the list `View.routes` is in an unspecified order; outputs
  that are `HashMap`s (`UnitIdsOutput.rules`, `first_ten_failures`, `first_ten_errors`) are association
  lists here and are compared as finite maps (lookup by id);
* `first_ten_failures` / `first_ten_errors` are *truncated in processing order* (`len() <= 10` is tested
  before every push, so up to eleven rules get an entry and the eleventh keeps only its first example):
  transcribed as is (`record`).  Since 9993ef8 `create_result` visits the rules in id order, so the processing
  order – and with it the truncation – is a function of the rule set (`testExamples`); the code before the
  repair is kept as `testExamplesUnordered` (order-independent only when at most ten rules fail / error);
* `match_traces` (`router.trace_request`) exposes the internal forest (buckets emptied by `batch_remove`
  survive, `count` fields differ): `Tr` is abstract and only a canonical projection of it is compared;
* `unit_ids_seen` is re-inserted in `HashMap` order by `squash_with_target_unit_traces`: `UT` / `Core` are
  abstract values of the pipeline, taken in canonical form.
-/
import RioModel.Model.Loop

namespace Rio.Analysis
open Rio.Loop

/-- What the analyses read of a `Router<Rule>`. -/
structure View (Rule Req Cfg Tr : Type) where
  /-- `router.config` -/
  config : Cfg
  /-- the values of `router.routes()` (their handlers), in HashMap iteration order -/
  routes : List Rule
  /-- `router.match_request(&request)` (handlers of the matched routes, in the order returned) -/
  matchReq : Req → List Rule
  /-- `router.trace_request(&request)` -/
  trace : Req → Tr

/-- The rest of the library as the analyses use it (see the header). -/
structure Pipe (Rule Req Cfg Ex Id UId UT Core U M Dom : Type) where
  /-- `rule.id` (also the key of `router.routes()`) -/
  ruleId : Rule → Id
  /-- `a.cmp(b) != Greater` on ids (`String`'s `Ord`: byte-wise), the order `create_result` of test-examples
  sorts the routes with since 9993ef8 -/
  idLe : Id → Id → Bool
  /-- `rule.examples` -/
  examples : Rule → Option (List Ex)
  /-- `Request::from_example(&router.config, example)`; the error is `e.to_string()` -/
  fromExample : Cfg → Ex → Except String Req
  /-- `example.unit_ids_applied` -/
  expected : Ex → Option (List UId)
  /-- `example.must_match` -/
  mustMatch : Ex → Bool
  /-- `final_example.unit_ids_applied = Some(ids)` -/
  setExpected : Ex → List UId → Ex
  /-- `example.url` -/
  url : Ex → U
  /-- `example.method` -/
  method : Ex → Option M
  /-- `example.with_url(url).with_method(Some(method))` -/
  withUrlMethod : Ex → U → M → Ex
  /-- the literal `"GET"` -/
  get : M
  /-- test-examples convention; result = the unit trace after `squash_with_target_unit_traces` -/
  evalTest : List Rule → Req → Ex → UT
  /-- unit-ids convention (no `should_log_request`) -/
  evalUnit : List Rule → Req → Ex → UT
  /-- explain / impact convention: unit trace, backend status, response (status, headers, body), log decision -/
  evalExplain : List Rule → Req → Ex → Core
  /-- one turn of the redirect walker on the example carrying the current url and method: final status
  and `join_url(current_url, first Location header)` -/
  evalHop : List Rule → Req → Ex → Nat × Option U
  /-- `Url::parse(url)` succeeds ∧ `!project_domains.is_empty()` ∧ host ∉ project_domains -/
  ext : Dom → U → Bool
  /-- `unit_trace.get_rule_ids_applied()` -/
  utRuleIds : UT → List Id
  /-- `unit_trace.get_unit_ids_applied()` -/
  utUnitIds : UT → List UId
  /-- `unit_trace.diff(expected)` -/
  utDiff : UT → List UId → List UId

section
variable {Rule Req Cfg Tr Ex Id UId UT Core U M Dom : Type}
variable [DecidableEq Id] [DecidableEq U] [DecidableEq M]

/-! ### The redirect walker on a view -/

/-- One turn of `RedirectionLoop::compute` for the current `(url, method)`: the parameter `step` of
`Rio.Loop.compute`. -/
def loopStep (P : Pipe Rule Req Cfg Ex Id UId UT Core U M Dom) (S : View Rule Req Cfg Tr) (e : Ex)
    (u : U) (m : M) : StepOut U :=
  let e' := P.withUrlMethod e u m
  match P.fromExample S.config e' with
  | .error _ => .reqErr
  | .ok q =>
    let r := P.evalHop (S.matchReq q) q e'
    .resp r.1 r.2

/-- `struct RedirectionLoop { hops, error }`. -/
abbrev LoopOut (U M : Type) := List (Hop U M) × Option Err

/-- `RedirectionLoop::from_example(router, max_hops, example, project_domains)`. -/
def loop (P : Pipe Rule Req Cfg Ex Id UId UT Core U M Dom) (S : View Rule Req Cfg Tr) (maxHops : Nat)
    (dom : Dom) (e : Ex) : LoopOut U M :=
  let st := compute (loopStep P S e) (P.ext dom) P.get maxHops (P.url e) ((P.method e).getD P.get)
  (st.hops, st.error)

/-! ### test-examples -/

/-- `struct FailedExample`. -/
structure FailedEx (Ex Id UId U M : Type) where
  ex : Ex
  ruleIdsApplied : List Id
  unitIdsApplied : List UId
  unitIdsNotAppliedAnymore : List UId
  redirectionLoop : Option (LoopOut U M)

/-- What `test_example` does with one example. -/
inductive Outcome (Ex Id UId U M : Type) where
  /-- `example.unit_ids_applied.is_none()`: nothing is counted -/
  | skipped
  /-- `Request::from_example` failed: `add_errored_example`, `example_count` NOT incremented -/
  | errored (msg : String)
  /-- `add_failed_example`, `example_count` incremented -/
  | failed (f : FailedEx Ex Id UId U M)
  /-- only `example_count` incremented -/
  | passed

/-- The verdict of `test_example` (everything except the updates of `results`), with the redirect-chain
analysis as a parameter `lp` (`RedirectionLoop::from_example(router, max_hops, example, project_domains)`; the
correspondence instance feeds the observed chains, the theorems use `loop`). -/
def outcomeWith (P : Pipe Rule Req Cfg Ex Id UId UT Core U M Dom) (S : View Rule Req Cfg Tr)
    (lp : Ex → LoopOut U M) (r : Rule) (e : Ex) : Outcome Ex Id UId U M :=
  match P.expected e with
  | none => .skipped
  | some exp =>
    match P.fromExample S.config e with
    | .error msg => .errored msg
    | .ok q =>
      let ut := P.evalTest (S.matchReq q) q e
      let notApplied := P.utDiff ut exp
      let applied := (P.utRuleIds ut).contains (P.ruleId r)
      if (P.mustMatch e && (!notApplied.isEmpty || !applied)) || (!P.mustMatch e && applied) then
        .failed ⟨e, P.utRuleIds ut, P.utUnitIds ut, notApplied, none⟩
      else
        let l := lp e
        if l.2 = some Err.tooManyHops ∨ l.2 = some Err.loop then
          .failed ⟨e, P.utRuleIds ut, P.utUnitIds ut, notApplied, some l⟩
        else .passed

/-- The verdict of `test_example`. -/
def outcome (P : Pipe Rule Req Cfg Ex Id UId UT Core U M Dom) (S : View Rule Req Cfg Tr)
    (maxHops : Nat) (dom : Dom) (r : Rule) (e : Ex) : Outcome Ex Id UId U M :=
  outcomeWith P S (loop P S maxHops dom) r e

/-- `map.entry(id).or_insert_with(|| New(rule)).items.push(x)` on an association list. -/
def pushAt {α : Type} (id : Id) (r : Rule) (x : α) :
    List (Id × Rule × List α) → List (Id × Rule × List α)
  | [] => [(id, r, [x])]
  | (k, r', xs) :: rest =>
    if k = id then (k, r', xs ++ [x]) :: rest else (k, r', xs) :: pushAt id r x rest

/-- `if self.first_ten_xxx.len() <= 10 { … entry(rule.id) … push }`. -/
def record {α : Type} (m : List (Id × Rule × List α)) (id : Id) (r : Rule) (x : α) :
    List (Id × Rule × List α) :=
  if m.length ≤ 10 then pushAt id r x m else m

/-- `struct TestExamplesOutput` (the two `HashMap`s as association lists). -/
structure TestOut (Rule Ex Id UId U M : Type) where
  exampleCount : Nat
  failureCount : Nat
  errorCount : Nat
  firstTenFailures : List (Id × Rule × List (FailedEx Ex Id UId U M))
  firstTenErrors : List (Id × Rule × List (Ex × String))

def TestOut.init : TestOut Rule Ex Id UId U M := ⟨0, 0, 0, [], []⟩

/-- The updates of `results` in `test_example`. -/
def applyOutcome (P : Pipe Rule Req Cfg Ex Id UId UT Core U M Dom) (st : TestOut Rule Ex Id UId U M)
    (r : Rule) (e : Ex) : Outcome Ex Id UId U M → TestOut Rule Ex Id UId U M
  | .skipped => st
  | .errored msg =>
    { st with errorCount := st.errorCount + 1,
              firstTenErrors := record st.firstTenErrors (P.ruleId r) r (e, msg) }
  | .failed f =>
    { st with failureCount := st.failureCount + 1,
              firstTenFailures := record st.firstTenFailures (P.ruleId r) r f,
              exampleCount := st.exampleCount + 1 }
  | .passed => { st with exampleCount := st.exampleCount + 1 }

/-- the inner `for example in examples` of `create_result` -/
def testRuleWith (P : Pipe Rule Req Cfg Ex Id UId UT Core U M Dom) (S : View Rule Req Cfg Tr)
    (lp : Ex → LoopOut U M) (st : TestOut Rule Ex Id UId U M) (r : Rule) : TestOut Rule Ex Id UId U M :=
  match P.examples r with
  | none => st
  | some exs => exs.foldl (fun st e => applyOutcome P st r e (outcomeWith P S lp r e)) st

def testRule (P : Pipe Rule Req Cfg Ex Id UId UT Core U M Dom) (S : View Rule Req Cfg Tr)
    (maxHops : Nat) (dom : Dom) (st : TestOut Rule Ex Id UId U M) (r : Rule) :
    TestOut Rule Ex Id UId U M :=
  testRuleWith P S (loop P S maxHops dom) st r

/-- insertion into an id-sorted list -/
def insertById (P : Pipe Rule Req Cfg Ex Id UId UT Core U M Dom) (r : Rule) : List Rule → List Rule
  | [] => [r]
  | x :: t => if P.idLe (P.ruleId r) (P.ruleId x) then r :: x :: t else x :: insertById P r t

/-- `routes.sort_by(|(a, _), (b, _)| a.cmp(b))`: the routes in id order (ids are distinct keys of a map, so
every sorting algorithm gives this list; an insertion sort, so that it evaluates in the kernel). -/
def sortById (P : Pipe Rule Req Cfg Ex Id UId UT Core U M Dom) (routes : List Rule) : List Rule :=
  routes.foldr (insertById P) []

/-- `TestExamplesOutput::create_result(router, max_hops, project_domains)` as REPAIRED by 9993ef8: the rules
are visited in id order, so the result (which failures are kept in `first_ten_*`) does not depend on the
iteration order of the HashMap. -/
def testExamplesWith (P : Pipe Rule Req Cfg Ex Id UId UT Core U M Dom) (S : View Rule Req Cfg Tr)
    (lp : Ex → LoopOut U M) : TestOut Rule Ex Id UId U M :=
  (sortById P S.routes).foldl (testRuleWith P S lp) TestOut.init

def testExamples (P : Pipe Rule Req Cfg Ex Id UId UT Core U M Dom) (S : View Rule Req Cfg Tr)
    (maxHops : Nat) (dom : Dom) : TestOut Rule Ex Id UId U M :=
  testExamplesWith P S (loop P S maxHops dom)

/-- For the record: `create_result` BEFORE 9993ef8 (`for (id, route) in router.routes()`): the rules in HashMap
order.  Its counters are order-independent, its `first_ten_*` maps only when at most ten rules contribute. -/
def testExamplesUnordered (P : Pipe Rule Req Cfg Ex Id UId UT Core U M Dom) (S : View Rule Req Cfg Tr)
    (maxHops : Nat) (dom : Dom) : TestOut Rule Ex Id UId U M :=
  S.routes.foldl (testRule P S maxHops dom) TestOut.init

/-! ### unit-ids -/

/-- one example of `UnitIdsOutput::create_result` -/
def unitExample (P : Pipe Rule Req Cfg Ex Id UId UT Core U M Dom) (S : View Rule Req Cfg Tr) (e : Ex) : Ex :=
  match P.fromExample S.config e with
  | .error _ => e
  | .ok q => P.setExpected e (P.utUnitIds (P.evalUnit (S.matchReq q) q e))

/-- `UnitIdsOutput::create_result(router)`: `rules: HashMap<String, RuleOutput>` as an association list
in processing order (rules without examples get no entry). -/
def unitIds (P : Pipe Rule Req Cfg Ex Id UId UT Core U M Dom) (S : View Rule Req Cfg Tr) :
    List (Id × List Ex) :=
  S.routes.filterMap fun r => (P.examples r).map fun exs => (P.ruleId r, exs.map (unitExample P S))

/-! ### explain -/

/-- `struct ExplainRequestOutput`; `core` = unit trace, backend status, response, log decision. -/
structure ExplainOut (Ex Core Tr U M : Type) where
  ex : Ex
  core : Core
  matchTraces : Tr
  redirectionLoop : Option (LoopOut U M)

/-- `ExplainRequestOutput::create_result(router, example, max_hops, project_domains)`. -/
def explain (P : Pipe Rule Req Cfg Ex Id UId UT Core U M Dom) (S : View Rule Req Cfg Tr)
    (maxHops : Nat) (dom : Dom) (e : Ex) : Except String (ExplainOut Ex Core Tr U M) :=
  match P.fromExample S.config e with
  | .error msg => .error ("Invalid example: " ++ msg)
  | .ok q =>
    .ok ⟨e, P.evalExplain (S.matchReq q) q e, S.trace q, some (loop P S maxHops dom e)⟩

/-! ### impact -/

/-- `struct Impact`: `Impact::new_with_error` (all other fields at their defaults) or a full record. -/
inductive Impact (Ex Core Tr U M : Type) where
  | err (ex : Ex) (error : String)
  | ok (ex : Ex) (core : Core) (matchTraces : Tr) (redirectionLoop : Option (LoopOut U M))

/-- The loop of `ImpactOutput::compute_impacts` (after the optional insertion of the analysed rule):
`S` = view of `router`, `T` = view of `trace_unique_router`. -/
def computeImpacts (P : Pipe Rule Req Cfg Ex Id UId UT Core U M Dom) (S T : View Rule Req Cfg Tr)
    (examples : Option (List Ex)) (withLoop : Bool) (maxHops : Nat) (dom : Dom) :
    List (Impact Ex Core Tr U M) :=
  match examples with
  | none => []
  | some exs =>
    exs.map fun e =>
      match P.fromExample S.config e with
      | .error msg => .err e ("Cannot create query from example: " ++ msg)
      | .ok q =>
        .ok e (P.evalExplain (S.matchReq q) q e) (T.trace q)
          (if withLoop then some (loop P S maxHops dom e) else none)

end

/-! ### The router algebra and the two families of entry points -/

/-- `Router<Rule>` as an abstract state type with the operations the entry points use. -/
structure Alg (St Rule Req Cfg Tr Id : Type) where
  /-- `Router::from_config(config)` / `from_arc_config` -/
  empty : Cfg → St
  /-- `Router::insert(rule)` -/
  insert : Rule → St → St
  /-- `Router::remove(id)` (the returned route is not used by the analyses) -/
  remove : Id → St → St
  /-- `Router::apply_change_set(added, updated, deleted)` -/
  applyChangeSet : List Rule → List Rule → List Id → St → St
  view : St → View Rule Req Cfg Tr

/-- `struct RuleChangeSet` (`deleted: HashSet<String>` as a list). -/
structure ChangeSet (Rule Id : Type) where
  added : List Rule
  updated : List Rule
  deleted : List Id

/-- `RuleChangeSet::is_empty`. -/
def ChangeSet.isEmpty {Rule Id : Type} (D : ChangeSet Rule Id) : Bool :=
  D.added.isEmpty && D.updated.isEmpty && D.deleted.isEmpty

/-- `struct ImpactInput` / `ImpactProjectInput` without the router part. -/
structure ImpactSpec (Rule Dom : Type) where
  rule : Rule
  action : String
  withLoop : Bool
  maxHops : Nat
  domains : Dom

section
variable {St Rule Req Cfg Tr Ex Id UId UT Core U M Dom : Type}
variable [DecidableEq Id] [DecidableEq U] [DecidableEq M]
variable (A : Alg St Rule Req Cfg Tr Id) (P : Pipe Rule Req Cfg Ex Id UId UT Core U M Dom)

/-- `for rule in rules { router.insert(rule.clone()) }` on `Router::from_config(config)`. -/
def Alg.build (c : Cfg) (rules : List Rule) : St := rules.foldl (fun S r => A.insert r S) (A.empty c)

/-- `RuleChangeSet::update_existing_router`: clone (states are values), then `apply_change_set`. -/
def Alg.update (D : ChangeSet Rule Id) (base : St) : St :=
  A.applyChangeSet D.added D.updated D.deleted base

/-- test-examples and explain: `if change_set.is_empty() { existing } else { update_existing_router }`. -/
def Alg.projectRouter (D : ChangeSet Rule Id) (base : St) : St :=
  if D.isEmpty then base else A.update D base

/-- `TestExamplesOutput::from_project`. -/
def testExamplesProject (D : ChangeSet Rule Id) (maxHops : Nat) (dom : Dom) (base : St) :=
  testExamples P (A.view (A.projectRouter D base)) maxHops dom

/-- `TestExamplesOutput::create_result_without_project`. -/
def testExamplesStandalone (c : Cfg) (rules : List Rule) (maxHops : Nat) (dom : Dom) :=
  testExamples P (A.view (A.build c rules)) maxHops dom

/-- `UnitIdsOutput::create_result_from_project` (always `update_existing_router`). -/
def unitIdsProject (D : ChangeSet Rule Id) (base : St) := unitIds P (A.view (A.update D base))

/-- `UnitIdsOutput::create_result_without_project` (`router.cache(None)` only compiles regexes: it is
the identity on this level, property C12). -/
def unitIdsStandalone (c : Cfg) (rules : List Rule) := unitIds P (A.view (A.build c rules))

/-- `ExplainRequestOutput::create_result_from_project`. -/
def explainProject (D : ChangeSet Rule Id) (maxHops : Nat) (dom : Dom) (e : Ex) (base : St) :=
  explain P (A.view (A.projectRouter D base)) maxHops dom e

/-- `ExplainRequestOutput::create_result_without_project`. -/
def explainStandalone (c : Cfg) (rules : List Rule) (maxHops : Nat) (dom : Dom) (e : Ex) :=
  explain P (A.view (A.build c rules)) maxHops dom e

/-- `ImpactOutput::compute_impacts`: the optional `insert` of the analysed rule into both routers, then
the loop. -/
def impactOn (router traceRouter : St) (I : ImpactSpec Rule Dom) : List (Impact Ex Core Tr U M) :=
  let ins := I.action == "add" || I.action == "update"
  let S := if ins then A.insert I.rule router else router
  let T := if ins then A.insert I.rule traceRouter else traceRouter
  computeImpacts P (A.view S) (A.view T) (P.examples I.rule) I.withLoop I.maxHops I.domains

/-- `ImpactOutput::from_impact_project`: change-set applied (always), the previous version of the
analysed rule removed, trace router from the config of the existing router. -/
def impactProject (D : ChangeSet Rule Id) (I : ImpactSpec Rule Dom) (base : St) :=
  impactOn A P (A.remove (P.ruleId I.rule) (A.update D base)) (A.empty (A.view base).config) I

/-- `ImpactOutput::create_result`: every rule of the list except a previous version of the analysed
rule (`if rule.id == impact_input.rule.id { continue }`). -/
def impactStandalone (c : Cfg) (rules : List Rule) (I : ImpactSpec Rule Dom) :=
  impactOn A P (A.build c (rules.filter fun r => P.ruleId r ≠ P.ruleId I.rule)) (A.empty c) I

end

end Rio.Analysis
