/-
Model of `action::UnitTrace` (src/action/mod.rs) and of every place the library feeds it:

  UnitTrace::{add_unit_id, add_unit_id_with_target, override_unit_id_with_target,
              add_value_computed_by_unit, squash_with_target_unit_traces, diff, rule_ids_contains,
              get_rule_ids_applied, get_unit_ids_applied}, WithTargetUnitTrace::{add_unit_id, override_unit_id}
  Action::from_routes_rule(.., Some(trace))        `foldRoutesT`   configuration::reset / configuration::stop
  Action::get_status_code(.., Some(trace))         `getStatusCodeT`
  Action::get_final_status_code_with_fallback      `getFinalT`
  Action::filter_headers(.., Some(trace))          `filterHeadersFullT`  + the five header actions with their trace
                                                                        calls (src/filter/header_action/*.rs)
  Action::should_log_request(.., Some(trace))      `shouldLogRequestT`   configuration::log
  TextFilterBodyAction::filter(.., Some(trace))    `TextItemT.filter`    target "text"; chain `doFilterT` / `doEndT`

The code passes `Option<&mut UnitTrace>`; here every traced function takes and returns an
`Option UnitTrace` (`none` = called with `None`).  `LinkedHashSet`s are lists in insertion order
(an `insert` of a present value moves it to the back), `HashMap`s are association lists in
first-insertion order (iteration order of a real `HashMap` is arbitrary: the correspondence compares
`unit_ids_seen` and `value_computed_by_units` sorted; `unit_ids_applied` is sorted by `squash` itself).
HTML body filters also write to the trace (when an element matches): that is inside W6's chain model
and NOT modelled here — the body stage below is the text-filter chain of the C05 probe.
-/
import RioModel.Model.Action

namespace Rio.Action

/-! ## `UnitTrace` -/

/-- `LinkedHashSet<String>::insert`. -/
def sInsert (s : List String) (x : String) : List String := s.filter (fun y => !(y == x)) ++ [x]

/-- `HashMap<String, V>::insert`: the value under an existing key is replaced. -/
def mUpsert {β : Type} (m : List (String × β)) (k : String) (v : β) : List (String × β) :=
  if m.any (fun e => e.1 == k) then m.map (fun e => if e.1 == k then (k, v) else e) else m ++ [(k, v)]

/-- `action::UnitTrace` (+ `WithTargetUnitTrace.unit_ids_applied_by_key`). -/
structure UnitTrace where
  ruleIdsApplied : List RuleId
  unitIdsApplied : List String
  unitIdsSeen : List String
  valueComputedByUnits : List (String × String)
  withTarget : List (String × List String)
deriving DecidableEq, Repr, Inhabited

/-- `UnitTrace::default()`. -/
def UnitTrace.empty : UnitTrace := ⟨[], [], [], [], []⟩

namespace UnitTrace

/-- `add_unit_id`. -/
def addUnitId (t : UnitTrace) (u : String) : UnitTrace :=
  { t with unitIdsApplied := sInsert t.unitIdsApplied u, unitIdsSeen := sInsert t.unitIdsSeen u }

/-- `WithTargetUnitTrace::add_unit_id`: `entry(target).or_default().insert(unit_id)`. -/
def wtAdd (m : List (String × List String)) (target u : String) : List (String × List String) :=
  if m.any (fun e => e.1 == target) then
    m.map (fun e => if e.1 == target then (e.1, sInsert e.2 u) else e)
  else m ++ [(target, [u])]

/-- `WithTargetUnitTrace::override_unit_id`: `remove_entry(target)` then `add_unit_id`. -/
def wtOverride (m : List (String × List String)) (target u : String) : List (String × List String) :=
  wtAdd (m.filter (fun e => !(e.1 == target))) target u

/-- `add_unit_id_with_target`. -/
def addUnitIdWithTarget (t : UnitTrace) (target u : String) : UnitTrace :=
  { t with withTarget := wtAdd t.withTarget target u, unitIdsSeen := sInsert t.unitIdsSeen u }

/-- `override_unit_id_with_target`. -/
def overrideUnitIdWithTarget (t : UnitTrace) (target u : String) : UnitTrace :=
  { t with withTarget := wtOverride t.withTarget target u, unitIdsSeen := sInsert t.unitIdsSeen u }

/-- `add_value_computed_by_unit`. -/
def addValueComputedByUnit (t : UnitTrace) (key value : String) : UnitTrace :=
  { t with valueComputedByUnits := mUpsert t.valueComputedByUnits key value }

/-- `tmp.sort()` on `Vec<String>` (bytewise = by code point). -/
def sortStrings (l : List String) : List String := l.mergeSort (fun a b => decide (a ≤ b))

/-- `squash_with_target_unit_traces`: every unit id still registered under a target is applied, the
applied set is sorted, the per-target registry is emptied. -/
def squash (t : UnitTrace) : UnitTrace :=
  let t1 := t.withTarget.foldl (fun t e => e.2.foldl addUnitId t) { t with withTarget := [] }
  { t1 with unitIdsApplied := sortStrings t1.unitIdsApplied, withTarget := [] }

/-- `diff(other)`: the ids of `other` that are not applied (a `LinkedHashSet`). -/
def diff (t : UnitTrace) (other : List String) : List String :=
  other.foldl (fun d u => if !t.unitIdsApplied.contains u then sInsert d u else d) []

/-- `rule_ids_contains`. -/
def ruleIdsContains (t : UnitTrace) (id : RuleId) : Bool := t.ruleIdsApplied.contains id

end UnitTrace

/-- One write to the trace (the trace is write-only for the library: nothing below reads it). -/
inductive TOp where
  | ruleId (id : RuleId)
  | addWithTarget (target u : String)
  | overrideWithTarget (target u : String)
  | value (key value : String)
deriving DecidableEq, Repr

def UnitTrace.apply (t : UnitTrace) : TOp → UnitTrace
  | .ruleId id => { t with ruleIdsApplied := lhsInsert t.ruleIdsApplied id }
  | .addWithTarget target u => t.addUnitIdWithTarget target u
  | .overrideWithTarget target u => t.overrideUnitIdWithTarget target u
  | .value k v => t.addValueComputedByUnit k v

def UnitTrace.applyAll (t : UnitTrace) (ops : List TOp) : UnitTrace := ops.foldl UnitTrace.apply t

/-! ## The header actions with their trace calls (src/filter/header_action/*.rs) -/

/-- `if let (Some(trace), Some(id)) = (unit_trace, &self.id) { add_value_computed_by_unit(id, value);
if let Some(target_hash) = &self.target_hash { add / override _unit_id_with_target(target_hash, id) } }`. -/
def traceHeaderUnit (add : Bool) (f : HeaderFilter) (value : String) (t : Option UnitTrace) : Option UnitTrace :=
  match t, f.id with
  | some tr, some id =>
    let tr := tr.addValueComputedByUnit id value
    some (match f.targetHash with
      | some th => if add then tr.addUnitIdWithTarget th id else tr.overrideUnitIdWithTarget th id
      | none => tr)
  | _, _ => t

section
variable (lower : String → String)
open Rio.Header (Header sameName)

/-- `HeaderAddAction::filter`. -/
def addActionT (f : HeaderFilter) (hs : List Header) (t : Option UnitTrace) : List Header × Option UnitTrace :=
  (hs ++ [⟨f.header, f.value⟩], traceHeaderUnit true f f.value t)

/-- `HeaderRemoveAction::filter` (traces the empty value, `override`). -/
def removeActionT (f : HeaderFilter) (hs : List Header) (t : Option UnitTrace) : List Header × Option UnitTrace :=
  (hs.foldl (fun acc h => if !sameName lower f.header h then acc ++ [h] else acc) [],
   traceHeaderUnit false f "" t)

/-- `HeaderReplaceAction::filter`: the trace is written once per replaced header, inside the loop. -/
def replaceActionT (f : HeaderFilter) (hs : List Header) (t : Option UnitTrace) : List Header × Option UnitTrace :=
  hs.foldl
    (fun (st : List Header × Option UnitTrace) h =>
      if sameName lower f.header h then (st.1 ++ [⟨f.header, f.value⟩], traceHeaderUnit false f f.value st.2)
      else (st.1 ++ [h], st.2))
    ([], t)

/-- `HeaderOverrideAction::filter`: traced once, after the loop, whether or not a header was found. -/
def overrideActionT (f : HeaderFilter) (hs : List Header) (t : Option UnitTrace) : List Header × Option UnitTrace :=
  let r := hs.foldl
    (fun (st : List Header × Bool) h =>
      if !sameName lower f.header h then (st.1 ++ [h], st.2) else (st.1 ++ [⟨f.header, f.value⟩], true))
    ([], false)
  ((if !r.2 then r.1 ++ [⟨f.header, f.value⟩] else r.1), traceHeaderUnit false f f.value t)

/-- `HeaderDefaultAction::filter`: traced only when the header is added. -/
def defaultActionT (f : HeaderFilter) (hs : List Header) (t : Option UnitTrace) : List Header × Option UnitTrace :=
  if !Rio.Header.defaultFound lower f.header hs then
    (hs ++ [⟨f.header, f.value⟩], traceHeaderUnit true f f.value t)
  else (hs, t)

/-- One action of `create_header_action`, with the filter it was created from (for id / target hash). -/
def runActT (f : HeaderFilter) (a : Rio.Header.Act) (hs : List Header) (t : Option UnitTrace) :
    List Header × Option UnitTrace :=
  match a with
  | .add _ _ => addActionT f hs t
  | .remove _ => removeActionT lower f hs t
  | .replace _ _ => replaceActionT lower f hs t
  | .override _ _ => overrideActionT lower f hs t
  | .default _ _ => defaultActionT lower f hs t

/-- `FilterHeaderAction::new(filters)` + `filter(headers, unit_trace)`. -/
def filterHeadersT (fs : List HeaderFilter) (hs : List Header) (t : Option UnitTrace) :
    List Header × Option UnitTrace :=
  if fs.isEmpty then (hs, t)
  else
    let actions := fs.filterMap fun f => (Rio.Header.createHeaderAction (toHeaderOp f)).map fun a => (f, a)
    if actions.isEmpty then (hs, t)
    else actions.foldl (fun (st : List Header × Option UnitTrace) fa => runActT lower fa.1 fa.2 st.1 st.2) (hs, t)

end

/-! ## The observers with a trace -/

/-- `if let (Some(trace), Some(unit_id)) = (unit_trace, &configuration_unit_id) { trace.add_unit_id_with_target(target, unit_id) }`. -/
def traceConfigUnit (t : Option UnitTrace) (unitId : Option String) (target : String) : Option UnitTrace :=
  match t, unitId with
  | some tr, some u => some (tr.addUnitIdWithTarget target u)
  | _, _ => t

/-- The loop of `Action::from_routes_rule(routes, request, unit_trace)`. -/
def foldRoutesT (q : Req) (draw : Rule → Nat) : Action → Option UnitTrace → List Rule → Action × Option UnitTrace
  | action, t, [] => (action, t)
  | action, t, r :: rest =>
    match fromRouteRule r q (draw r) with
    | (none, _, _) => foldRoutesT q draw action t rest
    | (some actionRule, reset, stop) =>
      let st : Action × Option UnitTrace :=
        if reset then (actionRule, traceConfigUnit t r.configurationResetUnitId "configuration::reset")
        else (action.merge actionRule, t)
      if stop then (st.1, traceConfigUnit st.2 r.configurationResetUnitId "configuration::stop")
      else foldRoutesT q draw st.1 st.2 rest

/-- `Action::from_routes_rule(routes, request, unit_trace)`. -/
def fromRoutesRuleT (routes : List Rule) (q : Req) (draw : Rule → Nat) (t : Option UnitTrace) :
    Action × Option UnitTrace :=
  foldRoutesT q draw Action.empty t (sortRules routes)

/-- `Action::get_status_code(response_status_code, unit_trace)`. -/
def Action.getStatusCodeT (a : Action) (c : Nat) (t : Option UnitTrace) : (Nat × Action) × Option UnitTrace :=
  match a.statusCodeUpdate with
  | none => ((0, a), t)
  | some u =>
    let r := u.getStatusCode c
    match r.2 with
    | some ruleId =>
      let t' := match t with
        | some tr =>
          let tr := { tr with ruleIdsApplied := lhsInsert tr.ruleIdsApplied ruleId }
          some (match u.targetHash, u.unitId with
            | some th, some uid => tr.addUnitIdWithTarget th uid
            | _, _ => tr)
        | none => none
      ((r.1, { a with rulesApplied := lhsInsert a.rulesApplied ruleId }), t')
    | none => ((r.1, a), t)

/-- `Action::get_final_status_code_with_fallback(response, fallback, &mut trace)`. -/
def Action.getFinalT (a : Action) (c fallback : Nat) (t : Option UnitTrace) :
    ((Nat × Nat) × Action) × Option UnitTrace :=
  let r := a.getStatusCodeT c t
  if c == 0 && r.1.1 == 0 then
    let r2 := r.1.2.getStatusCodeT fallback r.2
    (((r2.1.1, fallback), r2.1.2), r2.2)
  else (((r.1.1, c), r.1.2), r.2)

/-- `Action::filter_headers(headers, code, add_rule_ids_header, unit_trace)`. -/
def Action.filterHeadersFullT (lower : String → String) (showId : RuleId → String) (a : Action)
    (headers : List Rio.Header.Header) (c : Nat) (addRuleIdsHeader : Bool) (t : Option UnitTrace) :
    (List Rio.Header.Header × Action) × Option UnitTrace :=
  let r := a.filterHeaders c addRuleIdsHeader        -- the two selection loops do not see the trace
  let fh := filterHeadersT lower r.filters headers t
  -- `trace.rule_ids_applied.extend(self.get_applied_rule_ids().clone())`
  let t' := match fh.2 with
    | some tr => some { tr with ruleIdsApplied := r.action.rulesApplied.foldl lhsInsert tr.ruleIdsApplied }
    | none => none
  (((match r.ruleIdsHeader with
      | none => fh.1
      | some ids => fh.1 ++ [⟨"X-RedirectionIo-RuleIds", String.intercalate ";" (ids.map showId)⟩]),
    r.action), t')

/-- `Action::should_log_request(allow_log_config, code, unit_trace)`. -/
def Action.shouldLogRequestT (a : Action) (allowLogConfig : Bool) (c : Nat) (t : Option UnitTrace) :
    (Bool × Action) × Option UnitTrace :=
  match a.logOverride with
  | none => ((allowLogConfig, a), t)
  | some l =>
    let r := Rio.Consts.logGetLogOverride l.logOverride l.onResponseStatusCodes
      l.excludeResponseStatusCodes l.fallbackLogOverride l.ruleId l.fallbackRuleId c
    let t' := if r.2.2 then traceConfigUnit t l.unitId "configuration::log" else t
    (((match r.1 with | some b => b | none => allowLogConfig),
      { a with rulesApplied := lhsInsertOpt a.rulesApplied r.2.1 }), t')

/-! ## The text-filter chain with a trace -/

namespace ProbeT

structure TextItemT where
  action : TextAction
  content : String
  id : Option String
  executed : Bool
deriving Repr

/-- `if let Some(trace) = unit_trace { if let Some(id) = self.id.clone() { … "text" … } }`. -/
def traceText (over : Bool) (id : Option String) (t : Option UnitTrace) : Option UnitTrace :=
  match t, id with
  | some tr, some i => some (if over then tr.overrideUnitIdWithTarget "text" i else tr.addUnitIdWithTarget "text" i)
  | _, _ => t

/-- `TextFilterBodyAction::filter(data, unit_trace)`: the trace is written on EVERY call. -/
def TextItemT.filter (it : TextItemT) (data : String) (t : Option UnitTrace) : (TextItemT × String) × Option UnitTrace :=
  match it.action with
  | .replace =>
    ((if it.executed then (it, "") else ({ it with executed := true }, it.content)), traceText true it.id t)
  | .append => ((it, data), traceText false it.id t)
  | .prepend =>
    ((if it.executed then (it, data) else ({ it with executed := true }, it.content ++ data)),
     traceText false it.id t)

/-- `TextFilterBodyAction::end()` (no trace argument). -/
def TextItemT.finish (it : TextItemT) : TextItemT × String :=
  if it.executed then (it, "") else ({ it with executed := true }, it.content)

/-- `FilterBodyAction::do_filter`. -/
def doFilterT : List TextItemT → String → Option UnitTrace → (List TextItemT × String) × Option UnitTrace
  | [], data, t => (([], data), t)
  | it :: rest, data, t =>
    let r := it.filter data t
    if r.1.2.isEmpty then ((r.1.1 :: rest, r.1.2), r.2)
    else
      let r' := doFilterT rest r.1.2 r.2
      ((r.1.1 :: r'.1.1, r'.1.2), r'.2)

/-- `FilterBodyAction::do_end`. -/
def doEndT : List TextItemT → Option String → Option UnitTrace → String × Option UnitTrace
  | [], data, t => (data.getD "", t)
  | it :: rest, data, t =>
    match data with
    | none =>
      let newData := it.finish.2
      doEndT rest (if newData.isEmpty then none else some newData) t
    | some s =>
      let r := it.filter s t
      let newData := r.1.2 ++ r.1.1.finish.2
      doEndT rest (if newData.isEmpty then none else some newData) r.2

/-- `FilterBodyAction::new` for a non-HTML, uncompressed response. -/
def chainOf (filters : List BodyFilter) : List TextItemT :=
  filters.filterMap fun f =>
    match f with
    | .text t => some ⟨t.action, t.content, t.id, false⟩
    | .html _ => none

/-- `filter(body, trace)` then `end(trace)`. -/
def runChain (chain : List TextItemT) (body : String) (t : Option UnitTrace) : String × Option UnitTrace :=
  let r := doFilterT chain body t
  let e := doEndT r.1.1 none r.2
  (r.1.2 ++ e.1, e.2)

end ProbeT

/-! ## A sequence of observer calls with a trace -/

/-- What one traced observer call returns. -/
inductive OutT where
  | status (code : Nat)
  | headers (hs : List Rio.Header.Header)
  | body (out : Option String)
  | log (allow : Bool)
  | final (code response : Nat)
deriving DecidableEq, Repr

/-- The fixed arguments of a pipeline run. -/
structure EnvT where
  lower : String → String
  showId : RuleId → String
  headers : List Rio.Header.Header
  body : String
  allowLogConfig : Bool

def runOpT (env : EnvT) (c : Nat) (a : Action) (t : Option UnitTrace) (op : Op) : (OutT × Action) × Option UnitTrace :=
  match op with
  | .status => let r := a.getStatusCodeT c t; ((.status r.1.1, r.1.2), r.2)
  | .headers =>
    let r := a.filterHeadersFullT env.lower env.showId env.headers c true t
    ((.headers r.1.1, r.1.2), r.2)
  | .body =>
    -- `create_filter_body` itself does not see the trace; the chain does
    let r := a.createFilterBody c
    let chain := ProbeT.chainOf r.1
    if chain.isEmpty then ((.body none, r.2), t)
    else
      let o := ProbeT.runChain chain env.body t
      ((.body (some o.1), r.2), o.2)
  | .log => let r := a.shouldLogRequestT env.allowLogConfig c t; ((.log r.1.1, r.1.2), r.2)
  | .final fb => let r := a.getFinalT c fb t; ((.final r.1.1.1 r.1.1.2, r.1.2), r.2)

/-- Run the observers in sequence; results, applied rule ids after each, final action and trace. -/
def runOpsT (env : EnvT) (c : Nat) : Action → Option UnitTrace → List Op →
    List (OutT × List RuleId) × Action × Option UnitTrace
  | a, t, [] => ([], a, t)
  | a, t, op :: ops =>
    let r := runOpT env c a t op
    let rest := runOpsT env c r.1.2 r.2 ops
    ((r.1.1, r.1.2.rulesApplied) :: rest.1, rest.2)

end Rio.Action
