/-
Model of the client-IP primitives: `std::net::IpAddr`, `cidr::AnyIpCidr` (crate cidr 0.3: `new`,
`contains`, `FromStr`) and `router::RouteIp::match_ip` (src/router/route_ip.rs), with the part of
`api::Rule::route_ips` (src/api/rule.rs) that turns the texts of a rule into `RouteIp`s.

Addresses are natural numbers (`u32` / `u128` in network byte order = `Ipv4Addr::to_bits`), a network
is (base, length).  The crate computes with masks:
  `native_host_mask(len) = u32::MAX >> len` (0 for len = 32)      = `2^(w-len) - 1`
  `_has_zero_host_part(a, len) = (a & host_mask) == 0`
  `_prefix_match(a, b, len)    = (a & !host_mask) == (b & !host_mask)`
which on numbers `< 2^w` are `a % 2^(w-len) = 0` and `a / 2^(w-len) = b / 2^(w-len)`
(`hostPart_eq_land` proves the first reading; both are differential-tested in mode `prim`).

Family mismatch (read in `AnyIpCidr::contains`): a V4 network contains no V6 address and vice versa –
*also* for IPv4-mapped IPv6 addresses `::ffff:a.b.c.d` (no mapping is applied anywhere, neither by the
crate nor by `RouteIp::match_ip` nor by `Request`); `Any` contains every address of both families.

Parser: exactly the canonical texts the harness generates – `any`, dotted-quad IPv4 (`std` syntax: 1–3
decimal digits per octet, no leading zero), IPv6 as `:`-separated groups of 1–4 hex digits, eight of them or
fewer with one `::`, the last 32 bits optionally as an embedded dotted quad, optional `/len` with a plain decimal length; anything else is `none`
(= `Err`, and `route_ips` then drops the entry).
-/

namespace Rio.Cidr

/-- `std::net::IpAddr` (value `< 2^32` resp. `< 2^128`). -/
inductive IpAddr where
  | v4 (n : Nat)
  | v6 (n : Nat)
deriving DecidableEq, Repr, Inhabited

/-- Address width of a family. -/
def width (v6 : Bool) : Nat := if v6 then 128 else 32

def IpAddr.isV6 : IpAddr → Bool
  | .v4 _ => false
  | .v6 _ => true

def IpAddr.val : IpAddr → Nat
  | .v4 n => n
  | .v6 n => n

/-- The address is a value of its type. -/
def IpAddr.WF (a : IpAddr) : Prop := a.val < 2 ^ width a.isV6

/-- `native_host_mask(len)` applied: the host part of `a` in a `/len` network of width `w`. -/
def hostPart (w a len : Nat) : Nat := a % 2 ^ (w - len)

/-- `a & !host_mask` compared: the network part, as a number. -/
def netPart (w a len : Nat) : Nat := a / 2 ^ (w - len)

/-- `_has_zero_host_part`. -/
def hasZeroHostPart (w a len : Nat) : Bool := hostPart w a len == 0

/-- `_prefix_match(address, other, prefix_len)`. -/
def prefixMatch (w base a len : Nat) : Bool := netPart w base len == netPart w a len

/-- `cidr::AnyIpCidr`: `Any`, or a network of one family (address with zero host part, length ≤ width). -/
inductive AnyIpCidr where
  | any
  | v4 (base len : Nat)
  | v6 (base len : Nat)
deriving DecidableEq, Repr, Inhabited

/-- `AnyIpCidr::new(addr, len)`: `NetworkLengthTooLongError` / `InvalidHostPart` are `none`. -/
def AnyIpCidr.new? (addr : IpAddr) (len : Nat) : Option AnyIpCidr :=
  let w := width addr.isV6
  if len > w then none
  else if !hasZeroHostPart w addr.val len then none
  else match addr with
    | .v4 n => some (.v4 n len)
    | .v6 n => some (.v6 n len)

/-- `IpCidr::new_host(addr)` (a bare address is the network containing only itself). -/
def AnyIpCidr.newHost : IpAddr → AnyIpCidr
  | .v4 n => .v4 n 32
  | .v6 n => .v6 n 128

/-- `AnyIpCidr::contains`. -/
def AnyIpCidr.contains : AnyIpCidr → IpAddr → Bool
  | .any, _ => true
  | .v4 base len, .v4 a => prefixMatch 32 base a len
  | .v4 _ _, .v6 _ => false
  | .v6 _ _, .v4 _ => false
  | .v6 base len, .v6 a => prefixMatch 128 base a len

/-- The invariant `AnyIpCidr::new` establishes. -/
def AnyIpCidr.WF : AnyIpCidr → Prop
  | .any => True
  | .v4 base len => len ≤ 32 ∧ base < 2 ^ 32 ∧ hostPart 32 base len = 0
  | .v6 base len => len ≤ 128 ∧ base < 2 ^ 128 ∧ hostPart 128 base len = 0

/-- `router::RouteIp`. -/
inductive RouteIp where
  | inRange (c : AnyIpCidr)
  | notInRange (c : AnyIpCidr)
deriving DecidableEq, Repr, Inhabited

/-- `RouteIp::match_ip`. -/
def RouteIp.matchIp : RouteIp → IpAddr → Bool
  | .inRange c, a => c.contains a
  | .notInRange c, a => !c.contains a

/-! ### Parsing the canonical texts -/

def isDigit (c : Char) : Bool := decide ('0' ≤ c) && decide (c ≤ '9')

def hexVal (c : Char) : Option Nat :=
  if '0' ≤ c ∧ c ≤ '9' then some (c.toNat - '0'.toNat)
  else if 'a' ≤ c ∧ c ≤ 'f' then some (c.toNat - 'a'.toNat + 10)
  else if 'A' ≤ c ∧ c ≤ 'F' then some (c.toNat - 'A'.toNat + 10)
  else none

/-- A plain decimal number: at least one digit, digits only. -/
def parseDec (cs : List Char) : Option Nat :=
  if cs.isEmpty || !cs.all isDigit then none
  else some (cs.foldl (fun acc c => acc * 10 + (c.toNat - '0'.toNat)) 0)

/-- One IPv4 octet in `std` syntax: 1–3 digits, no leading zero (except `0` itself), ≤ 255. -/
def parseOctet (cs : List Char) : Option Nat :=
  if cs.length > 3 then none
  else if cs.length > 1 && cs.head? == some '0' then none
  else match parseDec cs with
    | some n => if n ≤ 255 then some n else none
    | none => none

/-- Split at every occurrence of `sep` (like `str::split`). -/
def splitOn (sep : Char) : List Char → List (List Char)
  | [] => [[]]
  | c :: cs =>
    match splitOn sep cs with
    | [] => [[]]          -- unreachable
    | g :: gs => if c = sep then [] :: g :: gs else (c :: g) :: gs

def allSome {α : Type} : List (Option α) → Option (List α)
  | [] => some []
  | none :: _ => none
  | some a :: rest => (allSome rest).map (a :: ·)

/-- `Ipv4Addr::from_str` on dotted-quad text. -/
def parseV4 (cs : List Char) : Option Nat :=
  match allSome ((splitOn '.' cs).map parseOctet) with
  | some [a, b, c, d] => some (((a * 256 + b) * 256 + c) * 256 + d)
  | _ => none

/-- One IPv6 group: 1–4 hex digits. -/
def parseGroup (cs : List Char) : Option Nat :=
  if cs.isEmpty || cs.length > 4 then none
  else (allSome (cs.map hexVal)).map fun ds => ds.foldl (fun acc d => acc * 16 + d) 0

/-- Groups of one side of a `::` (the empty text is no group).  With `tail` (the text runs to the end of the address) the last
group may be an embedded dotted quad (`::ffff:10.1.2.3`), which stands for two groups. -/
def parseGroups (tail : Bool) (cs : List Char) : Option (List Nat) :=
  if cs.isEmpty then some []
  else
    let parts := splitOn ':' cs
    match parts.getLast? with
    | some last =>
      if tail && last.contains '.' then
        match parseV4 last, allSome ((parts.dropLast).map parseGroup) with
        | some v, some gs => some (gs ++ [v / 65536, v % 65536])
        | _, _ => none
      else allSome (parts.map parseGroup)
    | none => some []

/-- Split at the first `::`. -/
def splitDoubleColon : List Char → Option (List Char × List Char)
  | [] => none
  | ':' :: ':' :: rest => some ([], rest)
  | c :: rest => (splitDoubleColon rest).map fun (l, r) => (c :: l, r)

def v6OfGroups (gs : List Nat) : Nat := gs.foldl (fun acc g => acc * 65536 + g) 0

/-- `Ipv6Addr::from_str`: eight groups, or fewer with one `::` standing for the missing zero groups (the form
`Ipv6Addr`'s `Display` prints).  No embedded dotted-quad. -/
def parseV6 (cs : List Char) : Option Nat :=
  match splitDoubleColon cs with
  | none =>
    match parseGroups true cs with
    | some gs => if gs.length = 8 then some (v6OfGroups gs) else none
    | none => none
  | some (l, r) =>
    match parseGroups false l, parseGroups true r with
    | some gl, some gr =>
      if gl.length + gr.length ≤ 7 ∧ (splitDoubleColon r).isNone ∧ r.head? ≠ some ':' then
        some (v6OfGroups (gl ++ List.replicate (8 - gl.length - gr.length) 0 ++ gr))
      else none
    | _, _ => none

/-- `str::parse::<IpAddr>()`. -/
def parseAddr (cs : List Char) : Option IpAddr :=
  match parseV4 cs with
  | some n => some (.v4 n)
  | none => (parseV6 cs).map .v6

/-- Split at the last `/` (`s.rfind('/')`). -/
def rsplitSlash (cs : List Char) : Option (List Char × List Char) :=
  match (splitOn '/' cs).reverse with
  | [] => none
  | [_] => none
  | last :: restRev =>
    some ((restRev.reverse.intersperse ['/']).flatten, last)

/-- `parse_prefix_len`: `u8::from_str` (an optional leading `+`, then digits). -/
def parsePrefixLen (cs : List Char) : Option Nat :=
  let cs := match cs with
    | '+' :: rest => rest
    | _ => cs
  match parseDec cs with
  | some n => if n ≤ 255 then some n else none
  | none => none

/-- `str::parse::<AnyIpCidr>()` (`parse_any_cidr(s, str::parse)`). -/
def parseAnyCidr (s : String) : Option AnyIpCidr :=
  let cs := s.toList
  if s = "any" then some .any
  else match rsplitSlash cs with
    | none => (parseAddr cs).map AnyIpCidr.newHost
    | some (a, l) =>
      match parseAddr a, parsePrefixLen l with
      | some addr, some len => AnyIpCidr.new? addr len
      | _, _ => none

/-- One entry of `source.ips` (`IpConstraint::{InRange, NotInRange}` with its text). -/
structure IpConstraint where
  neg : Bool
  range : String
deriving DecidableEq, Repr

/-- `Rule::route_ips`: unparsable ranges are dropped (logged); no range left = no ip trigger at all. -/
def routeIps (ips : Option (List IpConstraint)) : Option (List RouteIp) :=
  match ips with
  | none => none
  | some l =>
    let rs := l.filterMap fun c =>
      (parseAnyCidr c.range).map fun k => if c.neg then RouteIp.notInRange k else RouteIp.inRange k
    if rs.isEmpty then none else some rs

end Rio.Cidr
