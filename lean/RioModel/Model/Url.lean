/-
Model of URL normalisation (C09), on bytes (`List Nat`, every element < 256 in practice; nothing
in the model or the theorems needs that bound).

  src/http/query.rs      sanitize_url, PathAndQueryWithSkipped::from_config
  src/http/request.rs    Request::from_config, rebuild_with_config, build_sorted_query
  src/api/rule.rs        Rule::path_and_query (marker-free source)
  src/marker/mod.rs      StaticOrDynamic::new_with_markers with no marker  (Static, lower-cased iff flag)
  src/router/request_matcher/path_and_query.rs   static_rules.get(request.path_and_query())
  src/action/mod.rs      skipped marketing parameters appended to the target

External functions, hand-modelled here and differential-tested by harness/src/bin/c09.rs:
  percent_encoding::utf8_percent_encode   `pctEncode`   (bytes >= 0x80, CONTROLS and the set's extra bytes
                                                         become %XX upper-case hex; `%` itself is NOT encoded)
  percent_encoding::percent_decode        `pctDecode`   (%hh with two hex digits of either case; anything
                                                         else is kept as is)
  url::form_urlencoded::parse             `parseQuery`  (split on '&', empty pieces skipped, split at first '=',
                                                         '+' => space, percent-decode, String::from_utf8_lossy)
  String::from_utf8_lossy                 `utf8Lossy`   (maximal invalid prefix => U+FFFD)
  http::uri::PathAndQuery::from_str       `pqParse`     (acceptance table, `.path()` / `.query()`)
  BTreeMap<String,String>::from_iter      `btCollect`   (sorted by key bytes, last value wins)
  str::to_lowercase                       `lowerAscii`  (only ever applied to sanitised = pure ASCII text
                                                         for URLs; host / header values: ASCII in the model)
The encode sets come from Rio.Consts (regenerated from the source on every run).
-/
import RioModel.Generated.Consts

namespace Rio.Url

abbrev Bytes := List Nat

/-! ### percent_encoding -/

/-- `percent_encoding::CONTROLS`: C0 controls and DEL. -/
def isControl (b : Nat) : Bool := b < 0x20 || b == 0x7F

/-- `AsciiSet::should_percent_encode` for the set `CONTROLS.add(x) for x in extra`. -/
def shouldEncode (extra : List Nat) (b : Nat) : Bool :=
  b ≥ 0x80 || isControl b || extra.contains b

/-- upper-case hex digit (as a byte) of a nibble. -/
def hexDigitUpper (n : Nat) : Nat := if n < 10 then 48 + n else 55 + n

/-- `percent_encode_byte`: `%XX`, upper-case (`b / 16 % 16 = b / 16` for a byte; the reduction only
makes the output hex digits for every `Nat`). -/
def encByte (b : Nat) : Bytes := [37, hexDigitUpper (b / 16 % 16), hexDigitUpper (b % 16)]

/-- one step of the `PercentEncode` iterator. -/
def encOne (extra : List Nat) (b : Nat) : Bytes :=
  if shouldEncode extra b then encByte b else [b]

/-- `utf8_percent_encode(s, set).to_string()`. -/
def pctEncode (extra : List Nat) (s : Bytes) : Bytes := s.flatMap (encOne extra)

/-- `char::to_digit(16)` on a byte. -/
def hexVal (b : Nat) : Option Nat :=
  if 48 ≤ b ∧ b ≤ 57 then some (b - 48)
  else if 65 ≤ b ∧ b ≤ 70 then some (b - 55)
  else if 97 ≤ b ∧ b ≤ 102 then some (b - 87)
  else none

/-- `after_percent_sign`: the value of the two hex digits that follow, if they are there. -/
def hexPair : Bytes → Option Nat
  | h :: l :: _ =>
    match hexVal h, hexVal l with
    | some x, some y => some (x * 16 + y)
    | _, _ => none
  | _ => none

/-- `percent_decode(s).collect()`; the first argument is the number of input bytes still to be
skipped (the two hex digits just consumed), so that the recursion is structural. -/
def pctDecodeGo : Nat → Bytes → Bytes
  | _, [] => []
  | k + 1, _ :: r => pctDecodeGo k r
  | 0, b :: r =>
    if b == 37 then
      match hexPair r with
      | some v => v :: pctDecodeGo 2 r
      | none => 37 :: pctDecodeGo 0 r
    else b :: pctDecodeGo 0 r

def pctDecode (s : Bytes) : Bytes := pctDecodeGo 0 s

/-! ### String::from_utf8_lossy (core::str::lossy::Utf8Chunks) -/

def isCont (b : Nat) : Bool := 0x80 ≤ b && b ≤ 0xBF

/-- U+FFFD in UTF-8. -/
def replacement : Bytes := [0xEF, 0xBF, 0xBD]

/-- Length of the next chunk and whether it is a valid scalar value: mirrors the `match w` of
`Utf8Chunks::next` (second byte ranges per lead byte, `safe_get` = 0 past the end). -/
def utf8Step (s : Bytes) : Nat × Bool :=
  match s with
  | [] => (0, true)
  | b :: r =>
    if b < 0x80 then (1, true)
    else if 0xC2 ≤ b && b ≤ 0xDF then
      match r with
      | c :: _ => if isCont c then (2, true) else (1, false)
      | [] => (1, false)
    else if 0xE0 ≤ b && b ≤ 0xEF then
      match r with
      | c :: r2 =>
        let ok2 :=
          (b == 0xE0 && 0xA0 ≤ c && c ≤ 0xBF) || (0xE1 ≤ b && b ≤ 0xEC && isCont c) ||
          (b == 0xED && 0x80 ≤ c && c ≤ 0x9F) || (0xEE ≤ b && b ≤ 0xEF && isCont c)
        if ok2 then
          match r2 with
          | d :: _ => if isCont d then (3, true) else (2, false)
          | [] => (2, false)
        else (1, false)
      | [] => (1, false)
    else if 0xF0 ≤ b && b ≤ 0xF4 then
      match r with
      | c :: r2 =>
        let ok2 :=
          (b == 0xF0 && 0x90 ≤ c && c ≤ 0xBF) || (0xF1 ≤ b && b ≤ 0xF3 && isCont c) ||
          (b == 0xF4 && 0x80 ≤ c && c ≤ 0x8F)
        if ok2 then
          match r2 with
          | d :: r3 =>
            if isCont d then
              match r3 with
              | e :: _ => if isCont e then (4, true) else (3, false)
              | [] => (3, false)
            else (2, false)
          | [] => (2, false)
        else (1, false)
      | [] => (1, false)
    else (1, false)

/-- `String::from_utf8_lossy(s)`: fuel = length of the input (every step consumes >= 1 byte). -/
def utf8LossyGo : Nat → Bytes → Bytes
  | 0, _ => []
  | fuel + 1, s =>
    match s with
    | [] => []
    | _ :: _ =>
      let (n, ok) := utf8Step s
      (if ok then s.take n else replacement) ++ utf8LossyGo fuel (s.drop n)

def utf8Lossy (s : Bytes) : Bytes := utf8LossyGo s.length s

/-! ### url::form_urlencoded::parse -/

/-- `replace_plus`. -/
def plusToSpace (b : Nat) : Nat := if b == 43 then 32 else b

/-- `form_urlencoded::decode`. -/
def decodeForm (s : Bytes) : Bytes := utf8Lossy (pctDecode (s.map plusToSpace))

/-- `slice.splitn(2, |b| b == sep)`: the piece before the first separator and, if there is one, the rest. -/
def splitFirst (sep : Nat) : Bytes → Bytes × Option Bytes
  | [] => ([], none)
  | b :: r =>
    if b == sep then ([], some r)
    else ((splitFirst sep r).1 |> (b :: ·), (splitFirst sep r).2)

/-- all pieces between separators: (first piece, remaining pieces). -/
def splitAll (sep : Nat) : Bytes → Bytes × List Bytes
  | [] => ([], [])
  | b :: r =>
    if b == sep then ([], (splitAll sep r).1 :: (splitAll sep r).2)
    else (b :: (splitAll sep r).1, (splitAll sep r).2)

def pieces (sep : Nat) (s : Bytes) : List Bytes := (splitAll sep s).1 :: (splitAll sep s).2

/-- name / value of one non-empty piece (`sequence.splitn(2, '=')`, both decoded). -/
def parsePair (seg : Bytes) : Bytes × Bytes :=
  (decodeForm (splitFirst 61 seg).1, decodeForm ((splitFirst 61 seg).2.getD []))

/-- `form_urlencoded::parse(q).into_owned()` as a list: the loop takes the piece before the next
`&`, skips it when empty, and stops when the input is empty — i.e. the non-empty pieces in order. -/
def parseQuery (q : Bytes) : List (Bytes × Bytes) :=
  ((pieces 38 q).filter (fun s => !s.isEmpty)).map parsePair

/-! ### BTreeMap<String, String> -/

/-- `Ord for str`: lexicographic on bytes. -/
def bytesLt : Bytes → Bytes → Bool
  | [], [] => false
  | [], _ :: _ => true
  | _ :: _, [] => false
  | a :: as, b :: bs => a < b || (a == b && bytesLt as bs)

/-- insertion into the sorted association list; an existing key gets the new value. -/
def btInsert (k v : Bytes) : List (Bytes × Bytes) → List (Bytes × Bytes)
  | [] => [(k, v)]
  | (k', v') :: rest =>
    if bytesLt k k' then (k, v) :: (k', v') :: rest
    else if k == k' then (k, v) :: rest
    else (k', v') :: btInsert k v rest

/-- `iter.collect::<BTreeMap<_,_>>()` then iteration: sorted by key, last value wins. -/
def btCollect (ps : List (Bytes × Bytes)) : List (Bytes × Bytes) :=
  ps.foldl (fun m p => btInsert p.1 p.2 m) []

/-! ### http::uri::PathAndQuery -/

inductive PClass where
  | valid | query | fragment | high | invalid
deriving DecidableEq, Repr

/-- `PATH_MAP`. -/
def pathClass (b : Nat) : PClass :=
  if b == 63 then .query
  else if b == 35 then .fragment
  else if b == 0x21 || (0x24 ≤ b && b ≤ 0x3B) || b == 0x3D || (0x40 ≤ b && b ≤ 0x5F) ||
      (0x61 ≤ b && b ≤ 0x7A) || b == 0x7C || b == 0x7E then .valid
  else if 0x80 ≤ b && b ≤ 0xFF then .high
  else if b == 34 || b == 123 || b == 125 then .valid
  else .invalid

/-- `QUERY_MAP`. -/
def queryClass (b : Nat) : PClass :=
  if b == 35 then .fragment
  else if b == 0x21 || (0x24 ≤ b && b ≤ 0x3B) || b == 0x3D || (0x3F ≤ b && b ≤ 0x7E) then .valid
  else if 0x80 ≤ b && b ≤ 0xFF then .high
  else .invalid

/-- first loop of `scan_path_and_query`: `none` = InvalidUriChar; otherwise the path bytes and,
if a `?` was met, what follows it (a `#` ends the scan: the fragment is truncated away). -/
def scanPath : Bytes → Option (Bytes × Option Bytes)
  | [] => some ([], none)
  | b :: r =>
    match pathClass b with
    | .query => some ([], some r)
    | .fragment => some ([], none)
    | .invalid => none
    | _ =>
      match scanPath r with
      | none => none
      | some (p, q) => some (b :: p, q)

/-- second loop. -/
def scanQuery : Bytes → Option Bytes
  | [] => some []
  | b :: r =>
    match queryClass b with
    | .fragment => some []
    | .invalid | .query => none
    | _ =>
      match scanQuery r with
      | none => none
      | some q => some (b :: q)

/-- `MAX_LEN` of http::uri. -/
def maxLen : Nat := 65534

/-- `s.parse::<PathAndQuery>()` for a valid-UTF-8 `s`: `none` = Err; `some (data-path, query)` with
`query = none` when there is no `?` (`self.query == NONE`). -/
def pqParse (s : Bytes) : Option (Bytes × Option Bytes) :=
  if s.isEmpty then none
  else if s.length > maxLen then none
  else if s == [42] then some ([42], none)
  else if !(s.head? == some 47 || s.head? == some 63 || s.head? == some 35) then none
  else
    match scanPath s with
    | none => none
    | some (p, none) => some (p, none)
    | some (p, some r) =>
      match scanQuery r with
      | none => none
      | some q => some (p, some q)

/-- `PathAndQuery::path()`. -/
def pqPath (p : Bytes) : Bytes := if p.isEmpty then [47] else p

/-! ### configuration, lower-casing -/

structure Cfg where
  ignoreCase : Bool          -- ignore_path_and_query_case
  ignoreMarketing : Bool     -- ignore_marketing_query_params
  passMarketing : Bool       -- pass_marketing_query_params_to_target
  marketing : List Bytes     -- marketing_query_params (a set)
  ignoreHostCase : Bool := false
  ignoreHeaderCase : Bool := false
deriving Repr, DecidableEq

def lowerByte (b : Nat) : Nat := if 65 ≤ b ∧ b ≤ 90 then b + 32 else b

/-- `str::to_lowercase` on ASCII text. -/
def lowerAscii (s : Bytes) : Bytes := s.map lowerByte

def lowerIf (flag : Bool) (s : Bytes) : Bytes := if flag then lowerAscii s else s

/-! ### request side: src/http/query.rs -/

def urlSet : List Nat := Rio.Consts.encSetQueryRsUrlEncodeSet
def querySet : List Nat := Rio.Consts.encSetQueryRsQueryEncodeSet

/-- `sanitize_url`. -/
def sanitize (u : Bytes) : Bytes := pctEncode urlSet u

structure PQS where
  pathAndQuery : Bytes
  matching : Option Bytes
  skipped : Option Bytes
  original : Bytes
deriving Repr, DecidableEq

/-- the `query_param` string of one map entry in `from_config`. -/
def reqParam (kv : Bytes × Bytes) : Bytes :=
  pctEncode querySet kv.1 ++ (if !kv.2.isEmpty then 61 :: pctEncode querySet kv.2 else [])

/-- `if !acc.is_empty() { acc.push('&') } acc.push_str(param)`. -/
def pushParam (acc param : Bytes) : Bytes :=
  (if !acc.isEmpty then acc ++ [38] else acc) ++ param

def isMarketing (cfg : Cfg) (k : Bytes) : Bool := cfg.ignoreMarketing && cfg.marketing.contains k

/-- the `for (key, value) in &hash_query` loop: (query_string, skipped_query_params). -/
def splitParams (cfg : Cfg) (m : List (Bytes × Bytes)) : Bytes × Bytes :=
  m.foldl
    (fun (acc : Bytes × Bytes) kv =>
      if isMarketing cfg kv.1 then (acc.1, pushParam acc.2 (reqParam kv))
      else (pushParam acc.1 (reqParam kv), acc.2))
    ([], [])

/-- `PathAndQueryWithSkipped::from_config`. -/
def fromConfig (cfg : Cfg) (u : Bytes) : PQS :=
  let url := sanitize u
  match pqParse url with
  | none =>
    { pathAndQuery := url, matching := some (lowerIf cfg.ignoreCase url), skipped := none, original := u }
  | some (p, q) =>
    let path := pqPath p
    let (queryString, skippedParams) :=
      match q with
      | none => (([] : Bytes), ([] : Bytes))
      | some query => splitParams cfg (btCollect (parseQuery query))
    let npq := if !queryString.isEmpty then path ++ 63 :: queryString else path
    { pathAndQuery := npq,
      matching := some (lowerIf cfg.ignoreCase npq),
      skipped := if cfg.passMarketing && !skippedParams.isEmpty then some skippedParams else none,
      original := u }

/-- `Request::path_and_query()`: what the router compares. -/
def PQS.key (r : PQS) : Bytes :=
  match r.matching with
  | none => r.pathAndQuery
  | some p => p

def reqKey (cfg : Cfg) (u : Bytes) : Bytes := (fromConfig cfg u).key

def skipped (cfg : Cfg) (u : Bytes) : Option Bytes := (fromConfig cfg u).skipped

/-! ### rule side: src/http/request.rs::build_sorted_query, src/api/rule.rs::path_and_query -/

def sortedQuerySet : List Nat := Rio.Consts.encSetRequestRsQueryEncodeSet
def ruleUrlSet : List Nat := Rio.Consts.encSetRuleRsUrlEncodeSet
def ruleQuerySet : List Nat := Rio.Consts.encSetRuleRsQueryEncodeSet

/-- one entry of the loop of `build_sorted_query` (with its trailing `&`). -/
def sortedParam (kv : Bytes × Bytes) : Bytes :=
  pctEncode sortedQuerySet kv.1 ++
    (if !kv.2.isEmpty then 61 :: pctEncode sortedQuerySet kv.2 else []) ++ [38]

/-- `Request::build_sorted_query`. -/
def buildSortedQuery (q : Bytes) : Option Bytes :=
  let s := (btCollect (parseQuery q)).flatMap sortedParam
  let s := s.dropLast            -- `query_string.pop()` (no-op on the empty string)
  if s.isEmpty then none else some s

/-- A marker-free rule source. -/
structure Source where
  path : Bytes
  query : Option Bytes
deriving Repr, DecidableEq

/-- `Rule::path_and_query(ignore_case)` for a rule without markers:
`StaticOrDynamic::new_with_markers(path, [], ignore_case)` = `Static(lower-cased iff ignore_case)`. -/
def ruleKeyOf (cfg : Cfg) (src : Source) : Bytes :=
  let query := match src.query with
    | none => none
    | some q => buildSortedQuery q
  let path := pctEncode ruleUrlSet src.path
  let path := match query with
    | some qs => path ++ 63 :: pctEncode ruleQuerySet qs
    | none => path
  lowerIf cfg.ignoreCase path

/-- The rule "whose source is the literal path and query of the URL `u`": cut at the first `?`. -/
def sourceOf (u : Bytes) : Source := ⟨(splitFirst 63 u).1, (splitFirst 63 u).2⟩

def ruleKey (cfg : Cfg) (u : Bytes) : Bytes := ruleKeyOf cfg (sourceOf u)

/-- `PathAndQueryMatcher::match_request` for a static rule: `static_rules.get(request.path_and_query())`. -/
def matchesKey (ruleK reqK : Bytes) : Bool := ruleK == reqK

def ruleMatches (cfg : Cfg) (ruleUrl reqUrl : Bytes) : Bool :=
  matchesKey (ruleKey cfg ruleUrl) (reqKey cfg reqUrl)

/-! ### src/action/mod.rs: the Location value -/

/-- `value.contains('?') ? push('&') : push('?'); push_str(skipped)` when there are skipped
parameters (the target of a marker-free rule is used as is). -/
def location (target : Bytes) (skipped : Option Bytes) : Bytes :=
  match skipped with
  | none => target
  | some s => target ++ (if target.contains 63 then [38] else [63]) ++ s

/-! ### Request::from_config / rebuild_with_config (the fields that matter) -/

structure Req where
  pqs : PQS
  pathAndQuery : Option Bytes       -- `path_and_query_v2`
  host : Option Bytes
  headers : List (Bytes × Bytes)    -- (name, value)
deriving Repr, DecidableEq

/-- `Request::from_config`. -/
def Req.fromConfig (cfg : Cfg) (u : Bytes) (host : Option Bytes) : Req :=
  { pqs := Rio.Url.fromConfig cfg u, pathAndQuery := some u,
    host := host.map (lowerIf cfg.ignoreHostCase), headers := [] }

/-- `Request::rebuild_with_config`. -/
def Req.rebuild (cfg : Cfg) (r : Req) : Req :=
  let original := match r.pathAndQuery with
    | some s => s
    | none => r.pqs.original
  { pqs := Rio.Url.fromConfig cfg original,
    pathAndQuery := some original,
    host := r.host.map (lowerIf cfg.ignoreHostCase),
    headers := r.headers.map (fun h => (h.1, lowerIf cfg.ignoreHeaderCase h.2)) }

/-! ### Decidable well-formedness used by `self_match` -/

/-- decoded, collected parameters of the request for `u` (what both sides build the query from). -/
def paramsOf (u : Bytes) : List (Bytes × Bytes) :=
  match (splitFirst 63 u).2 with
  | none => []
  | some q => btCollect (parseQuery q)

/-- `WFurl cfg u`:
* the sanitised URL is accepted by `PathAndQuery` (otherwise the request side falls back to the
  unsorted sanitised URL) and has a non-empty path (`?a=1` is read as `/` + query by the request side);
* when marketing parameters are ignored, `u` carries none (a rule naming one can never match);
* the parameter with empty name and empty value (piece `=`) is not combined with others (the request
  side drops it silently, the rule side leaves its `&`). -/
def WFurl (cfg : Cfg) (u : Bytes) : Bool :=
  (pqParse (sanitize u)).isSome &&
  !(splitFirst 63 u).1.isEmpty &&
  (paramsOf u).all (fun kv => !isMarketing cfg kv.1) &&
  !((paramsOf u).contains ([], []) && (paramsOf u).length ≥ 2)

end Rio.Url
