/-
Model of `src/regex.rs` (`LazyRegex`) and `src/regex_radix_tree/{item,leaf,node,tree,iter}.rs`.

* The regex engine is the parameter `E : Engine` (Model/Regex.lean): `^p$` / `^q` compile? match?
* `HashMap<String, V>` of a leaf is an association list with unique keys (`upsert`, `eraseKey`,
  `filter`); the real iteration order is arbitrary, so observations are compared after sorting.
* `&mut self` / consuming methods return the new item.  `Vec::remove(i)` + `push` of `Node::insert`
  is `insertAt` (the child moves to the end, exactly as in the code).
* `LazyRegex.compiled` is the compiled VALUE (`Option Compiled`, identified by the string and flag it was built from), not a
  flag: `is_match` runs the stored value, `compile` stores `create_regex()` of the current fields, and "the stored value is what
  `create_regex` builds now" is part of the invariant (`LazyRegex.consistent`), preserved by every operation.
* `u64` arithmetic of `cache`: the only subtraction sites are `left - 1` in `Leaf::cache` and
  `left -= 1` in `Node::cache`; an underflow there would be a panic (overflow checks) and is an explicit
  `none` here – `Props/C12.lean` proves it never happens (`cache_total`).
-/
import RioModel.Model.Regex

namespace Rio.Tree
open Rio.Scan Rio.Regex

/-- The `regex` string of a `LazyRegex`, structurally: `new_leaf` builds `"^" + p + "$"`, `new_node` builds
`"^" + q`, or `".*"` when the prefix is empty. -/
inductive RxSrc where
  | leaf (p : List Char)
  | node (q : List Char)
  | any
deriving DecidableEq, Repr

/-- The string itself (what `verif_snapshot()` shows as `regex`). -/
def RxSrc.toStr : RxSrc → List Char
  | .leaf p => '^' :: (p ++ ['$'])
  | .node q => '^' :: q
  | .any => ['.', '*']

/-- An `Arc<Regex>`: a compiled regex VALUE.  It is identified by the inputs `RegexBuilder::new(src)
.case_insensitive(ic).build()` was called with when it was built – which need not be the current fields of the
`LazyRegex` that holds it (that they are is an invariant: `LazyRegex.consistent`). -/
structure Compiled where
  src : RxSrc
  ic : Bool
deriving DecidableEq, Repr

/-- `regex.rs::LazyRegex`: `original`, `regex`, `ignore_case`, and the cached value `compiled: Option<Arc<Regex>>`. -/
structure LazyRegex where
  original : List Char
  regex : RxSrc
  ic : Bool
  compiled : Option Compiled
deriving DecidableEq, Repr

/-- `LazyRegex::new_node(regex, ignore_case)`. -/
def LazyRegex.newNode (q : List Char) (ic : Bool) : LazyRegex :=
  ⟨q, if q.isEmpty then .any else .node q, ic, none⟩

/-- `LazyRegex::new_leaf(regex, ignore_case)`. -/
def LazyRegex.newLeaf (p : List Char) (ic : Bool) : LazyRegex := ⟨p, .leaf p, ic, none⟩

/-- `self.compiled.is_some()`. -/
def LazyRegex.isCompiled (rx : LazyRegex) : Bool := rx.compiled.isSome

section
variable (E : Engine)

/-- `RegexBuilder::new(src).case_insensitive(ic).build().is_ok()` for the inputs of the value. -/
def Compiled.ok (c : Compiled) : Bool :=
  match c.src with
  | .leaf p => E.leafOk c.ic p
  | .node q => E.nodeOk c.ic q
  | .any => true

/-- `Regex::is_match` of the value built from these inputs (`false` if they do not build: the engine's `full` /
`pre` mean "compiles and matches"). -/
def Compiled.run (c : Compiled) (s : List Char) : Bool :=
  match c.src with
  | .leaf p => E.full c.ic p s
  | .node q => E.pre c.ic q s
  | .any => true

/-- `LazyRegex::create_regex`: built from the CURRENT fields `self.regex`, `self.ignore_case`; `none` = `Err`. -/
def LazyRegex.createRegex (rx : LazyRegex) : Option Compiled :=
  let c : Compiled := ⟨rx.regex, rx.ic⟩
  if c.ok E then some c else none

/-- `create_regex().is_some()`. -/
def LazyRegex.createOk (rx : LazyRegex) : Bool := (rx.createRegex E).isSome

/-- `LazyRegex::is_match`: the STORED value when there is one; otherwise the `original.is_empty()` shortcut, else
`match self.create_regex() { None => false, Some(r) => r.is_match(value) }`. -/
def LazyRegex.isMatch (rx : LazyRegex) (s : List Char) : Bool :=
  match rx.compiled with
  | some c => c.run E s
  | none =>
    if rx.original.isEmpty then true
    else (⟨rx.regex, rx.ic⟩ : Compiled).run E s

/-- `LazyRegex::compile`: same fields, `compiled = self.create_regex()`. -/
def LazyRegex.compile (rx : LazyRegex) : LazyRegex := { rx with compiled := rx.createRegex E }

end

/-- The cached value, if any, is what `create_regex` builds from the current fields. -/
def LazyRegex.consistent (rx : LazyRegex) : Bool :=
  match rx.compiled with
  | none => true
  | some c => c == ⟨rx.regex, rx.ic⟩

/-- A leaf's regex: `regex` is `^original$`, and the cache is consistent. -/
def LazyRegex.leafWf (rx : LazyRegex) : Bool := rx.regex == .leaf rx.original && rx.consistent

/-- A node's regex: `regex` is `^original` (`.*` for the empty prefix), and the cache is consistent. -/
def LazyRegex.nodeWf (rx : LazyRegex) : Bool :=
  rx.regex == (if rx.original.isEmpty then .any else .node rx.original) && rx.consistent

/-- `item.rs::Item`. -/
inductive Item (ι V : Type) where
  | empty (ic : Bool)
  | node (rx : LazyRegex) (children : List (Item ι V))
  | leaf (rx : LazyRegex) (values : List (ι × V))
deriving Repr

/-- One stored value with its pattern and id. -/
structure Entry (ι V : Type) where
  pat : List Char
  id : ι
  val : V
deriving DecidableEq, Repr

section
variable {ι V : Type} [DecidableEq ι]

/-! ### `HashMap<String, V>` -/

/-- `HashMap::insert`. -/
def upsert : List (ι × V) → ι → V → List (ι × V)
  | [], id, v => [(id, v)]
  | (k, w) :: rest, id, v => if k = id then (k, v) :: rest else (k, w) :: upsert rest id v

/-- `HashMap::remove` – the value. -/
def lookupKey : List (ι × V) → ι → Option V
  | [], _ => none
  | (k, w) :: rest, id => if k = id then some w else lookupKey rest id

/-- `HashMap::remove` – the map afterwards. -/
def eraseKey : List (ι × V) → ι → List (ι × V)
  | [], _ => []
  | (k, w) :: rest, id => if k = id then rest else (k, w) :: eraseKey rest id

/-! ### Item -/

/-- `Item::regex`. -/
def Item.regex : Item ι V → List Char
  | .empty _ => []
  | .node rx _ => rx.original
  | .leaf rx _ => rx.original

/-- `Leaf::new`. -/
def newLeafItem (p : List Char) (id : ι) (v : V) (ic : Bool) : Item ι V :=
  .leaf (LazyRegex.newLeaf p ic) [(id, v)]

/-- `Leaf::insert`. -/
def leafInsert (rx : LazyRegex) (vs : List (ι × V)) (p : List Char) (id : ι) (v : V) : Item ι V :=
  if p = rx.original then .leaf rx (upsert vs id v)
  else
    .node (LazyRegex.newNode (commonPrefix rx.original p) rx.ic)
      [.leaf rx vs, .leaf (LazyRegex.newLeaf p rx.ic) [(id, v)]]

/-- The child-selection loop of `Node::insert` over the children's `regex()`:
`i` current index, `mx` = `max_prefix_size`, `item` = `max_prefix_item`. -/
def selLoop (p : List Char) : List (List Char) → Nat → Nat → Option Nat → Option Nat
  | [], _, _, item => item
  | r :: rs, i, mx, item =>
    let ps := commonPrefixCharSize p r
    if ps > mx || (item.isNone && r == p) then selLoop p rs (i + 1) ps (some i)
    else selLoop p rs (i + 1) mx item

mutual
/-- `Item::insert` / `Node::insert`. -/
def Item.insert : Item ι V → List Char → ι → V → Item ι V
  | .empty ic, p, id, v => newLeafItem p id v ic
  | .leaf rx vs, p, id, v => leafInsert rx vs p id v
  | .node rx cs, p, id, v =>
    let mx := rx.original.length                       -- `chars().count()` (repaired, D11)
    let ps := commonPrefixCharSize p rx.original
    if ps < mx then
      .node (LazyRegex.newNode (getPrefixWithCharSize rx.original ps) rx.ic)
        [newLeafItem p id v rx.ic, .node rx cs]
    else
      match selLoop p (cs.map Item.regex) 0 mx none with
      | some i => .node rx (insertAt cs i p id v)
      | none => .node rx (cs ++ [newLeafItem p id v rx.ic])
/-- `let c = children.remove(i); children.push(c.insert(..))`.  The index comes from `selLoop` and is
in range (`Proofs/Tree.lean: selLoop_lt`); the `[]` case is unreachable. -/
def insertAt : List (Item ι V) → Nat → List Char → ι → V → List (Item ι V)
  | [], _, _, _, _ => []
  | c :: cs, 0, p, id, v => cs ++ [Item.insert c p id v]
  | c :: cs, i + 1, p, id, v => c :: insertAt cs i p id v
end

variable (E : Engine)

mutual
/-- `Item::find` / `Node::find` / `Leaf::find`. -/
def Item.find : Item ι V → List Char → List V
  | .empty _, _ => []
  | .leaf rx vs, s => if rx.isMatch E s then vs.map (·.2) else []
  | .node rx cs, s => if rx.isMatch E s then findL cs s else []
def findL : List (Item ι V) → List Char → List V
  | [], _ => []
  | c :: cs, s => Item.find c s ++ findL cs s
end

variable {E}

mutual
/-- `Item::get` / `Node::get` (`regex.starts_with(prefix)`) / `Leaf::get`. -/
def Item.get : Item ι V → List Char → List V
  | .empty _, _ => []
  | .leaf rx vs, p => if rx.original = p then vs.map (·.2) else []
  | .node rx cs, p => if rx.original.isPrefixOf p then getL cs p else []
def getL : List (Item ι V) → List Char → List V
  | [], _ => []
  | c :: cs, p => Item.get c p ++ getL cs p
end

mutual
/-- `Item::get_mut(regex)` followed by an in-place update `*v = g(id, *v)` of every value it returned (same traversal
as `get`: a node is entered iff `regex.starts_with(prefix)`, a leaf is taken iff its pattern is `regex`). -/
def Item.modifyAt : Item ι V → List Char → (ι → V → V) → Item ι V
  | .empty ic, _, _ => .empty ic
  | .leaf rx vs, p, g => if rx.original = p then .leaf rx (vs.map fun kv => (kv.1, g kv.1 kv.2)) else .leaf rx vs
  | .node rx cs, p, g => if rx.original.isPrefixOf p then .node rx (modifyAtL cs p g) else .node rx cs
def modifyAtL : List (Item ι V) → List Char → (ι → V → V) → List (Item ι V)
  | [], _, _ => []
  | c :: cs, p, g => Item.modifyAt c p g :: modifyAtL cs p g
end

mutual
/-- `Item::len`. -/
def Item.len : Item ι V → Nat
  | .empty _ => 0
  | .leaf _ vs => vs.length
  | .node _ cs => lenL cs
def lenL : List (Item ι V) → Nat
  | [] => 0
  | c :: cs => Item.len c + lenL cs
end

mutual
/-- `Item::is_empty` (`Node::is_empty`: every child is empty). -/
def Item.isEmpty : Item ι V → Bool
  | .empty _ => true
  | .leaf _ vs => vs.isEmpty
  | .node _ cs => isEmptyL cs
def isEmptyL : List (Item ι V) → Bool
  | [] => true
  | c :: cs => Item.isEmpty c && isEmptyL cs
end

mutual
/-- `Item::cached_len`. -/
def Item.cachedLen : Item ι V → Nat
  | .empty _ => 0
  | .leaf rx _ => if rx.isCompiled then 1 else 0
  | .node rx cs => (if rx.isCompiled then 1 else 0) + cachedLenL cs
def cachedLenL : List (Item ι V) → Nat
  | [] => 0
  | c :: cs => Item.cachedLen c + cachedLenL cs
end

mutual
/-- All stored entries in tree order (what `iter()` walks; the specification of the tree's state). -/
def Item.contents : Item ι V → List (Entry ι V)
  | .empty _ => []
  | .leaf rx vs => vs.map fun kv => ⟨rx.original, kv.1, kv.2⟩
  | .node _ cs => contentsL cs
def contentsL : List (Item ι V) → List (Entry ι V)
  | [] => []
  | c :: cs => Item.contents c ++ contentsL cs
end

/-- `Item::iter()` collected. -/
def Item.iterVals (t : Item ι V) : List V := t.contents.map (·.val)

/-- What `Node::remove` / `Node::retain` push: the child unless it is empty. -/
def keepNonEmpty (c : Item ι V) : List (Item ι V) := if c.isEmpty then [] else [c]

/-- `Leaf::remove`. -/
def leafRemove (rx : LazyRegex) (vs : List (ι × V)) (id : ι) : Item ι V × Option V :=
  match lookupKey vs id with
  | none => (.leaf rx vs, none)
  | some v =>
    let vs' := eraseKey vs id
    if vs'.isEmpty then (.empty rx.ic, some v) else (.leaf rx vs', some v)

/-- Tail of `Node::remove` / `Node::retain`: collapse a single child. -/
def collapse1 (rx : LazyRegex) (children : List (Item ι V)) : Item ι V :=
  match children with
  | [c] => c
  | _ => .node rx children

mutual
/-- `Item::remove` / `Node::remove`. -/
def Item.remove : Item ι V → ι → Item ι V × Option V
  | .empty ic, _ => (.empty ic, none)
  | .leaf rx vs, id => leafRemove rx vs id
  | .node rx cs, id =>
    let r := removeL cs id
    (collapse1 rx r.1, r.2)
/-- The `for child in self.children` loop of `Node::remove` (`removed` is the second component). -/
def removeL : List (Item ι V) → ι → List (Item ι V) × Option V
  | [], _ => ([], none)
  | c :: cs, id =>
    let r := Item.remove c id
    match r.2 with
    | some v => (keepNonEmpty r.1 ++ cs, some v)     -- the rest is pushed unchanged
    | none =>
      let r' := removeL cs id
      (keepNonEmpty r.1 ++ r'.1, r'.2)
end

/-- `HashMap::retain(|k, v| f(k, v))` where the closure gets `&mut V`: `f id v = none` drops the entry,
`some v'` keeps it with the (possibly updated) value `v'`. -/
def retainVals (f : ι → V → Option V) (vs : List (ι × V)) : List (ι × V) :=
  vs.filterMap fun kv => (f kv.1 kv.2).map fun v' => (kv.1, v')

mutual
/-- `Item::retain` / `Node::retain` / `Leaf::retain`.  The closure `F: Fn(&str, &mut V) -> bool` both decides
and may update the value in place (`HostMatcher` removes rules from the inner matcher this way), hence
`f : id → V → Option V`. -/
def Item.retain : Item ι V → (ι → V → Option V) → Item ι V
  | .empty ic, _ => .empty ic
  | .leaf rx vs, f =>
    let vs' := retainVals f vs
    if vs'.isEmpty then .empty rx.ic else .leaf rx vs'
  | .node rx cs, f =>
    let children := retainL cs f
    if children.isEmpty then .empty rx.ic else collapse1 rx children
def retainL : List (Item ι V) → (ι → V → Option V) → List (Item ι V)
  | [], _ => []
  | c :: cs, f => keepNonEmpty (Item.retain c f) ++ retainL cs f
end

variable (E)

/-- `Leaf::cache` and the first block of `Node::cache`: compile unless already compiled; one unit of
budget is spent iff the compilation succeeded.  `none` = `u64` underflow. -/
def rxCache (rx : LazyRegex) (left : Nat) : Option (LazyRegex × Nat) :=
  if rx.isCompiled then some (rx, left)
  else
    let rx' := rx.compile E
    if rx'.isCompiled then (if left = 0 then none else some (rx', left - 1))
    else some (rx', left)

mutual
/-- `Item::cache(left, cache_level, current_level)` (+ `Node::cache`, `Leaf::cache`). -/
def Item.cache : Item ι V → Nat → Nat → Nat → Option (Item ι V × Nat)
  | .empty ic, left, _, _ => some (.empty ic, left)
  | .leaf rx vs, left, lvl, cur =>
    if left = 0 then some (.leaf rx vs, left)
    else if cur > lvl then some (.leaf rx vs, left)
    else if lvl = cur then
      match rxCache E rx left with
      | none => none
      | some r => some (.leaf r.1 vs, r.2)
    else some (.leaf rx vs, left)
  | .node rx cs, left, lvl, cur =>
    if left = 0 then some (.node rx cs, left)
    else if cur > lvl then some (.node rx cs, left)
    else
      match (if lvl = cur then rxCache E rx left else some (rx, left)) with
      | none => none
      | some r =>
        match cacheL cs r.2 lvl (cur + 1) with
        | none => none
        | some r' => some (.node r.1 r'.1, r'.2)
def cacheL : List (Item ι V) → Nat → Nat → Nat → Option (List (Item ι V) × Nat)
  | [], left, _, _ => some ([], left)
  | c :: cs, left, lvl, cur =>
    match Item.cache c left lvl cur with
    | none => none
    | some r =>
      match cacheL cs r.2 lvl cur with
      | none => none
      | some r' => some (r.1 :: r'.1, r'.2)
end

/-- The `while left > 0` loop of `RegexTreeMap::cache(limit, None)`.  `fuel` bounds the iterations
(each one that continues strictly decreases `left`); running out of fuel is `none` and never
happens with `fuel = limit + 1` (`Props/C12.lean: treeCache_total`). -/
def cacheLoop : Nat → Item ι V → Nat → Nat → Option (Item ι V × Nat)
  | 0, _, _, _ => none
  | fuel + 1, root, left, lvl =>
    if left = 0 then some (root, left)
    else
      match Item.cache E root left lvl 0 with
      | none => none
      | some r => if r.2 = left then some (r.1, left) else cacheLoop fuel r.1 r.2 (lvl + 1)

/-- `RegexTreeMap::cache(limit, level)`: new root and the returned budget. -/
def treeCache (root : Item ι V) (limit : Nat) : Option Nat → Option (Item ι V × Nat)
  | some lvl => Item.cache E root limit lvl 0
  | none => cacheLoop E (limit + 1) root limit 0

end

/-! ### Depth (every operation of the real tree recurses once per level) -/

section
variable {ι V : Type}
mutual
/-- Number of levels of the tree: `Empty` 0, a leaf 1, a node 1 + its deepest child.  `Item::{insert, find, get, remove,
retain, len, cache, trace}` and their `Node::` / `Leaf::` counterparts call themselves once per level on the way down, so this
is the recursion depth of every operation (DESIGN §6-D26: a tree built from thousands of chained prefixes overflows the stack). -/
def Item.depth : Item ι V → Nat
  | .empty _ => 0
  | .leaf _ _ => 1
  | .node _ cs => 1 + depthL cs
def depthL : List (Item ι V) → Nat
  | [] => 0
  | c :: cs => max (Item.depth c) (depthL cs)
end
end

/-! ### `trace.rs`: `trace(haystack)` -/

/-- `trace.rs::Trace`. -/
inductive Trace (V : Type) where
  | mk (regex : List Char) (count : Nat) (matched : Bool) (children : List (Trace V)) (values : List V)
deriving Repr

namespace Trace
variable {V : Type}
def regex : Trace V → List Char | mk r _ _ _ _ => r
def count : Trace V → Nat | mk _ c _ _ _ => c
def matched : Trace V → Bool | mk _ _ m _ _ => m
def children : Trace V → List (Trace V) | mk _ _ _ cs _ => cs
def values : Trace V → List V | mk _ _ _ _ vs => vs

mutual
/-- The values listed under the *matched* leaves of a trace (what the router turns into matched routes:
`tree_trace_to_trace` keeps `values` only when `matched`, and children exist only below matched nodes). -/
def found : Trace V → List V
  | mk _ _ m cs vs => if m then vs ++ foundL cs else []
def foundL : List (Trace V) → List V
  | [] => []
  | t :: ts => found t ++ foundL ts
end
end Trace

section
variable {ι V : Type} [DecidableEq ι] (E : Engine)

mutual
/-- `Item::trace` / `Node::trace` / `Leaf::trace`.  A leaf lists all its values whether or not it matched; a node
traces its children only when its own prefix regex matched; `count` is `len()` of the sub-tree. -/
def Item.trace : Item ι V → List Char → Trace V
  | .empty _, _ => .mk [] 0 true [] []
  | .leaf rx vs, s => .mk rx.original vs.length (rx.isMatch E s) [] (vs.map (·.2))
  | .node rx cs, s =>
    .mk rx.original (lenL cs) (rx.isMatch E s) (if rx.isMatch E s then traceL cs s else []) []
def traceL : List (Item ι V) → List Char → List (Trace V)
  | [], _ => []
  | c :: cs, s => Item.trace c s :: traceL cs s
end

end

/-! ### `iter.rs`: the iterator as the stack machine it is -/

section
variable {ι V : Type}

/-- `ItemIter`: `children` = the slice still to visit, `parents` = the chain of boxed parent iterators (each is
suspended with `values = None`, so only its remaining slice is kept), `values` = the `hash_map::Values` of the
leaf being drained. -/
structure IterSt (ι V : Type) where
  children : List (Item ι V)
  parents : List (List (Item ι V))
  values : Option (List V)

/-- `Item::iter()`: `children: slice::from_ref(self), parent: None, values: None`. -/
def Item.iter (t : Item ι V) : IterSt ι V := ⟨[t], [], none⟩

/-- `ItemIter::next`, one call; the Rust function calls itself after every state change, `fuel` bounds those
self-calls.  Outer `none` = out of fuel (never with `fuel > IterSt.measure`, see `Proofs/TreeIter.lean`);
`some none` = the iterator is exhausted; `some (some (v, st'))` = yields `v`, continues from `st'`. -/
def IterSt.next : Nat → IterSt ι V → Option (Option (V × IterSt ι V))
  | 0, _ => none
  | fuel + 1, st =>
    match st.values with
    | none =>
      match st.children with
      | [] =>
        match st.parents with
        | [] => some none
        | p :: ps => IterSt.next fuel ⟨p, ps, none⟩             -- `*self = *parent`
      | .empty _ :: rest => IterSt.next fuel ⟨rest, st.parents, none⟩
      | .leaf _ vs :: rest => IterSt.next fuel ⟨rest, st.parents, some (vs.map (·.2))⟩
      | .node _ cs :: rest => IterSt.next fuel ⟨cs, rest :: st.parents, none⟩
    | some [] => IterSt.next fuel ⟨st.children, st.parents, none⟩
    | some (v :: vs) => some (some (v, ⟨st.children, st.parents, some vs⟩))

mutual
/-- Size measure: every self-call of `next` decreases `IterSt.measure` by one. -/
def Item.sz : Item ι V → Nat
  | .empty _ => 1
  | .leaf _ vs => vs.length + 2
  | .node _ cs => szL cs + 2
def szL : List (Item ι V) → Nat
  | [] => 0
  | c :: cs => Item.sz c + szL cs
end

def IterSt.measure (st : IterSt ι V) : Nat :=
  szL st.children + (st.parents.map fun p => szL p + 1).sum +
    (match st.values with | none => 0 | some vs => vs.length + 1)

/-- Collect by calling `next` until it returns `None` (`n` bounds the number of calls). -/
def IterSt.drain (fuel : Nat) : Nat → IterSt ι V → Option (List V)
  | 0, _ => none
  | n + 1, st =>
    match IterSt.next fuel st with
    | none => none
    | some none => some []
    | some (some (v, st')) => (IterSt.drain fuel n st').map (v :: ·)

/-- `tree.iter().collect()`. -/
def Item.iterCollect (t : Item ι V) : Option (List V) :=
  IterSt.drain (t.iter.measure + 1) (t.iter.measure + 1) t.iter

end

/-! ### The structural invariant (decidable; evaluated by the driver on every tree it builds and
compared, through the snapshot hook, with the real tree) -/

section
variable {ι V : Type} [DecidableEq ι]

/-- Siblings under a node whose prefix has `n` chars: pairwise, the scanner finds no common boundary
prefix longer than `n`, and their `regex()` differ. -/
def sibOk (n : Nat) : List (List Char) → Bool
  | [] => true
  | r :: rs => rs.all (fun r' => decide (commonPrefixCharSize r r' ≤ n) && decide (r ≠ r')) && sibOk n rs

/-- Keys of a leaf map are unique. -/
def nodupKeys : List (ι × V) → Bool
  | [] => true
  | kv :: rest => rest.all (fun kv' => decide (kv'.1 ≠ kv.1)) && nodupKeys rest

/-- A child of a node with prefix `q`: not `Empty`; `q` is a boundary prefix of its `regex()`;
a child node has a strictly longer prefix. -/
def childOk (q : List Char) : Item ι V → Bool
  | .empty _ => false
  | .leaf rx _ => bpre q rx.original
  | .node rx _ => bpre q rx.original && decide (q.length < rx.original.length)

mutual
/-- `Inv ic t`. -/
def Item.inv (ic : Bool) : Item ι V → Bool
  | .empty ic' => ic' == ic
  | .leaf rx vs => rx.leafWf && rx.ic == ic && !vs.isEmpty && nodupKeys vs
  | .node rx cs =>
    rx.nodeWf && rx.ic == ic && (scan b0 rx.original).atBoundary && decide (2 ≤ cs.length) &&
      cs.all (childOk rx.original) && sibOk rx.original.length (cs.map Item.regex) && invL ic cs
def invL (ic : Bool) : List (Item ι V) → Bool
  | [] => true
  | c :: cs => Item.inv ic c && invL ic cs
end

/-! ### Reference semantics: the flat list of live entries -/

/-- insert: replace the value stored under the same (pattern, id), else append. -/
def refInsert : List (Entry ι V) → List Char → ι → V → List (Entry ι V)
  | [], p, id, v => [⟨p, id, v⟩]
  | e :: rest, p, id, v =>
    if e.pat = p ∧ e.id = id then ⟨p, id, v⟩ :: rest else e :: refInsert rest p id v

/-- remove(id): drop the first entry with that id (unique when an id determines its pattern). -/
def refRemove : List (Entry ι V) → ι → List (Entry ι V)
  | [], _ => []
  | e :: rest, id => if e.id = id then rest else e :: refRemove rest id

def refRemoved : List (Entry ι V) → ι → Option V
  | [], _ => none
  | e :: rest, id => if e.id = id then some e.val else refRemoved rest id

def refRetain (L : List (Entry ι V)) (f : ι → V → Option V) : List (Entry ι V) :=
  L.filterMap fun e => (f e.id e.val).map fun v' => ⟨e.pat, e.id, v'⟩

/-- A pure predicate as a `retain` closure. -/
def keepIf (g : ι → V → Bool) : ι → V → Option V := fun id v => if g id v then some v else none

/-- `get_mut(p)` + update on the flat list: the values stored under pattern `p` are updated. -/
def refModify (L : List (Entry ι V)) (p : List Char) (g : ι → V → V) : List (Entry ι V) :=
  L.map fun e => if e.pat = p then ⟨e.pat, e.id, g e.id e.val⟩ else e

/-- The operations of the property's histories. -/
inductive Op (ι V : Type) where
  | insert (p : List Char) (id : ι) (v : V)
  | remove (id : ι)
  | retain (f : ι → V → Option V)
  | modify (p : List Char) (g : ι → V → V)
  | cache (limit : Nat) (level : Option Nat)

def refStep (L : List (Entry ι V)) : Op ι V → List (Entry ι V)
  | .insert p id v => refInsert L p id v
  | .remove id => refRemove L id
  | .retain f => refRetain L f
  | .modify p g => refModify L p g
  | .cache _ _ => L

/-- One operation on the tree (`RegexTreeMap::{insert,remove,retain,cache}`); `none` only if `cache`
underflowed or did not terminate – never, by `Props/C12.lean`. -/
def treeStep (E : Engine) (t : Item ι V) : Op ι V → Option (Item ι V)
  | .insert p id v => some (t.insert p id v)
  | .remove id => some (t.remove id).1
  | .retain f => some (t.retain f)
  | .modify p g => some (t.modifyAt p g)
  | .cache limit level => (treeCache E t limit level).map (·.1)

def treeRun (E : Engine) : Item ι V → List (Op ι V) → Option (Item ι V)
  | t, [] => some t
  | t, op :: ops =>
    match treeStep E t op with
    | none => none
    | some t' => treeRun E t' ops

def refRun : List (Entry ι V) → List (Op ι V) → List (Entry ι V)
  | L, [] => L
  | L, op :: ops => refRun (refStep L op) ops

/-- Domain of the histories (hypotheses of `history_spec`), relative to the live entries `L`:
every inserted pattern satisfies `good`, and an id in use determines its pattern. -/
def histOk (good : List Char → Bool) : List (Entry ι V) → List (Op ι V) → Bool
  | _, [] => true
  | L, op :: ops =>
    (match op with
     | .insert p id _ => good p && L.all (fun e => decide (e.id = id → e.pat = p))
     | _ => true) && histOk good (refStep L op) ops

end

/-! ### `UniqueRegexTreeMap` (`tree.rs`): the id of a value is its pattern -/

section
variable {V : Type}

def uInsert (t : Item (List Char) V) (p : List Char) (v : V) : Item (List Char) V := t.insert p p v
def uRemove (t : Item (List Char) V) (p : List Char) : Item (List Char) V × Option V := t.remove p
/-- `self.tree.get(regex).pop()`. -/
def uGet (t : Item (List Char) V) (p : List Char) : Option V := (t.get p).getLast?

end

end Rio.Tree
