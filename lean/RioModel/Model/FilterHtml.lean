/-
Instantiation of the abstract tokenizer of `Model/Filter.lean` with the tokenizer model of `Model/Html.lean` (W5),
plus the executable stand-ins the drivers use for the other parameters (scraper, the codecs).

`htmlTokenize bs` runs `Tokenizer.new bs` exactly as `HtmlFilterBodyAction::filter` does: `next()` until the first
`ErrorToken`, collecting for each token its kind, `raw()` and — for tag tokens — `tag_name()`; the remainder is
`raw() ++ buffered()` at the `ErrorToken`.  Any modelled failure (a would-be panic, `Err(FromUtf8Error)`, the `hang`
flag, fuel exhausted) makes `htmlTokenize?` return `none`; `htmlTokenize` then answers "no token, everything held",
which makes the model's output differ visibly from the implementation's (such a case is a correspondence failure,
never a silent default).  C16 proves none of these failures happens.
-/
import RioModel.Model.Filter
import RioModel.Model.Html

namespace Rio.Filter
open Rio.Html

def kindOf : TokenType → TokKind
  | .text => .text
  | .startTag => .startTag
  | .endTag => .endTag
  | .selfClosing => .selfClosing
  | _ => .other

def tokenizeGo : Nat → Tokenizer → List Tok → Option (List Tok × Bytes)
  | 0, _, _ => none
  | n + 1, t, acc =>
    let t1 := t.next
    if t1.panic || t1.hang || t1.utf8Err then none
    else if t1.token == .error then
      match t1.raw, t1.buffered with
      | some r, some b => some (acc.reverse, r ++ b)
      | _, _ => none
    else
      match t1.raw with
      | none => none
      | some r =>
        if Tokenizer.isTagLike t1.token then
          match t1.tagName with
          | (.ok (some nm, _), t2) => tokenizeGo n t2 ({ kind := kindOf t1.token, raw := r, name := nm } :: acc)
          | (.ok (none, _), t2) => tokenizeGo n t2 ({ kind := kindOf t1.token, raw := r } :: acc)
          | _ => none
        else tokenizeGo n t1 ({ kind := kindOf t1.token, raw := r } :: acc)

def htmlTokenize? (bs : Bytes) : Option (List Tok × Bytes) :=
  tokenizeGo (bs.length + 2) (Tokenizer.new bs.toArray) []

/-- `Tokenizer::new(buffer)` run to the `ErrorToken` (append_child / prepend_child) -/
def htmlPlain (bs : Bytes) : List Tok × Bytes := (htmlTokenize? bs).getD ([], bs)

/-- The loop of `HtmlFilterBodyAction::filter` since fe7eac6, from any tokenizer state: before each `next()` the
context `raw_tag()` is read, after it `err().is_some()`.  Same failure exits as `tokenizeGo`. -/
def tokenizeGoX : Nat → Tokenizer → List TokX → Option (List TokX × Bytes × Bytes)
  | 0, _, _ => none
  | n + 1, t, acc =>
    let c := t.rawTag
    let t1 := t.next
    if t1.panic || t1.hang || t1.utf8Err then none
    else if t1.token == .error then
      match t1.raw, t1.buffered with
      | some r, some b => some (acc.reverse, r ++ b, c)
      | _, _ => none
    else
      match t1.raw with
      | none => none
      | some r =>
        if Tokenizer.isTagLike t1.token then
          match t1.tagName with
          | (.ok (some nm, _), t2) =>
            tokenizeGoX n t2 ({ tok := { kind := kindOf t1.token, raw := r, name := nm }, cut := t1.err, ctx := c } :: acc)
          | (.ok (none, _), t2) =>
            tokenizeGoX n t2 ({ tok := { kind := kindOf t1.token, raw := r }, cut := t1.err, ctx := c } :: acc)
          | _ => none
        else tokenizeGoX n t1 ({ tok := { kind := kindOf t1.token, raw := r }, cut := t1.err, ctx := c } :: acc)

/-- `Tokenizer::new_fragment(buffer, context)` run to the `ErrorToken`; the context is already lower case (it comes from
`raw_tag()`) -/
def htmlStream? (ctx bs : Bytes) : Option (List TokX × Bytes × Bytes) :=
  tokenizeGoX (bs.length + 2) (Tokenizer.newFragment bs.toArray ctx) []

def htmlStream (ctx bs : Bytes) : List TokX × Bytes × Bytes := (htmlStream? ctx bs).getD ([], bs, ctx)

/-- the tokenizer handed to the filter model by the drivers -/
def htmlTokenize : Tokenize := { plain := htmlPlain, stream := htmlStream }

@[simp] theorem htmlTokenize_apply (bs : Bytes) : htmlTokenize bs = (htmlTokenize? bs).getD ([], bs) := rfl

/-! ### stand-in for `scraper` (drivers only; the theorems hold for every `evaluate`) -/

def isIdentByte (b : Nat) : Bool :=
  (97 ≤ b && b ≤ 122) || (65 ≤ b && b ≤ 90) || (48 ≤ b && b ≤ 57) || b == 45

/-- `*` matches always; an element name matches iff the fragment contains a start / self-closing tag of that name
(as seen by the tokenizer model); anything else never matches.  The harnesses generate only selectors on which
this agrees with scraper (checked by the implementation-side oracle of C15 on every run). -/
def evalStandIn (data sel : Bytes) : Bool :=
  if sel == [42] then true
  else if !sel.isEmpty && sel.all isIdentByte then
    (htmlTokenize data).1.any fun t => (t.kind == .startTag || t.kind == .selfClosing) && t.name == sel
  else false

/-! ### scripted codec (drivers of C14 and of the compressed cases of C04)

The decoder is replaced by the list of outputs the real decoder produced under the schedule (computed by the harness
with a replica of `DecodeFilterBody`), the encoder by the identity: the model then computes what the chain hands to the
encoder, i.e. (by the codec laws, `Rio.C14.compressed_equiv`) the decoding of the chain's output. -/

structure ScriptDec where
  /-- outputs of the remaining `filter` calls; an exhausted script = the call fails -/
  outs : List Bytes
  /-- output of `end()`; `none` = it fails -/
  fin : Option Bytes

def scriptCodec (d : ScriptDec) : Codec ScriptDec Unit where
  create _ := (d, ())
  decWrite s _ :=
    match s.outs with
    | [] => none
    | o :: rest => some ({ s with outs := rest }, o)
  decFinish s := s.fin
  encWrite _ b := some ((), b)
  encFinish _ := some []

/-! ### helpers shared by the drivers -/

def utf8Bytes (s : String) : Bytes := s.toUTF8.toList.map (·.toNat)

/-- pieces of `body` between consecutive cut positions (cuts non-decreasing, within range) -/
def splitAt (body : Bytes) (cuts : List Nat) : List Bytes :=
  go body 0 cuts
where
  go (rest : Bytes) (pos : Nat) : List Nat → List Bytes
    | [] => [rest]
    | c :: cs => rest.take (c - pos) :: go (rest.drop (c - pos)) c cs

/-- feed chunks, recording the index of the `filter` call during which the chain entered its error state -/
def feedTrack {D E : Type} (tk : Tokenize) (ev : Bytes → Bytes → Bool) (codec : Codec D E) :
    Chain D E → List Bytes → Nat → Option Nat → List Bytes → Chain D E × List Bytes × Option Nat
  | c, [], _, err, acc => (c, acc.reverse, err)
  | c, x :: xs, i, err, acc =>
    let (c1, o) := c.filter tk ev codec x
    let err1 := if err.isNone && c1.inError then some i else err
    feedTrack tk ev codec c1 xs (i + 1) err1 (o :: acc)

/-- (concatenated output, index of the failing call: `#chunks` = during `end`) -/
def runTrack {D E : Type} (tk : Tokenize) (ev : Bytes → Bytes → Bool) (codec : Codec D E)
    (c : Chain D E) (chunks : List Bytes) : Bytes × Option Nat :=
  let (c1, outs, err) := feedTrack tk ev codec c chunks 0 none []
  let (c2, e) := c1.end tk ev codec
  let err2 := if err.isNone && c2.inError then some chunks.length else err
  (outs.flatten ++ e, err2)

end Rio.Filter
