/-
Executable stand-in for the `regex` crate used by the C10 driver (DESIGN §3: the engine is *modelled, not
verified*; the theorems of Props/C10 take the engine as a parameter with stated laws, this file is the
instance the correspondence check runs against the real crate on every case).

* `Rx`     – AST of the supported fragment: literals, `.`, classes (ranges, negation, `\d \w \s`), groups
             `( … )` `(?: … )` `(?P<name> … )` `(?<name> … )`, alternation, `* + ? {n} {n,} {n,m}` greedy and lazy,
             `^` `$`.
* `parseRx` – parser of that fragment; `none` = `Regex::new` fails (or the text is outside the fragment: the
             generator of harness c10 stays inside, a disagreement would be reported by the correspondence).
             Group-name validity and duplicate names follow regex-syntax 0.8 (`is_capture_char`).
* `exec`   – backtracking matcher in continuation-passing style: leftmost-first (Perl-like) semantics, which is
             what the crate documents for capture groups; `captures` / `isMatch` are `Regex::captures` /
             `Regex::is_match` (unanchored search unless the pattern is anchored).
Case-insensitive matching folds ASCII letters only (the generator avoids the two non-ASCII characters that
fold to ASCII letters, U+017F and U+212A).
-/
import RioModel.Model.Marker

namespace Rio.Marker.Engine
open Rio.Marker

inductive Rx where
  | eps
  | chr (c : Char)
  | cls (neg : Bool) (ranges : List (Char × Char))
  | cat (a b : Rx)
  | alt (a b : Rx)
  | rep (a : Rx) (min : Nat) (max : Option Nat) (greedy : Bool)
  | grp (name : Option Str) (a : Rx)
  | bol
  | eol
deriving Repr, Inhabited

def Rx.any : Rx := .cls true [('\n', '\n')]

/-! ### Parser -/

def isDigit (c : Char) : Bool := decide ('0' ≤ c) && decide (c ≤ '9')
def isAsciiAlpha (c : Char) : Bool := (decide ('a' ≤ c) && decide (c ≤ 'z')) || (decide ('A' ≤ c) && decide (c ≤ 'Z'))
/-- `char::is_alphabetic` (ASCII exact; every non-ASCII char the generator uses in names is a letter). -/
def isAlphabetic (c : Char) : Bool := isAsciiAlpha c || decide (c.toNat ≥ 128)
def isAlphanumeric (c : Char) : Bool := isAlphabetic c || isDigit c

/-- regex-syntax `is_capture_char` -/
def isCaptureChar (c : Char) (first : Bool) : Bool :=
  if first then c = '_' || isAlphabetic c
  else c = '_' || c = '.' || c = '[' || c = ']' || isAlphanumeric c

def validGroupName : Str → Bool
  | [] => false
  | c :: cs => isCaptureChar c true && cs.all (isCaptureChar · false)

/-- `\w` is Unicode-aware in the crate: every non-ASCII char the generator uses is a letter, so the stand-in
takes all of U+0080.. as word chars (`\d`, `\s`: ASCII; the generator uses no other digits / spaces with them). -/
def wordRanges : List (Char × Char) :=
  [('a', 'z'), ('A', 'Z'), ('0', '9'), ('_', '_'), (Char.ofNat 128, Char.ofNat 0x10FFFF)]

def perlClass (c : Char) : Option (Bool × List (Char × Char)) :=
  if c = 'd' then some (false, [('0', '9')])
  else if c = 'D' then some (true, [('0', '9')])
  else if c = 'w' then some (false, wordRanges)
  else if c = 'W' then some (true, wordRanges)
  else if c = 's' then some (false, [(' ', ' '), ('\t', '\r')])
  else if c = 'S' then some (true, [(' ', ' '), ('\t', '\r')])
  else none

def pNum : Str → Nat → Bool → Option (Nat × Str)
  | c :: rest, acc, seen =>
    if isDigit c then pNum rest (acc * 10 + (c.toNat - '0'.toNat)) true
    else if seen then some (acc, c :: rest) else none
  | [], acc, seen => if seen then some (acc, []) else none

/-- One class atom: `(char, rest)`; escapes of meta characters and of `/ % @ _ < > = ! , : ; " '` style
punctuation the crate also accepts are literals. -/
def pClsChar : Str → Option (Char × Str)
  | '\\' :: d :: rest =>
    if d = 'n' then some ('\n', rest) else if d = 't' then some ('\t', rest) else if d = 'r' then some ('\r', rest)
    else if isAlphanumeric d then none else some (d, rest)
  | c :: rest => if c = '[' || c = ']' || c = '\\' then none else some (c, rest)
  | [] => none

/-- After the class atom `a`: a range `a-b`, a trailing `-`, or the single char; returns the items (most recent first)
and the rest of the input. -/
def clsRange (a : Char) (rest1 : Str) : Option (List (Char × Char) × Str) :=
  match rest1 with
  | '-' :: ']' :: _ => some ([('-', '-'), (a, a)], rest1.drop 1)
  | '-' :: '-' :: _ => none
  | '-' :: rest2 =>
    match pClsChar rest2 with
    | none => none
    | some (b, rest3) => if a ≤ b then some ([(a, b)], rest3) else none
  | _ => some ([(a, a)], rest1)

/-- Items of a class up to the closing `]`.  Set operators (`&&`, `--`, `~~`) and nested classes are outside the
fragment. -/
def pClsItems : Nat → Str → List (Char × Char) → Bool → Option (List (Char × Char) × Str)
  | 0, _, _, _ => none
  | fuel + 1, inp, acc, first =>
    match inp with
    | ']' :: rest => if first then pClsItems fuel rest ((']', ']') :: acc) false else some (acc.reverse, rest)
    | '\\' :: d :: rest =>
      match perlClass d with
      | some (false, rs) => pClsItems fuel rest (rs.reverse ++ acc) false
      | some (true, _) => none
      | none =>
        match pClsChar inp with
        | none => none
        | some (a, rest1) =>
          match clsRange a rest1 with
          | none => none
          | some (its, rest') => pClsItems fuel rest' (its ++ acc) false
    | '&' :: '&' :: _ => none
    | '-' :: '-' :: _ => none
    | '~' :: '~' :: _ => none
    | _ =>
      match pClsChar inp with
      | none => none
      | some (a, rest1) =>
        match clsRange a rest1 with
        | none => none
        | some (its, rest') => pClsItems fuel rest' (its ++ acc) false

/-- After `[`. -/
def pCls (inp : Str) : Option (Rx × Str) :=
  let (neg, inp) := match inp with
    | '^' :: rest => (true, rest)
    | _ => (false, inp)
  match pClsItems (2 * inp.length + 2) inp [] true with
  | some (rs, rest) => if rs.isEmpty then none else some (.cls neg rs, rest)
  | none => none

def lazyMark : Str → Bool × Str
  | '?' :: rest => (false, rest)
  | inp => (true, inp)

/-- Quantifiers applied to `r`. -/
def pQuant : Nat → Rx → Str → Option (Rx × Str)
  | 0, _, _ => none
  | fuel + 1, r, inp =>
    match inp with
    | '*' :: rest => let (g, rest) := lazyMark rest; pQuant fuel (.rep r 0 none g) rest
    | '+' :: rest => let (g, rest) := lazyMark rest; pQuant fuel (.rep r 1 none g) rest
    | '?' :: rest => let (g, rest) := lazyMark rest; pQuant fuel (.rep r 0 (some 1) g) rest
    | '{' :: rest =>
      match pNum rest 0 false with
      | none => none
      | some (n, rest1) =>
        match rest1 with
        | '}' :: rest2 => let (g, rest2) := lazyMark rest2; pQuant fuel (.rep r n (some n) g) rest2
        | ',' :: '}' :: rest2 => let (g, rest2) := lazyMark rest2; pQuant fuel (.rep r n none g) rest2
        | ',' :: rest2 =>
          match pNum rest2 0 false with
          | none => none
          | some (m, rest3) =>
            match rest3 with
            | '}' :: rest4 =>
              if n ≤ m then let (g, rest4) := lazyMark rest4; pQuant fuel (.rep r n (some m) g) rest4 else none
            | _ => none
        | _ => none
    | _ => some (r, inp)

/-- `(?P<name>` / `(?<name>`: the name up to `>`. -/
def pName : Str → Str → Option (Str × Str)
  | [], _ => none
  | '>' :: rest, acc => some (acc.reverse, rest)
  | c :: rest, acc => pName rest (c :: acc)

def isAtomStart (c : Char) : Bool := !(c = '|' || c = ')' )

mutual
def pAlt : Nat → Str → Option (Rx × Str)
  | 0, _ => none
  | fuel + 1, inp =>
    match pSeq fuel inp with
    | none => none
    | some (r, rest) =>
      match rest with
      | '|' :: rest' =>
        match pAlt fuel rest' with
        | none => none
        | some (r2, rest2) => some (.alt r r2, rest2)
      | _ => some (r, rest)
def pSeq : Nat → Str → Option (Rx × Str)
  | 0, _ => none
  | fuel + 1, inp =>
    match inp with
    | [] => some (.eps, [])
    | '|' :: _ => some (.eps, inp)
    | ')' :: _ => some (.eps, inp)
    | _ =>
      match pAtom fuel inp with
      | none => none
      | some (a, rest) =>
        match pQuant (rest.length + 1) a rest with
        | none => none
        | some (q, rest1) =>
          match pSeq fuel rest1 with
          | none => none
          | some (r, rest2) => some (.cat q r, rest2)
def pAtom : Nat → Str → Option (Rx × Str)
  | 0, _ => none
  | fuel + 1, inp =>
    match inp with
    | [] => none
    | '(' :: '?' :: ':' :: rest => close fuel none false rest
    | '(' :: '?' :: 'P' :: '<' :: rest =>
      match pName rest [] with
      | some (n, rest') => if validGroupName n then close fuel (some n) true rest' else none
      | none => none
    | '(' :: '?' :: '<' :: rest =>
      match pName rest [] with
      | some (n, rest') => if validGroupName n then close fuel (some n) true rest' else none
      | none => none
    | '(' :: '?' :: _ => none                 -- flags, look-around: outside the fragment / unsupported by the crate
    | '(' :: rest => close fuel none true rest
    | '[' :: rest => pCls rest
    | '.' :: rest => some (Rx.any, rest)
    | '^' :: rest => some (.bol, rest)
    | '$' :: rest => some (.eol, rest)
    | '\\' :: d :: rest =>
      match perlClass d with
      | some (neg, rs) => some (.cls neg rs, rest)
      | none =>
        if d = 'n' then some (.chr '\n', rest) else if d = 't' then some (.chr '\t', rest)
        else if d = 'r' then some (.chr '\r', rest)
        else if isAlphanumeric d then none else some (.chr d, rest)
    | '\\' :: [] => none
    | c :: rest =>
      if c = '*' || c = '+' || c = '?' || c = '{' || c = ')' || c = '|' then none
      else some (.chr c, rest)
def close (fuel : Nat) (name : Option Str) (capturing : Bool) (rest : Str) : Option (Rx × Str) :=
  match fuel with
  | 0 => none
  | fuel + 1 =>
    match pAlt fuel rest with
    | some (r, ')' :: rest') => some (if capturing then .grp name r else r, rest')
    | _ => none
end

/-- Names of the named groups, in order of their opening parenthesis. -/
def Rx.groupNames : Rx → List Str
  | .cat a b => a.groupNames ++ b.groupNames
  | .alt a b => a.groupNames ++ b.groupNames
  | .rep a _ _ _ => a.groupNames
  | .grp (some n) a => n :: a.groupNames
  | .grp none a => a.groupNames
  | _ => []

def nodup : List Str → Bool
  | [] => true
  | x :: xs => !xs.contains x && nodup xs

/-- `Regex::new(p)`; `none` = error. -/
def parseRx (p : Str) : Option Rx :=
  match pAlt (4 * p.length + 8) p with
  | some (r, []) => if nodup r.groupNames then some r else none
  | _ => none

/-! ### Matcher -/

def lowerAscii (c : Char) : Char := if 'A' ≤ c ∧ c ≤ 'Z' then Char.ofNat (c.toNat + 32) else c
def flipAscii (c : Char) : Char :=
  if 'a' ≤ c ∧ c ≤ 'z' then Char.ofNat (c.toNat - 32)
  else if 'A' ≤ c ∧ c ≤ 'Z' then Char.ofNat (c.toNat + 32) else c

def inRange (c : Char) (r : Char × Char) : Bool := decide (r.1 ≤ c) && decide (c ≤ r.2)

def clsMem (ic neg : Bool) (rs : List (Char × Char)) (c : Char) : Bool :=
  (rs.any (inRange c) || (ic && rs.any (inRange (flipAscii c)))) != neg

abbrev Caps := List (Str × Str)

def setCap (caps : Caps) (n v : Str) : Caps := (n, v) :: caps.filter (fun p => p.1 != n)

/-- Backtracking matcher.  `n0` = length of the whole haystack (for `^`), `inp` = the rest of the haystack,
`k` = continuation; the first success in priority order is returned (leftmost-first). -/
def exec (ic : Bool) (n0 : Nat) : Nat → Rx → Str → Caps → (Str → Caps → Option Caps) → Option Caps
  | 0, _, _, _, _ => none
  | fuel + 1, r, inp, caps, k =>
    match r with
    | .eps => k inp caps
    | .chr c =>
      match inp with
      | d :: rest => if d = c || (ic && lowerAscii d = lowerAscii c) then k rest caps else none
      | [] => none
    | .cls neg rs =>
      match inp with
      | d :: rest => if clsMem ic neg rs d then k rest caps else none
      | [] => none
    | .cat a b => exec ic n0 fuel a inp caps (fun inp' caps' => exec ic n0 fuel b inp' caps' k)
    | .alt a b =>
      match exec ic n0 fuel a inp caps k with
      | some c => some c
      | none => exec ic n0 fuel b inp caps k
    | .grp name a =>
      exec ic n0 fuel a inp caps (fun inp' caps' =>
        match name with
        | some n => k inp' (setCap caps' n (inp.take (inp.length - inp'.length)))
        | none => k inp' caps')
    | .bol => if inp.length = n0 then k inp caps else none
    | .eol => if inp.isEmpty then k inp caps else none
    | .rep a min max greedy =>
      if min > 0 then
        exec ic n0 fuel a inp caps (fun inp' caps' => exec ic n0 fuel (.rep a (min - 1) (max.map (· - 1)) greedy) inp' caps' k)
      else if max = some 0 then k inp caps
      else
        let iter := exec ic n0 fuel a inp caps (fun inp' caps' =>
          if inp'.length < inp.length then exec ic n0 fuel (.rep a 0 (max.map (· - 1)) greedy) inp' caps' k else none)
        if greedy then
          match iter with
          | some c => some c
          | none => k inp caps
        else
          match k inp caps with
          | some c => some c
          | none => iter

def fuelFor (s : Str) : Nat := 100000 + 1000 * s.length

/-- Try every start position (leftmost first). -/
def searchFrom (ic : Bool) (r : Rx) (n0 : Nat) : Nat → Str → Option Caps
  | 0, _ => none
  | f + 1, inp =>
    match exec ic n0 (fuelFor inp) r inp [] (fun _ caps => some caps) with
    | some c => some c
    | none =>
      match inp with
      | [] => none
      | _ :: rest => searchFrom ic r n0 f rest

/-- `RegexBuilder::new(p).case_insensitive(ic).build()` then `captures(s)`: `none` when the pattern does not compile
or there is no match; else the named groups that participated. -/
def captures (ic : Bool) (p s : Str) : Option Caps :=
  match parseRx p with
  | none => none
  | some r => searchFrom ic r s.length (s.length + 1) s

/-- `… .is_match(s)` (false when the pattern does not compile). -/
def isMatch (ic : Bool) (p s : Str) : Bool := (captures ic p s).isSome

def compiles (p : Str) : Bool := (parseRx p).isSome

end Rio.Marker.Engine
