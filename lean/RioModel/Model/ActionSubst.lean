/-
`Action::from_route_rule` WITH marker / variable substitution (src/action/mod.rs:206–354).

Model/Action.lean takes targets and filter values as already substituted strings.  Here the substitution
`StaticOrDynamic::replace(template, &variables)` is a parameter `σ : String → String` (one function per rule: its
`variables` come from its own captured markers), applied at exactly the three call sites of the code:
  * the target        — `if !target.is_empty() { value = replace(target.clone(), &variables) … }`  (the emptiness test
                         is on the TEMPLATE, before substitution);
  * header filters    — `value: replace(filter.value.clone(), &variables)`;
  * body filters      — HTML: `value: replace(value)`, `inner_value: Some(replace(inner_value.unwrap_or(value)))`;
                         text: `content: replace(content)`.
Everything else is `fromRouteRule` verbatim.  Props/C05c.lean relates the two and instantiates `σ` with W9's model of
`StaticOrDynamic::replace` (Model/Marker.lean `replaceVars` over `sortVars vars`).
-/
import RioModel.Model.Action

namespace Rio.Action

/-- Body filter with substitution (`inner_value` defaults to `value` BEFORE substitution). -/
def bodyFilterOfRuleS (σ : String → String) (f : BodyFilter) : BodyFilter :=
  match f with
  | .html h =>
    .html { h with value := σ h.value,
                   innerValue := some (σ (match h.innerValue with | some v => v | none => h.value)) }
  | .text t => .text { t with content := σ t.content }

/-- `Action::from_route_rule` with `σ` = `StaticOrDynamic::replace(·, &variables)`. -/
def fromRouteRuleS (σ : String → String) (r : Rule) (q : Req) (draw : Nat) : Option Action × Bool × Bool :=
  if sampledOut r.sampling q.samplingOverride draw then (none, false, false)
  else
    let onCodes : List Nat := match r.responseStatusCodes with | none => [] | some codes => codes
    let excl : Bool := r.excludeResponseStatusCodes.isSome
    let redirectCode : Nat := match r.statusCode with | none => 0 | some c => c
    let statusCodeUpdate : Option StatusCodeUpdate :=
      if redirectCode == 0 then none
      else some {
        statusCode := redirectCode, onResponseStatusCodes := onCodes,
        excludeResponseStatusCodes := excl, fallbackStatusCode := 0,
        ruleId := some r.id, fallbackRuleId := none,
        unitId := r.redirectUnitId, targetHash := some "status_code" }
    let location : List HeaderFilterAction :=
      match r.target with
      | none => []
      | some target =>
        if emptyTarget target then []
        else [{ filter := { action := "override", value := locationValue (σ target) q, header := "Location",
                            id := r.redirectUnitId, targetHash := r.targetHash },
                onResponseStatusCodes := onCodes, excludeResponseStatusCodes := excl,
                ruleId := some r.id }]
    let ruleHeaderFilters : List HeaderFilterAction :=
      match r.headerFilters with
      | none => []
      | some fs => fs.map fun f =>
          { filter := { f with value := σ f.value }, onResponseStatusCodes := onCodes,
            excludeResponseStatusCodes := excl, ruleId := some r.id }
    let ruleBodyFilters : List BodyFilterAction :=
      match r.bodyFilters with
      | none => []
      | some fs => fs.map fun f =>
          { filter := bodyFilterOfRuleS σ f, onResponseStatusCodes := onCodes,
            excludeResponseStatusCodes := excl, ruleId := some r.id }
    let action : Action := {
      statusCodeUpdate := statusCodeUpdate
      headerFilters := location ++ ruleHeaderFilters
      bodyFilters := ruleBodyFilters
      ruleIds := [r.id]
      ruleTraces := [{ id := r.id, onResponseStatusCodes := onCodes, excludeResponseStatusCodes := excl }]
      rulesApplied := []
      logOverride := r.logOverride.map fun lo =>
        { logOverride := lo, ruleId := some r.id, onResponseStatusCodes := onCodes,
          excludeResponseStatusCodes := excl, fallbackLogOverride := none, fallbackRuleId := none,
          unitId := r.configurationLogUnitId } }
    (some action, (match r.reset with | none => false | some b => b),
                  (match r.stop with | none => false | some b => b))

/-- The loop of `from_routes_rule` over rules with templates; `σ r` = the substitution of rule `r`. -/
def foldRoutesS (σ : Rule → String → String) (q : Req) (draw : Rule → Nat) : Action → List Rule → Action
  | action, [] => action
  | action, r :: rest =>
    match fromRouteRuleS (σ r) r q (draw r) with
    | (none, _, _) => foldRoutesS σ q draw action rest
    | (some actionRule, reset, stop) =>
      let action' := if reset then actionRule else action.merge actionRule
      if stop then action' else foldRoutesS σ q draw action' rest

/-- `Action::from_routes_rule` for rules with markers / variables. -/
def fromRoutesRuleS (σ : Rule → String → String) (routes : List Rule) (q : Req) (draw : Rule → Nat) : Action :=
  foldRoutesS σ q draw Action.empty (sortRules routes)

/-- The rule with every template replaced by its substitution (what Model/Action.lean takes as input). -/
def instantiate (σ : String → String) (r : Rule) : Rule :=
  { r with
    target := r.target.map σ
    headerFilters := r.headerFilters.map fun fs => fs.map fun f => { f with value := σ f.value }
    bodyFilters := r.bodyFilters.map fun fs => fs.map fun f =>
      match f with
      | .html h => .html { h with value := σ h.value, innerValue := h.innerValue.map σ }
      | .text t => .text { t with content := σ t.content } }

end Rio.Action
