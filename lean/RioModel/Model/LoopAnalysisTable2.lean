/-
Second correspondence instance of Model/LoopAnalysis.lean (W10; run by Drivers/C19.lean on the field `"an2"` of a case).

`LoopAnalysisTable` (field `"an"`) drives the test-examples / unit-ids glue with the redirect chain of every example
OBSERVED (only its error).  Here the table also carries, per example,

* its url and method, and the STEP TABLE of the redirect walker (the rows `[url, method, kind, status, location, ext]`
  the real Router + Action pipeline answers for every `(url, method)` on the orbit of the example, as W8's `tables`);
* what the explain / impact convention (`get_final_status_code_with_fallback(example status or 0, 200)`) answers for it
  (`core`: backend status, response, log decision, unit trace – one canonical JSON value);
* the canonical projection of `router.trace_request(&request)` (sorted ids of the routes in storage nodes) for the
  analysed router (`trace`) and, for impact, for the trace-unique router (`trace_t`);

and the model's OWN `testExamples` (walker = `Rio.Loop.compute` through `loopStep` / `loop`), `unitIds`, `explain` and
`computeImpacts` run on it.  An `Example` value is a table entry plus the `(url, method)` override that
`example.with_url(u).with_method(Some(m))` installs (`Ex.cur`): `Request::from_example` of the entry itself is the observed
`req`, of an overridden example it is the row of the step table for `(u, m)`.

Input  {"max_hops": n,
        "rules":   [{"id": s, "examples": null | [E..]}],          (final router; `router.routes()` in any order)
        "explain": [E..],                                           (one per probe, final router)
        "impact":  null | {"with_loop": b, "examples": null | [E..]}}   (the analysed rule's examples, impact router)
       E = {"url": s, "method": null | s, "expected": null | [unit id..], "must_match": b, "req": "ok" | {"err": msg},
            "test_rule_ids", "test_unit_ids", "unit_unit_ids", "core": json, "trace": [id..], "trace_t": [id..]   (when ok)
            "rows": [[url, method, "resp" | "req_err", status, location | null, ext]..]}
Output {"te": {"example_count", "failure_count", "error_count",
               "failures": [[rule id, [[idx, rule ids, unit ids, not applied any more, null | L]..]]..],
               "errors":   [[rule id, [[idx, message]..]]..]},
        "unit_ids": [[rule id, [[idx, null | [unit id..]]..]]..],       (sorted by rule id)
        "explain":  [{"error_message": s} | {"idx", "core", "trace", "loop": L}  per probe],
        "impact":   null | [{"idx", "error": s, "defaults": true} | {"idx", "core", "trace", "loop": null | L} ..]}
       L = {"hops": [[url, status, method]..], "error": null | "AtLeastOneHop" | "TooManyHops" | "Loop"}
-/
import Lean.Data.Json
import RioModel.Model.LoopAnalysis
import RioModel.Model.LoopAnalysisTable
open Lean

namespace Rio.Analysis.Table2
open Rio.Analysis Rio.Loop

/-- a table entry: an example together with what the real pipeline answered for it -/
structure TEx where
  idx : Nat
  url : String
  method : Option String
  expected : Option (List String)
  mustMatch : Bool
  reqErr : Option String
  testRuleIds : List String
  testUnitIds : List String
  unitUnitIds : List String
  core : Json
  traceS : List String
  traceT : List String
  rows : List Row

/-- an `Example` value: an entry, possibly after `with_url(u).with_method(Some(m))` -/
structure Ex where
  base : TEx
  cur : Option (String × String)

/-- the entry itself, as the analyses receive it -/
def TEx.ex (b : TEx) : Ex := ⟨b, none⟩

structure TRule where
  id : String
  examples : Option (List TEx)

/-- the project-domain test on a table of rows: `Rio.Loop.tableExt` -/
abbrev Dom := List Row

/-- the pipeline read from the table; a request is the example it was built from -/
def pipe : Pipe TRule Ex Unit Ex String String (List String × List String) Json String String Dom where
  ruleId r := r.id
  idLe a b := !(decide (b < a))
  examples r := r.examples.map fun l => l.map TEx.ex
  fromExample _ e :=
    match e.cur with
    | none => match e.base.reqErr with | some m => .error m | none => .ok e
    | some (u, m) => match tableStep e.base.rows u m with | .reqErr => .error "req_err" | .resp _ _ => .ok e
  expected e := e.base.expected
  mustMatch e := e.base.mustMatch
  setExpected e ids := { e with base := { e.base with expected := some ids } }
  url e := match e.cur with | none => e.base.url | some (u, _) => u
  method e := match e.cur with | none => e.base.method | some (_, m) => some m
  withUrlMethod e u m := { e with cur := some (u, m) }
  get := Rio.Consts.loopRewriteMethod
  evalTest _ q _ := (q.base.testRuleIds, q.base.testUnitIds)
  evalUnit _ q _ := ([], q.base.unitUnitIds)
  evalExplain _ q _ := q.base.core
  evalHop _ q _ :=
    match q.cur with
    | some (u, m) => match tableStep q.base.rows u m with | .resp s l => (s, l) | .reqErr => (0, none)
    | none => (0, none)
  ext dom u := tableExt dom u
  utRuleIds ut := ut.1
  utUnitIds ut := ut.2
  utDiff ut exp := Table.utDiff ut.2 exp

/-- the analysed router: `trace_request` answers the observed `trace` -/
def view (rules : List TRule) : View TRule Ex Unit (List String) :=
  { config := (), routes := rules, matchReq := fun _ => [], trace := fun q => q.base.traceS }

/-- impact's `trace_unique_router`: `trace_request` answers the observed `trace_t` -/
def viewT : View TRule Ex Unit (List String) :=
  { config := (), routes := [], matchReq := fun _ => [], trace := fun q => q.base.traceT }

/-- the rows of the examples of a list of entries / of a rule table: the `Dom` an analysis over them runs with -/
def rowsOf (l : List TEx) : Dom := l.flatMap (·.rows)
def rowsOfRules (rules : List TRule) : Dom := rules.flatMap fun r => rowsOf (r.examples.getD [])

/-- test-examples on the table: the MODEL's `testExamples`, walker included -/
def runTest (rules : List TRule) (maxHops : Nat) : TestOut TRule Ex String String String String :=
  testExamples pipe (view rules) maxHops (rowsOfRules rules)

/-- unit-ids on the table -/
def runUnit (rules : List TRule) : List (String × List Ex) := unitIds pipe (view rules)

/-- explain of one probe entry on the table (project domains = the rows of the entry) -/
def runExplain (rules : List TRule) (maxHops : Nat) (b : TEx) :
    Except String (ExplainOut Ex Json (List String) String String) :=
  explain pipe (view rules) maxHops b.rows b.ex

/-- the loop of `compute_impacts` on the table (`routes` is not read by it: the analysed router is `view []`) -/
def runImpact (examples : Option (List TEx)) (withLoop : Bool) (maxHops : Nat) :
    List (Impact Ex Json (List String) String String) :=
  computeImpacts pipe (view []) viewT (examples.map fun l => l.map TEx.ex) withLoop maxHops (rowsOf (examples.getD []))

/-! ### JSON -/

def parseRow (j : Json) : Except String Row := do
  let a ← (fromJson? j : Except String (Array Json))
  if a.size != 6 then throw "row: expected 6 fields"
  let url ← (fromJson? a[0]! : Except String String)
  let method ← (fromJson? a[1]! : Except String String)
  let kind ← (fromJson? a[2]! : Except String String)
  let status ← (fromJson? a[3]! : Except String Nat)
  let loc ← (match a[4]! with
    | .null => pure none
    | v => (fromJson? v : Except String String).map some)
  let ext ← (fromJson? a[5]! : Except String Bool)
  if kind == "req_err" then return ⟨url, method, .reqErr, ext⟩
  else if kind == "resp" then return ⟨url, method, .resp status loc, ext⟩
  else throw s!"row kind {kind}"

def optStrs (j : Json) (k : String) : Except String (Option (List String)) :=
  match j.getObjVal? k with
  | .ok .null => pure none
  | .error _ => pure none
  | .ok v => (fromJson? v : Except String (Array String)).map (fun a => some a.toList)

def parseEx (idx : Nat) (j : Json) : Except String TEx := do
  let url ← j.getObjValAs? String "url"
  let method ← match j.getObjVal? "method" with
    | .ok (.str s) => pure (some s)
    | _ => pure none
  let expected ← optStrs j "expected"
  let mustMatch ← j.getObjValAs? Bool "must_match"
  let reqErr ← match j.getObjVal? "req" with
    | .ok (.str "ok") => pure none
    | .ok v => (v.getObjValAs? String "err").map some
    | .error e => throw e
  let rows ← match j.getObjVal? "rows" with
    | .ok (.arr xs) => xs.toList.mapM parseRow
    | _ => throw "rows"
  return { idx, url, method, expected, mustMatch, reqErr,
           testRuleIds := ← Table.strList j "test_rule_ids", testUnitIds := ← Table.strList j "test_unit_ids",
           unitUnitIds := ← Table.strList j "unit_unit_ids",
           core := (j.getObjVal? "core").toOption.getD Json.null,
           traceS := ← Table.strList j "trace", traceT := ← Table.strList j "trace_t", rows }

def parseExs (xs : Array Json) : Except String (List TEx) := do
  let mut out := []
  let mut i := 0
  for x in xs do
    out := out ++ [← parseEx i x]
    i := i + 1
  pure out

def parseOptExs (j : Json) (k : String) : Except String (Option (List TEx)) :=
  match j.getObjVal? k with
  | .ok .null => pure none
  | .error _ => pure none
  | .ok (.arr xs) => (parseExs xs).map some
  | .ok _ => throw k

def parseRule (j : Json) : Except String TRule := do
  return { id := ← j.getObjValAs? String "id", examples := ← parseOptExs j "examples" }

/-- `ext` is a function of the target url: two rows with the same location agree on it (else the table is not one) -/
def domConsistent (d : Dom) : Bool :=
  d.all fun r => match r.out with
    | .resp _ (some l) => d.all fun r' => match r'.out with
      | .resp _ (some l') => !(l == l') || r.ext == r'.ext
      | _ => true
    | _ => true

/-- never a default value: every `(url, method)` a walk stood on is a row of the step table of its example -/
def covered (rows : List Row) (l : LoopOut String String) : Bool :=
  l.1.all fun h => rows.any fun r => r.url == h.url && r.method == h.method

def loopJson (rows : List Row) (l : LoopOut String String) : Except String Json :=
  if covered rows l then
    pure (Json.mkObj [
      ("hops", Json.arr (l.1.map fun h => Json.arr #[toJson h.url, toJson h.status, toJson h.method]).toArray),
      ("error", Table.errToJson l.2)])
  else throw "a walk left its step table"

def optLoopJson (rows : List Row) : Option (LoopOut String String) → Except String Json
  | none => pure Json.null
  | some l => loopJson rows l

def pairs (l : List (String × Json)) : Json := Json.arr (l.map fun (id, v) => Json.arr #[Json.str id, v]).toArray

def handle (an : Json) : Except String Json := do
  let maxHops ← an.getObjValAs? Nat "max_hops"
  let rules ← match an.getObjVal? "rules" with
    | .ok (.arr xs) => xs.toList.mapM parseRule
    | _ => throw "an2.rules"
  let probes ← match an.getObjVal? "explain" with
    | .ok (.arr xs) => parseExs xs
    | _ => throw "an2.explain"
  -- the hypotheses of the theorems of Props/C19c, checked on the table that is run
  if !(rules.map (·.id)).Nodup then throw "an2.rules: duplicate id"
  if !domConsistent (rowsOfRules rules) then throw "an2.rules: inconsistent ext"
  -- test-examples
  let out := runTest rules maxHops
  let failures : List (String × Json) ← out.firstTenFailures.mapM fun (id, _, fs) => do
    let items ← fs.mapM fun f => do
      let l ← optLoopJson f.ex.base.rows f.redirectionLoop
      pure (Json.arr #[toJson f.ex.base.idx, Table.strs f.ruleIdsApplied, Table.strs f.unitIdsApplied,
                       Table.strs f.unitIdsNotAppliedAnymore, l])
    pure (id, Json.arr items.toArray)
  let errors : List (String × Json) := out.firstTenErrors.map fun (id, _, es) =>
    (id, Json.arr (es.map fun (e, msg) => Json.arr #[toJson e.base.idx, Json.str msg]).toArray)
  let te := Json.mkObj [
    ("example_count", toJson out.exampleCount), ("failure_count", toJson out.failureCount),
    ("error_count", toJson out.errorCount), ("failures", pairs failures), ("errors", pairs errors)]
  -- unit-ids
  let units : List (String × Json) := (runUnit rules).map fun (id, exs) =>
    (id, Json.arr (exs.map fun e =>
      Json.arr #[toJson e.base.idx, match e.base.expected with | none => Json.null | some ids => Table.strs ids]).toArray)
  -- explain
  let explains ← probes.mapM fun b => do
    if !domConsistent b.rows then throw "an2.explain: inconsistent ext"
    match runExplain rules maxHops b with
    | .error msg => pure (Json.mkObj [("error_message", Json.str msg)])
    | .ok o =>
      let l ← optLoopJson o.ex.base.rows o.redirectionLoop
      pure (Json.mkObj [("idx", toJson o.ex.base.idx), ("core", o.core), ("trace", Table.strs o.matchTraces), ("loop", l)])
  -- impact
  let impact ← match an.getObjVal? "impact" with
    | .ok .null | .error _ => pure Json.null
    | .ok im => do
      let withLoop ← im.getObjValAs? Bool "with_loop"
      let exs ← parseOptExs im "examples"
      if !domConsistent (rowsOf (exs.getD [])) then throw "an2.impact: inconsistent ext"
      let items ← (runImpact exs withLoop maxHops).mapM fun
        | .err e msg => pure (Json.mkObj [("idx", toJson e.base.idx), ("error", Json.str msg), ("defaults", Json.bool true)])
        | .ok e core tr l => do
          let lj ← optLoopJson e.base.rows l
          pure (Json.mkObj [("idx", toJson e.base.idx), ("core", core), ("trace", Table.strs tr), ("loop", lj)])
      pure (Json.arr items.toArray)
  return Json.mkObj [("te", te), ("unit_ids", pairs (Table.sortPairs units)), ("explain", Json.arr explains.toArray),
                     ("impact", impact)]

end Rio.Analysis.Table2
