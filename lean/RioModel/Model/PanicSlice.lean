/-
Model of `src/marker/transformer/slice.rs` (`impl Transform for Slice`), before and after the repair
`fix: slice transformer returns an empty string instead of panicking on an invalid range` (D7).

A Rust `String` is a byte sequence `bs` with a set of char boundaries; the model takes the boundary
predicate `isB : Nat → Bool` as a parameter (theorems hold for every predicate; the driver instantiates it
with the UTF-8 rule "index = len, or the byte at index is not a continuation byte 10xxxxxx").

  str.get(a..b)  = Some(bytes a..b)  iff  a ≤ b ≤ len ∧ isB a ∧ isB b        (core::str::get)
  &str[a..b]     = the same bytes, and a PANIC when `get` is None             (core::str::index)
-/
namespace Rio.Slice

/-- `str.get(a..b)`. -/
def get? (bs : List Nat) (isB : Nat → Bool) (a b : Nat) : Option (List Nat) :=
  if a ≤ b ∧ b ≤ bs.length ∧ isB a = true ∧ isB b = true then some ((bs.drop a).take (b - a)) else none

inductive Outcome where
  | ok (out : List Nat)
  | panic
deriving DecidableEq, Repr

/-- The code before the repair: `str[from..to].to_string()`. -/
def transformOld (bs : List Nat) (isB : Nat → Bool) (from_ : Nat) (to : Option Nat) : Outcome :=
  let to0 := to.getD bs.length                       -- self.to.unwrap_or(str.len())
  if from_ > bs.length then .ok []                   -- if from > str.len() { return "" }
  else
    let to1 := if to0 > bs.length then bs.length else to0
    match get? bs isB from_ to1 with                 -- str[from..to]
    | some s => .ok s
    | none => .panic

/-- The repaired code: `str.get(from..to).unwrap_or_default().to_string()`. -/
def transform (bs : List Nat) (isB : Nat → Bool) (from_ : Nat) (to : Option Nat) : Outcome :=
  let to0 := to.getD bs.length
  if from_ > bs.length then .ok []
  else
    let to1 := if to0 > bs.length then bs.length else to0
    match get? bs isB from_ to1 with                 -- str.get(from..to).unwrap_or_default()
    | some s => .ok s
    | none => .ok []

/-- UTF-8 char boundary of a byte string (`str::is_char_boundary`). -/
def utf8Boundary (bs : List Nat) (i : Nat) : Bool :=
  i == 0 || i == bs.length || (match bs[i]? with
    | some b => !(128 ≤ b && b < 192)
    | none => false)

end Rio.Slice
