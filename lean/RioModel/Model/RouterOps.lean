/-
Router model, part 6: operation histories (property C02).

`Op.run` executes one operation of the history on the router model, `Op.live` is its effect on the
list of live rules (the specification), `Op.Valid` says that live ids stay unique (an inserted id is
not live at the moment of its insertion; ids inside one change-set are consistent).
`clone-then-mutate` needs no operation: states are values.  `cache n` runs `Router::cache`
(`RouterG.cache`): on the specification-level tower it changes nothing, on the tower over the real
tree model it sets compiled flags (property C12); it never changes the live rules.
-/
import RioModel.Model.RouterLayers

namespace Rio.Router

/-- the live list after inserting `rs` one by one -/
def insertAll (rs : List Route) (L : List Route) : List Route := rs.foldl (fun L r => r :: L) L

/-- every id is fresh at the moment it is inserted -/
def FreshAll : List Route → List Route → Prop
  | [], _ => True
  | r :: rs, L => r.id ∉ L.map (·.id) ∧ FreshAll rs (r :: L)

/-- the live list after `apply_change_set(added, updated, removed)`: the removed and the updated
ids leave, then the updated and the added routes enter -/
def liveChangeSet (added updated : List Route) (removed : List String) (L : List Route) : List Route :=
  insertAll added (insertAll updated
    (L.filter (fun r => !(removed ++ updated.map (·.id)).contains r.id)))

inductive Op where
  | insert (r : Route)
  | remove (id : String)
  | batchRemove (ids : List String)
  | changeSet (added updated : List Route) (removed : List String)
  | cache (limit : Option Nat)
deriving Repr, Inhabited

/-- one operation on the router (over any outermost matcher) -/
def Op.runG (O : MOps) : Op → RouterG O → RouterG O
  | .insert r, S => RouterG.insert O r S
  | .remove id, S => (RouterG.remove O id S).1
  | .batchRemove ids, S => RouterG.batchRemove O ids S
  | .changeSet a u d, S => RouterG.applyChangeSet O a u d S
  | .cache n, S => RouterG.cache O n S

def runOpsG (O : MOps) (h : List Op) (S : RouterG O) : RouterG O := h.foldl (fun S op => op.runG O S) S

section
variable (E : Env)

/-- one operation on the router -/
@[reducible] def Op.run (op : Op) (S : Router E) : Router E := Op.runG (towerOps E) op S

/-- `run h`: the router after the history `h` -/
@[reducible] def runOps (h : List Op) (S : Router E) : Router E := runOpsG (towerOps E) h S

end

/-- one operation on the live rule list -/
def Op.live : Op → List Route → List Route
  | .insert r, L => r :: L
  | .remove id, L => L.filter (fun r => r.id != id)
  | .batchRemove ids, L => L.filter (fun r => !ids.contains r.id)
  | .changeSet a u d, L => liveChangeSet a u d L
  | .cache _, L => L

/-- `live h`: the live rules after the history `h` -/
def liveOps (h : List Op) (L : List Route) : List Route := h.foldl (fun L op => op.live L) L

/-- the operation keeps live ids unique -/
def Op.Valid : Op → List Route → Prop
  | .insert r, L => r.id ∉ L.map (·.id)
  | .changeSet a u d, L =>
    FreshAll (u ++ a) (L.filter (fun r => !(d ++ u.map (·.id)).contains r.id))
  | _, _ => True

/-- every operation of the history keeps live ids unique -/
def ValidHistory : List Op → List Route → Prop
  | [], _ => True
  | op :: h, L => op.Valid L ∧ ValidHistory h (op.live L)

end Rio.Router
