/-
Model of the capture-regex cache (C12, capture clause): `LazyRegex` (`src/regex.rs`: `new_leaf`, `regex`,
`create_regex`, `compile`), `MarkerString::capture` / `compile`, `StaticOrDynamic::compile`, `Route::compile`
(`src/marker/mod.rs`, `src/router/route.rs`) and the tail loop of `Router::cache` (`src/router/mod.rs`).

A `MarkerString` holds its `LazyRegex` in an `Arc<RwLock<..>>`; `#[derive(Clone)]` copies the `Arc`, so clones of a
marker string (of a route, of a router) SHARE the cell.  The model makes the sharing explicit: a store of cells,
a marker string is a handle (`cell`), cloning copies the handle, `compile` writes the store.

The regex crate is a parameter: `build ic p` (`RegexBuilder::new(p).case_insensitive(ic).build()`, `none` = `Err`)
returns a value of an abstract type `R`; `captures` reads such a value.
-/
import RioModel.Model.MarkerRule

namespace Rio.MarkerCache
open Rio.Marker

structure RegexLib (R : Type) where
  build : Bool → Str → Option R
  /-- `Regex::captures(s)`: the named groups that participated; `none` = no match -/
  captures : R → Str → Option (List (Str × Str))

/-- `LazyRegex` -/
structure LazyRegex (R : Type) where
  original : Str
  regex : Str
  compiled : Option R
  ignoreCase : Bool

variable {R : Type}

/-- `LazyRegex::new_leaf` -/
def LazyRegex.newLeaf (p : Str) (ic : Bool) : LazyRegex R := ⟨p, ['^'] ++ p ++ ['$'], none, ic⟩

/-- `LazyRegex::create_regex` -/
def LazyRegex.createRegex (lib : RegexLib R) (r : LazyRegex R) : Option R := lib.build r.ignoreCase r.regex

/-- `LazyRegex::regex()` -/
def LazyRegex.regexOf (lib : RegexLib R) (r : LazyRegex R) : Option R :=
  match r.compiled with
  | some c => some c
  | none => r.createRegex lib

/-- `LazyRegex::compile`: a new value with the same `regex`, `original`, `ignore_case`. -/
def LazyRegex.compile (lib : RegexLib R) (r : LazyRegex R) : LazyRegex R :=
  { regex := r.regex, original := r.original, compiled := r.createRegex lib, ignoreCase := r.ignoreCase }

/-- `k` calls of `compile`. -/
def LazyRegex.compileN (lib : RegexLib R) : Nat → LazyRegex R → LazyRegex R
  | 0, r => r
  | k + 1, r => LazyRegex.compileN lib k (r.compile lib)

/-- The shared cells (`Arc<RwLock<LazyRegex>>`), by index. -/
abbrev Store (R : Type) := List (LazyRegex R)

/-- `MarkerString`: the two pattern strings and the handle of its capture cell. -/
structure MString where
  regex : Str
  capture : Str
  ignoreCase : Bool
  cell : Nat
deriving Repr, DecidableEq

/-- `MarkerString::capture`: read the cell, get (or build) the regex, run it.  (The `Err(_)` arms of `read()` —
a poisoned lock — are not modelled.) -/
def MString.captureOn (lib : RegexLib R) (st : Store R) (m : MString) (s : Str) : List (Str × Str) :=
  match st[m.cell]? with
  | none => []
  | some r =>
    match r.regexOf lib with
    | none => []
    | some c => (lib.captures c s).getD []

/-- `MarkerString::compile`: `*regex = regex.compile(); true`. -/
def MString.compile (lib : RegexLib R) (st : Store R) (m : MString) : Store R × Bool :=
  match st[m.cell]? with
  | none => (st, true)
  | some r => (st.set m.cell (r.compile lib), true)

inductive SoD where
  | static (s : Str)
  | dynamic (m : MString)
deriving Repr, DecidableEq

/-- `StaticOrDynamic::compile` -/
def SoD.compile (lib : RegexLib R) (st : Store R) : SoD → Store R × Bool
  | .static _ => (st, false)
  | .dynamic m => m.compile lib st

def SoD.captureOn (lib : RegexLib R) (st : Store R) : SoD → Str → List (Str × Str)
  | .static _, _ => []
  | .dynamic m, s => m.captureOn lib st s

/-- The marker-carrying parts of a `Route`. -/
structure Route where
  pathAndQuery : SoD
  host : Option SoD
  headers : List (Str × MString)
deriving Repr

/-- `Route::compile`: the number of capture regexes compiled (path, host; header triggers are not compiled). -/
def Route.compile (lib : RegexLib R) (st : Store R) (rt : Route) : Store R × Nat :=
  let (st1, b1) := rt.pathAndQuery.compile lib st
  let n1 := if b1 then 1 else 0
  match rt.host with
  | none => (st1, n1)
  | some h =>
    let (st2, b2) := h.compile lib st1
    (st2, if b2 then n1 + 1 else n1)

/-- The tail of `Router::cache`: `for route in routes { left -= route.compile(); if left <= 0 { break } }` (entered
with `left > 0`). -/
def compileRoutes (lib : RegexLib R) : Store R → List Route → Int → Store R
  | st, [], _ => st
  | st, rt :: rest, left =>
    let (st1, n) := rt.compile lib st
    if left - n ≤ 0 then st1 else compileRoutes lib st1 rest (left - n)

/-- Operations on the store, in any order and on any handle (clones included). -/
inductive Op where
  | compileString (m : MString)
  | compileSoD (x : SoD)
  | compileRoute (rt : Route)
  | cacheRoutes (rts : List Route) (left : Int)

def Op.run (lib : RegexLib R) (st : Store R) : Op → Store R
  | .compileString m => (m.compile lib st).1
  | .compileSoD x => (x.compile lib st).1
  | .compileRoute rt => (rt.compile lib st).1
  | .cacheRoutes rts left => compileRoutes lib st rts left

def runOps (lib : RegexLib R) (st : Store R) (ops : List Op) : Store R := ops.foldl (Op.run lib) st

/-- A cell is consistent when its cached regex, if any, is what `create_regex` builds from its fields. -/
def LazyRegex.Consistent (lib : RegexLib R) (r : LazyRegex R) : Prop :=
  r.compiled = none ∨ r.compiled = r.createRegex lib

def StoreOK (lib : RegexLib R) (st : Store R) : Prop := ∀ r ∈ st, r.Consistent lib

end Rio.MarkerCache
