/-
Model of the address collection of `Log::from_proxy` (`src/api/log.rs`): the `ips` field of a log line.

    if let Ok(addr) = client_ip.parse::<Addr>() { ips.push(addr.addr) }
    for header in &request.headers {
        if header.name.to_lowercase() == "x-forwarded-for" {
            for forwarded_ip in header.value.split(',') { if let Ok(addr) = forwarded_ip.parse::<Addr>() { ips.push(addr.addr) } }
        }
        if header.name.to_lowercase() == "forwarded" {
            for (name, val) in header.value.split(';').flat_map(|val| val.split(',')).flat_map(|pair| {
                let mut items = pair.trim().splitn(2, '=');  Some((items.next()?, items.next()?)) }) {
                if name.trim().to_lowercase().as_str() == "for" {
                    let ip = val.trim().trim_start_matches('"').trim_end_matches('"').to_string();
                    if let Ok(ip) = ip.parse::<Addr>() { ips.push(ip.addr) }
                }
            }
        }
    }

Like `addr.rs`, this code contains no index / slice / unwrap / arithmetic site: it is built from `split`, `splitn`, `trim`,
`trim_*_matches`, `to_lowercase`, which are total.  The model transcribes them on `List Char`; `lower` (Unicode `to_lowercase`)
is a parameter, `str::trim` uses the Unicode `White_Space` set.
-/
import RioModel.Model.AddrParse

namespace Rio.LogParse
open Rio.AddrParse

/-- Unicode `White_Space` (what `str::trim` removes) -/
def isWs (c : Char) : Bool :=
  let n := c.toNat
  (9 ≤ n && n ≤ 13) || n == 32 || n == 0x85 || n == 0xA0 || n == 0x1680 || (0x2000 ≤ n && n ≤ 0x200A) ||
    n == 0x2028 || n == 0x2029 || n == 0x202F || n == 0x205F || n == 0x3000

/-- `str::trim` -/
def trim (s : List Char) : List Char := trimChars isWs s

/-- `str::split(sep)`: n separators give n + 1 pieces, empty ones included -/
def splitOn (sep : Char) : List Char → List (List Char)
  | [] => [[]]
  | c :: rest =>
    if c = sep then [] :: splitOn sep rest
    else
      match splitOn sep rest with
      | [] => [[c]]
      | p :: ps => (c :: p) :: ps

/-- `splitn(2, sep)` followed by `Some((items.next()?, items.next()?))`: `none` when there is no separator -/
def splitFirst (sep : Char) : List Char → Option (List Char × List Char)
  | [] => none
  | c :: rest =>
    if c = sep then some ([], rest)
    else (splitFirst sep rest).map fun (a, b) => (c :: a, b)

/-- `.trim_start_matches('"').trim_end_matches('"')` -/
def stripQuotes (s : List Char) : List Char := trimChars (· == '"') s

section
variable (S : Std) (lower : List Char → List Char)

/-- one `x-forwarded-for` value -/
def xff (value : List Char) : List String :=
  (splitOn ',' value).filterMap fun piece => (parseAddr S piece).ip?

/-- one element of a `forwarded` value (between `;` / `,`) -/
def forwardedPair (pair : List Char) : Option String :=
  match splitFirst '=' (trim pair) with
  | none => none
  | some (name, val) =>
    if lower (trim name) = "for".toList then (parseAddr S (stripQuotes (trim val))).ip? else none

/-- one `forwarded` value -/
def forwardedFor (value : List Char) : List String :=
  ((splitOn ';' value).flatMap (splitOn ',')).filterMap (forwardedPair S lower)

/-- what one request header contributes -/
def headerIps (h : List Char × List Char) : List String :=
  (if lower h.1 = "x-forwarded-for".toList then xff S h.2 else []) ++
    (if lower h.1 = "forwarded".toList then forwardedFor S lower h.2 else [])

/-- the `ips` of `Log::from_proxy` -/
def ips (clientIp : List Char) (headers : List (List Char × List Char)) : List String :=
  (parseAddr S clientIp).ip?.toList ++ headers.flatMap (headerIps S lower)

end

/-- number of `sep` in a string -/
def countSep (sep : Char) (s : List Char) : Nat := (s.filter (· == sep)).length

end Rio.LogParse
