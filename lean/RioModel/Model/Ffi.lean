/-
Ownership / layout bookkeeping of the `extern "C"` surface (C18).

Sources: `src/filter/buffer.rs` (after the repairs D10 `to_vec` copies, D15 `from_vec` shrinks to a boxed slice
of exactly `len` bytes), `src/ffi_helpers.rs` (`string_to_c_char` = `CString::into_raw`), `src/action/ffi.rs`,
`src/http/ffi.rs`, `src/api/ffi.rs` (`Box::into_raw` / `Box::from_raw` pairs, header lists with one boxed node
and two C strings per header, the trusted-proxies configuration that is never released).

* `Heap` is an abstract allocator: allocation id ↦ (kind, size, live).  `dealloc` records a `Fault` instead of
  failing: double free, unknown pointer, size of the deallocation ≠ size of the allocation; `use` records a
  use-after-free.  This is exactly what the auditing global allocator of harness `c18` observes.
* Library primitives (`fromVec`, `intoVecDrop`, `toVec`, `cstrNew`, `boxNew`, `headerList`, …) are transcribed
  from the Rust functions in terms of heap operations, with capacity and length where the code depends on them.
* `Call` is one step of a C caller; `step` executes it on `State` (= heap + the caller's slots) following the
  entry point's code, on whatever the slot holds (a released handle is a dangling pointer: using it produces
  the faults the allocator would see).  `pre` is the CALLER PROTOCOL of the call: the slots it names exist, have
  the type the entry point expects and have not been released / consumed.  What the library computes *inside* an object (JSON, filtering) is
  not modelled: the results the library computes (lengths of strings, produced bytes, NULL or not) are
  arguments of the call — the theorems hold for all of them, the correspondence supplies the observed ones.
-/
namespace Rio.Ffi

inductive Kind where
  | bytes | cstr | action | filter | request | hnode | tproxies | tconfig
deriving DecidableEq, Repr, Inhabited

structure Cell where
  kind : Kind
  size : Nat
  live : Bool
deriving DecidableEq, Repr

inductive Fault where
  | doubleFree (id : Nat)
  | unknownPtr (id : Nat)
  | sizeMismatch (id alloc dealloc : Nat)
  | useAfterFree (id : Nat)
  | badHandle (slot : Nat)          -- a handle that does not exist / of another type was passed (type confusion)
deriving DecidableEq, Repr

structure Heap where
  cells : List Cell := []
  faults : List Fault := []
deriving Repr

namespace Heap

/-- `alloc(Layout { size, .. })`: a fresh id. -/
def alloc (h : Heap) (k : Kind) (size : Nat) : Heap × Nat :=
  ({ h with cells := h.cells ++ [⟨k, size, true⟩] }, h.cells.length)

def kill : List Cell → Nat → List Cell
  | [], _ => []
  | c :: cs, 0 => { c with live := false } :: cs
  | c :: cs, n + 1 => c :: kill cs n

/-- `dealloc(ptr, Layout { size, .. })`. -/
def dealloc (h : Heap) (id size : Nat) : Heap :=
  match h.cells[id]? with
  | none => { h with faults := h.faults ++ [.unknownPtr id] }
  | some c =>
    if c.live = false then { h with faults := h.faults ++ [.doubleFree id] }
    else if c.size = size then { h with cells := kill h.cells id }
    else { cells := kill h.cells id, faults := h.faults ++ [.sizeMismatch id c.size size] }

/-- a read or write through the pointer. -/
def use (h : Heap) (id : Nat) : Heap :=
  match h.cells[id]? with
  | none => { h with faults := h.faults ++ [.unknownPtr id] }
  | some c => if c.live = true then h else { h with faults := h.faults ++ [.useAfterFree id] }

/-- `(id, size, kind)` of the live allocations from index `i` on. -/
def liveFrom : Nat → List Cell → List (Nat × Nat × Kind)
  | _, [] => []
  | i, c :: cs => (if c.live then [(i, c.size, c.kind)] else []) ++ liveFrom (i + 1) cs

/-- The live allocations: what a leak check at this point would report. -/
def liveList (h : Heap) : List (Nat × Nat × Kind) := liveFrom 0 h.cells

end Heap

/-! ### Library primitives -/

section
variable (sz : Kind → Nat)   -- size_of::<Action>() etc.; the theorems hold for every assignment

/-- A `Vec<u8>` the library holds: its allocation (none when capacity 0), capacity, content. -/
structure VecU8 where
  id : Option Nat
  cap : Nat
  bytes : List Nat
deriving Repr

/-- `Vec::with_capacity(cap)` filled with `bytes` (cap is raised to the length). -/
def vecNew (h : Heap) (bytes : List Nat) (cap : Nat) : Heap × VecU8 :=
  let c := max cap bytes.length
  if c = 0 then (h, ⟨none, 0, bytes⟩)
  else
    let (h, id) := h.alloc .bytes c
    (h, ⟨some id, c, bytes⟩)

/-- dropping a `Vec<u8>`: `dealloc(ptr, capacity)`. -/
def vecDrop (h : Heap) (v : VecU8) : Heap :=
  match v.id with
  | none => h
  | some id => h.dealloc id v.cap

/-- `#[repr(C)] struct Buffer { data, len }`: `id = none` is the null pointer. -/
structure Buffer where
  id : Option Nat
  bytes : List Nat
deriving Repr, DecidableEq

/-- `Buffer::from_vec` (repaired): empty ⇒ default (the Vec is dropped); otherwise
`Box::into_raw(vec.into_boxed_slice())` — `into_boxed_slice` reallocates to exactly `len` when capacity ≠ len. -/
def fromVec (h : Heap) (v : VecU8) : Heap × Buffer :=
  if v.bytes = [] then (vecDrop h v, ⟨none, []⟩)
  else
    match v.id with
    | none => (h, ⟨none, []⟩)                       -- unreachable: a non-empty Vec has an allocation
    | some id =>
      if v.cap = v.bytes.length then (h, ⟨some id, v.bytes⟩)
      else
        -- realloc(ptr, Layout(cap), len): the old block is given back with its own size
        let h := h.dealloc id v.cap
        let (h, id') := h.alloc .bytes v.bytes.length
        (h, ⟨some id', v.bytes⟩)

/-- `Buffer::from_vec` BEFORE the repair D15: `mem::forget(vec)` keeping capacity. -/
def fromVecOld (h : Heap) (v : VecU8) : Heap × Buffer :=
  if v.bytes = [] then (vecDrop h v, ⟨none, []⟩) else (h, ⟨v.id, v.bytes⟩)

/-- `Buffer::into_vec`: null or empty ⇒ `Vec::new()`; otherwise the boxed slice of `len` bytes becomes a Vec of
capacity `len` over the same allocation. -/
def intoVec (b : Buffer) : VecU8 :=
  match b.id with
  | none => ⟨none, 0, []⟩
  | some id => if b.bytes = [] then ⟨none, 0, []⟩ else ⟨some id, b.bytes.length, b.bytes⟩

/-- `Buffer::to_vec` (repaired D10): reads `len` bytes and copies them into a Vec of capacity `len`. -/
def toVec (h : Heap) (b : Buffer) : Heap × VecU8 :=
  match b.id with
  | none => (h, ⟨none, 0, []⟩)
  | some id =>
    if b.bytes = [] then (h, ⟨none, 0, []⟩)
    else vecNew (h.use id) b.bytes b.bytes.length

/-- `Buffer::duplicate` = `from_vec(to_vec())`. -/
def duplicate (h : Heap) (b : Buffer) : Heap × Buffer :=
  let (h, v) := toVec h b
  fromVec h v

/-- `string_to_c_char(s)`: `CString::new(s).into_raw()` — `len + 1` bytes. -/
def cstrNew (h : Heap) (len : Nat) : Heap × Nat := h.alloc .cstr (len + 1)

/-- the caller gives a C string back (`CString::from_raw`: strlen + 1 bytes). -/
def cstrFree (h : Heap) (id len : Nat) : Heap := h.dealloc id (len + 1)

/-- `Box::into_raw(Box::new(x))`. -/
def boxNew (h : Heap) (k : Kind) : Heap × Nat := h.alloc k (sz k)

/-- `drop(Box::from_raw(p))`. -/
def boxDrop (h : Heap) (k : Kind) (id : Nat) : Heap := h.dealloc id (sz k)

/-- one node of a header list the library hands out: (node, name, value); a string is `(allocation, length)` or
`none` = a NULL pointer (`string_to_c_char` returns NULL when the Rust string contains a NUL byte). -/
abbrev HNode := Nat × Option (Nat × Nat) × Option (Nat × Nat)

/-- `string_to_c_char(s)`: `none` (the string has an interior NUL) ⇒ NULL, nothing allocated. -/
def cstrOpt (h : Heap) : Option Nat → Heap × Option (Nat × Nat)
  | none => (h, none)
  | some len =>
    let (h, id) := cstrNew h len
    (h, some (id, len))

/-- the caller frees a string of a node (NULL: nothing to free). -/
def cstrOptFree (h : Heap) : Option (Nat × Nat) → Heap
  | none => h
  | some (id, len) => cstrFree h id len

/-- `http_headers_to_header_map`: per header two C strings (each possibly NULL) and a boxed node; the list comes out
reversed.  The argument gives, per header in Rust order, the lengths of name and value (`none` = contains NUL). -/
def headerList (h : Heap) : List (Option Nat × Option Nat) → List HNode → Heap × List HNode
  | [], acc => (h, acc)
  | (nl, vl) :: rest, acc =>
    let (h, n) := cstrOpt h nl
    let (h, v) := cstrOpt h vl
    let (h, node) := boxNew sz h .hnode
    headerList h rest ((node, n, v) :: acc)

/-- the caller releases such a list: each node and its (non-NULL) strings. -/
def headerListFree (h : Heap) : List HNode → Heap
  | [] => h
  | (node, n, v) :: rest =>
    let h := (h.use node)
    let h := cstrOptFree h n
    let h := cstrOptFree h v
    headerListFree (boxDrop sz h .hnode node) rest

/-! ### The caller's view -/

inductive Handle where
  | buffer (b : Buffer)
  | cstr (id : Option Nat) (len : Nat)                 -- none = the function returned NULL
  | obj (k : Kind) (id : Option Nat)                   -- action / filter / request; none = NULL
  | hlist (nodes : List HNode)
  | tproxies (outer inner : Nat)
  /-- a pointer the library gave back that is the CALLER'S OWN object (`header_filter_filter(NULL action, list)` returns
  `list`): nothing to own, and releasing it "as a returned list" frees the caller's input — a fault -/
  | alias
deriving Repr

structure Slot where
  h : Handle
  released : Bool := false
deriving Repr

structure State where
  heap : Heap := {}
  slots : List Slot := []
deriving Repr

inductive Call where
  | bufNew (bytes : List Nat) (cap : Nat)      -- a buffer the caller owns (as `Buffer::from_vec` hands them out)
  | bufDup (s : Nat)                           -- `Buffer::duplicate`
  | bufRead (s : Nat)                          -- `Buffer::to_vec` (borrow)
  | bufDrop (s : Nat)                          -- `redirectionio_api_buffer_drop`
  | filterNull (s : Nat)                       -- `redirectionio_action_body_filter_filter(NULL, buf)`: duplicate, input stays
  | objNew (k : Kind) (ok : Bool)              -- `…_json_deserialize`, `request_create`, `request_from_str`; ok = non-NULL
  | objUse (k : Kind) (s : Nat)                -- `get_status_code`, `should_log_request`, `set_remote_addr`, … (borrow)
  | objSer (k : Kind) (s : Nat) (len : Nat)    -- `…_json_serialize`: a C string of `len` bytes (NULL for a NULL object)
  | objDrop (k : Kind) (s : Nat)               -- `redirectionio_action_drop`, `…_request_drop`, `…_body_filter_drop`
  | strNew (len : Nat)                         -- `api_get_rule_api_version`
  | logJson (r : Nat) (a : Option Nat) (len : Nat)  -- `api_create_log_in_json(request r, …, action a or NULL, …)`
  | strFree (s : Nat)                          -- the caller frees a returned C string
  | headers (a : Nat) (out : List (Option Nat × Option Nat)) -- `action_header_filter_filter(action a, caller's list, …)`
  | hmapNew (out : List (Option Nat × Option Nat)) -- `http_headers_to_header_map(headers)` called directly (pub fn)
  | hlistFree (s : Nat)                        -- the caller frees a returned header list
  | filterNew (a : Nat) (ok : Bool)            -- `action_body_filter_create`
  | filterFeed (f b : Nat) (out : List Nat)    -- `action_body_filter_filter(filter, buf)`: consumes buf (filter ≠ NULL); `out` = what the filter produced
  | filterClose (f : Nat) (out : List Nat)     -- `action_body_filter_close`: consumes the filter
  | tpNew                                      -- `trusted_proxies_create`: never released
  | tpUse (s : Nat)                            -- `trusted_proxies_add_proxy` / passing it to `set_remote_addr`
deriving Repr

def State.push (st : State) (h : Handle) : State := { st with slots := st.slots ++ [⟨h, false⟩] }

def releaseAt : List Slot → Nat → List Slot
  | [], _ => []
  | sl :: rest, 0 => { sl with released := true } :: rest
  | sl :: rest, n + 1 => sl :: releaseAt rest n

def State.release (st : State) (s : Nat) : State := { st with slots := releaseAt st.slots s }

/-- a call on a slot that does not exist or holds a handle of another type: type confusion -/
def State.bad (st : State) (s : Nat) : State :=
  { st with heap := { st.heap with faults := st.heap.faults ++ [.badHandle s] } }

/-- the handle in a slot — whether or not the caller already released it (a released handle is a dangling pointer
the caller can still pass) -/
def State.get (st : State) (s : Nat) : Option Handle := (st.slots[s]?).map (·.h)

/-- The CALLER PROTOCOL: the slot exists, holds a handle of the type the entry point expects, and has not been
released (dropped, closed, or consumed by `body_filter_filter`). -/
def State.holds (st : State) (s : Nat) (p : Handle → Bool) : Bool :=
  match st.slots[s]? with
  | some sl => !sl.released && p sl.h
  | none => false

def isBuffer : Handle → Bool | .buffer _ => true | _ => false
def isCstr : Handle → Bool | .cstr _ _ => true | _ => false
def isObj (k : Kind) : Handle → Bool | .obj k' _ => k' == k | _ => false
def isHlist : Handle → Bool | .hlist _ => true | _ => false
def isTproxies : Handle → Bool | .tproxies _ _ => true | _ => false

def pre (st : State) : Call → Bool
  | .bufNew _ _ => true
  | .bufDup s | .bufRead s | .bufDrop s | .filterNull s => st.holds s isBuffer
  | .objNew _ _ => true
  | .objUse k s | .objSer k s _ | .objDrop k s => st.holds s (isObj k)
  | .strNew _ => true
  | .logJson r a _ => st.holds r (isObj .request) && (match a with | none => true | some a => st.holds a (isObj .action))
  | .strFree s => st.holds s isCstr
  | .headers a _ => st.holds a (isObj .action)
  | .hlistFree s => st.holds s isHlist
  | .hmapNew _ => true
  | .filterNew a _ => st.holds a (isObj .action)
  | .filterFeed f b _ => st.holds f (isObj .filter) && st.holds b isBuffer
  | .filterClose f _ => st.holds f (isObj .filter)
  | .tpNew => true
  | .tpUse s => st.holds s isTproxies

/-- One call, following the code of the entry point — on whatever the slot holds, released or not: a caller
that breaks the protocol gets the faults the real allocator would see. -/
def step (st : State) : Call → State
  | .bufNew bytes cap =>
    let (h, v) := vecNew st.heap bytes cap
    let (h, b) := fromVec h v
    { st with heap := h }.push (.buffer b)
  | .bufDup s =>
    match st.get s with
    | some (.buffer b) =>
      let (h, b') := duplicate st.heap b
      { st with heap := h }.push (.buffer b')
    | _ => st.bad s
  | .bufRead s =>
    match st.get s with
    | some (.buffer b) =>
      let (h, v) := toVec st.heap b
      { st with heap := vecDrop h v }
    | _ => st.bad s
  | .bufDrop s =>
    match st.get s with
    | some (.buffer b) => ({ st with heap := vecDrop st.heap (intoVec b) }).release s   -- buffer.into_vec(); dropped
    | _ => st.bad s
  | .filterNull s =>
    match st.get s with
    | some (.buffer b) =>
      let (h, b') := duplicate st.heap b                     -- if _filter.is_null() { return buffer.duplicate(); }
      { st with heap := h }.push (.buffer b')
    | _ => st.bad s
  | .objNew k ok =>
    if ok then
      let (h, id) := boxNew sz st.heap k
      { st with heap := h }.push (.obj k (some id))
    else st.push (.obj k none)
  | .objUse k s =>
    match st.get s with
    | some (.obj k' id) =>
      if k' != k then st.bad s
      else match id with
        | none => st                                         -- null check, early return
        | some id => { st with heap := st.heap.use id }
    | _ => st.bad s
  | .objSer k s len =>
    match st.get s with
    | some (.obj k' id) =>
      if k' != k then st.bad s
      else match id with
        | none => st.push (.cstr none 0)
        | some id =>
          let (h, c) := cstrNew (st.heap.use id) len
          { st with heap := h }.push (.cstr (some c) len)
    | _ => st.bad s
  | .objDrop k s =>
    match st.get s with
    | some (.obj k' id) =>
      if k' != k then st.bad s
      else match id with
        | none => st.release s                               -- if p.is_null() { return }
        | some id => ({ st with heap := boxDrop sz st.heap k id }).release s
    | _ => st.bad s
  | .strNew len =>
    let (h, c) := cstrNew st.heap len
    { st with heap := h }.push (.cstr (some c) len)
  | .logJson r a len =>
    match st.get r with
    | some (.obj .request rid) =>
      match rid with
      | none => st.push (.cstr none 0)                       -- if _request.is_null() { return null() }
      | some rid =>
        let h := st.heap.use rid
        match a with
        | none =>
          let (h, c) := cstrNew h len
          { st with heap := h }.push (.cstr (some c) len)
        | some a =>
          match st.get a with
          | some (.obj .action aid) =>
            let h := match aid with
              | none => h
              | some aid => h.use aid
            let (h, c) := cstrNew h len
            { st with heap := h }.push (.cstr (some c) len)
          | _ => st.bad a
    | _ => st.bad r
  | .strFree s =>
    match st.get s with
    | some (.cstr id len) =>
      match id with
      | none => st.release s
      | some id => ({ st with heap := cstrFree st.heap id len }).release s
    | _ => st.bad s
  | .headers a out =>
    match st.get a with
    | some (.obj .action id) =>
      match id with
      | none => st.push .alias                               -- `return header_map;`: the caller's own list, not a new one
      | some id =>
        let (h, nodes) := headerList sz (st.heap.use id) out []
        { st with heap := h }.push (.hlist nodes)
    | _ => st.bad a
  | .hmapNew out =>
    let (h, nodes) := headerList sz st.heap out []
    { st with heap := h }.push (.hlist nodes)
  | .hlistFree s =>
    match st.get s with
    | some (.hlist nodes) => ({ st with heap := headerListFree sz st.heap nodes }).release s
    | _ => st.bad s
  | .filterNew a ok =>
    match st.get a with
    | some (.obj .action id) =>
      match id with
      | none => st.push (.obj .filter none)
      | some id =>
        let h := st.heap.use id
        if ok then
          let (h, f) := boxNew sz h .filter
          { st with heap := h }.push (.obj .filter (some f))
        else { st with heap := h }.push (.obj .filter none)
    | _ => st.bad a
  | .filterFeed f b out =>
    match st.get f, st.get b with
    | some (.obj .filter fid), some (.buffer buf) =>
      match fid with
      | none =>
        let (h, b') := duplicate st.heap buf
        { st with heap := h }.push (.buffer b')
      | some fid =>
        -- let bytes = buffer.into_vec(); let new_body = filter.filter(bytes, None); Buffer::from_vec(new_body)
        let h := vecDrop (st.heap.use fid) (intoVec buf)
        let (h, v) := vecNew h out out.length        -- capacity of the filter's Vec is not modelled (see fromVec)
        let (h, ob) := fromVec h v
        (({ st with heap := h }).release b).push (.buffer ob)
    | _, _ => st.bad f
  | .filterClose f out =>
    match st.get f with
    | some (.obj .filter fid) =>
      match fid with
      | none => (st.release f).push (.buffer ⟨none, []⟩)       -- Buffer::default()
      | some fid =>
        let h := boxDrop sz (st.heap.use fid) .filter fid      -- Box::from_raw; end(); drop(filter)
        let (h, v) := vecNew h out out.length
        let (h, ob) := fromVec h v
        (({ st with heap := h }).release f).push (.buffer ob)
    | _ => st.bad f
  | .tpNew =>
    let (h, inner) := boxNew sz st.heap .tconfig
    let (h, outer) := boxNew sz h .tproxies
    { st with heap := h }.push (.tproxies outer inner)
  | .tpUse s =>
    match st.get s with
    | some (.tproxies outer inner) => { st with heap := (st.heap.use outer).use inner }
    | _ => st.bad s

def run (st : State) (calls : List Call) : State := calls.foldl (step sz) st

/-- The caller follows the protocol from `st` on: every call finds the slots it names unreleased and of the
right type, in the state the previous calls left. -/
def Follows (st : State) : List Call → Prop
  | [] => True
  | c :: rest => pre st c = true ∧ Follows (step sz st c) rest

def FollowsProtocol (calls : List Call) : Prop := Follows sz {} calls

/-- executable form of `Follows` -/
def followsB (st : State) : List Call → Bool
  | [] => true
  | c :: rest => pre st c && followsB (step sz st c) rest

theorem follows_iff (st : State) (calls : List Call) : Follows sz st calls ↔ followsB sz st calls = true := by
  induction calls generalizing st with
  | nil => simp [Follows, followsB]
  | cons c rest ih => simp [Follows, followsB, ih]

instance (st : State) (calls : List Call) : Decidable (Follows sz st calls) :=
  decidable_of_iff _ (follows_iff sz st calls).symm

instance (calls : List Call) : Decidable (FollowsProtocol sz calls) :=
  inferInstanceAs (Decidable (Follows sz {} calls))

/-- what a handle owns: `(allocation id, size it must be released with, kind)` -/
def ownsStr : Option (Nat × Nat) → List (Nat × Nat × Kind)
  | none => []
  | some (id, len) => [(id, len + 1, Kind.cstr)]

def ownsNodes : List HNode → List (Nat × Nat × Kind)
  | [] => []
  | (node, n, v) :: rest => ownsStr n ++ ownsStr v ++ [(node, sz .hnode, Kind.hnode)] ++ ownsNodes rest

def owns : Handle → List (Nat × Nat × Kind)
  | .buffer ⟨some id, bytes⟩ => if bytes = [] then [] else [(id, bytes.length, .bytes)]
  | .buffer ⟨none, _⟩ => []
  | .cstr (some id) len => [(id, len + 1, .cstr)]
  | .cstr none _ => []
  | .obj k (some id) => [(id, sz k, k)]
  | .obj _ none => []
  | .hlist nodes => ownsNodes sz nodes
  | .alias => []
  | .tproxies o i => [(o, sz .tproxies, .tproxies), (i, sz .tconfig, .tconfig)]

/-- everything the caller still holds -/
def ownedSlots : List Slot → List (Nat × Nat × Kind)
  | [] => []
  | sl :: rest => (if sl.released then [] else owns sz sl.h) ++ ownedSlots rest

/-- Every handle that has a release function has been released (trusted proxies have none; an alias of the caller's
own list must NOT be released). -/
def AllReleased (st : State) : Prop :=
  ∀ sl ∈ st.slots, sl.released = true ∨ (∃ o i, sl.h = .tproxies o i) ∨ sl.h = .alias

/-- Allocations documented as never released: the trusted-proxies pair. -/
def documentedLeak (c : Nat × Nat × Kind) : Bool := c.2.2 == .tproxies || c.2.2 == .tconfig

end

/-! ### Content of header lists (for the round trip) -/

/-- a header as the Rust side sees it: name and value bytes -/
abbrev HeaderBytes := List Nat × List Nat

/-- a node as the C side sees it: two `char*`, `none` = NULL -/
abbrev CNode := Option (List Nat) × Option (List Nat)

/-- `string_to_c_char`: `CString::new` refuses an interior NUL (then the helper returns NULL). -/
def cstrOf (s : List Nat) : Option (List Nat) := if 0 ∈ s then none else some s

/-- `http_headers_to_header_map`: `for header in &headers { current = Box(HeaderMap { name, value, next: current }) }`
— each new node is put IN FRONT of the list. -/
def toHeaderMap (hs : List HeaderBytes) : List CNode :=
  hs.foldl (fun cur h => (cstrOf h.1, cstrOf h.2) :: cur) []

/-- `header_map_to_http_headers`: walks the list; a node whose name or value is NULL (or not UTF-8 — cannot
happen for strings that came from Rust `String`s) is skipped. -/
def fromHeaderMap (l : List CNode) : List HeaderBytes :=
  l.filterMap fun
    | (some n, some v) => some (n, v)
    | _ => none

def nulFree (h : HeaderBytes) : Bool := !(0 ∈ h.1) && !(0 ∈ h.2)

end Rio.Ffi
