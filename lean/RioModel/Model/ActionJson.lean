/-
JSON codec shared by the C05 and C11 drivers: parses the abstract rule description of a case into
`Rio.Action.Rule`, renders an `Action` exactly as `serde_json::to_value(&action)` does, and renders
the observer results.  No theorem depends on this file (it is driver plumbing; it lives here because
two driver executables need it and each `Drivers/CXX.lean` defines its own `main`).
-/
import Lean.Data.Json
import RioModel.Model.Action
import RioModel.Model.Header
open Lean

namespace Rio.Action.Codec

def idOfString (s : String) : RuleId := s.toUTF8.toList.map (·.toNat)

def stringOfId (l : RuleId) : String := String.fromUTF8! (ByteArray.mk (l.map UInt8.ofNat).toArray)

/-- Missing key and `null` both mean `None` (cases stay shrinkable). -/
def opt? {α : Type} [FromJson α] (j : Json) (k : String) : Except String (Option α) :=
  match j.getObjVal? k with
  | .error _ => .ok none
  | .ok .null => .ok none
  | .ok v => (fromJson? v : Except String α).map some

def req? {α : Type} [FromJson α] (j : Json) (k : String) : Except String α := j.getObjValAs? α k

def parseHeaderFilter (j : Json) : Except String HeaderFilter := do
  return { action := ← req? j "action", header := ← req? j "header", value := ← req? j "value",
           id := ← opt? j "id", targetHash := ← opt? j "target_hash" }

def parseTextAction (s : String) : Except String TextAction :=
  if s == "append_text" then .ok .append
  else if s == "prepend_text" then .ok .prepend
  else if s == "replace_text" then .ok .replace
  else .error s!"text action {s}"

def textActionName : TextAction → String
  | .append => "append_text" | .prepend => "prepend_text" | .replace => "replace_text"

def parseBodyFilter (j : Json) : Except String BodyFilter := do
  let kind : String ← req? j "kind"
  if kind == "text" then
    return .text { action := ← parseTextAction (← req? j "action"), content := ← req? j "content",
                   id := ← opt? j "id", targetHash := ← opt? j "target_hash" }
  else if kind == "html" then
    return .html { action := ← req? j "action", value := ← req? j "value",
                   innerValue := ← opt? j "inner_value",
                   elementTree := (← req? j "element_tree" : Array String).toList,
                   cssSelector := ← opt? j "css_selector", id := ← opt? j "id",
                   targetHash := ← opt? j "target_hash" }
  else throw s!"body filter kind {kind}"

def parseRule (j : Json) : Except String Rule := do
  let hf : Option (Array Json) ← opt? j "hf"
  let bf : Option (Array Json) ← opt? j "bf"
  let codes : Option (Array Nat) ← opt? j "codes"
  return {
    id := idOfString (← req? j "id"), rank := ← req? j "rank",
    statusCode := ← opt? j "status_code", target := ← opt? j "target",
    responseStatusCodes := codes.map (·.toList),
    excludeResponseStatusCodes := ← opt? j "excl",
    sampling := ← opt? j "sampling",
    headerFilters := ← (match hf with
      | none => pure none
      | some a => do return some (← a.toList.mapM parseHeaderFilter)),
    bodyFilters := ← (match bf with
      | none => pure none
      | some a => do return some (← a.toList.mapM parseBodyFilter)),
    logOverride := ← opt? j "log", reset := ← opt? j "reset", stop := ← opt? j "stop",
    redirectUnitId := ← opt? j "ru", configurationLogUnitId := ← opt? j "lu",
    targetHash := ← opt? j "th",
    configurationResetUnitId := ← opt? j "cu" }

def parseRules (j : Json) : Except String (List Rule) := do
  (← req? j "rules" : Array Json).toList.mapM parseRule

def parseReq (j : Json) : Except String Req := do
  return { samplingOverride := ← opt? j "ov", skippedQueryParams := ← opt? j "skipped" }

def parseOp (j : Json) : Except String Op := do
  let op : String ← req? j "op"
  if op == "status" then return .status
  else if op == "headers" then return .headers
  else if op == "body" then return .body
  else if op == "log" then return .log
  else if op == "final" then return .final (← req? j "fb")
  else throw s!"op {op}"

/-! ### rendering (serde field names) -/

def jOptStr (s : Option String) : Json := match s with | none => .null | some s => toJson s
def jOptId (s : Option RuleId) : Json := match s with | none => .null | some s => toJson (stringOfId s)
def jIds (l : List RuleId) : Json := toJson (l.map stringOfId)
def jNats (l : List Nat) : Json := toJson l

def jHeaderFilter (f : HeaderFilter) : Json :=
  Json.mkObj [("action", toJson f.action), ("header", toJson f.header), ("value", toJson f.value),
    ("id", jOptStr f.id), ("target_hash", jOptStr f.targetHash)]

def jBodyFilter : BodyFilter → Json
  | .text t => Json.mkObj [("action", toJson (textActionName t.action)), ("content", toJson t.content),
      ("id", jOptStr t.id), ("target_hash", jOptStr t.targetHash)]
  | .html h => Json.mkObj [("action", toJson h.action), ("value", toJson h.value),
      ("inner_value", jOptStr h.innerValue), ("element_tree", toJson h.elementTree),
      ("css_selector", jOptStr h.cssSelector), ("id", jOptStr h.id),
      ("target_hash", jOptStr h.targetHash)]

def jStatus (u : StatusCodeUpdate) : Json :=
  Json.mkObj [("status_code", toJson u.statusCode),
    ("on_response_status_codes", jNats u.onResponseStatusCodes),
    ("exclude_response_status_codes", toJson u.excludeResponseStatusCodes),
    ("fallback_status_code", toJson u.fallbackStatusCode),
    ("rule_id", jOptId u.ruleId), ("fallback_rule_id", jOptId u.fallbackRuleId),
    ("unit_id", jOptStr u.unitId), ("target_hash", jOptStr u.targetHash)]

def jLog (l : LogOverride) : Json :=
  Json.mkObj [("log_override", toJson l.logOverride), ("rule_id", jOptId l.ruleId),
    ("on_response_status_codes", jNats l.onResponseStatusCodes),
    ("exclude_response_status_codes", toJson l.excludeResponseStatusCodes),
    ("fallback_log_override", match l.fallbackLogOverride with | none => .null | some b => toJson b),
    ("fallback_rule_id", jOptId l.fallbackRuleId), ("unit_id", jOptStr l.unitId)]

/-- `serde_json::to_value(&action)`. -/
def jAction (a : Action) : Json :=
  Json.mkObj [
    ("status_code_update", match a.statusCodeUpdate with | none => .null | some u => jStatus u),
    ("header_filters", Json.arr (a.headerFilters.map fun f => Json.mkObj [
        ("filter", jHeaderFilter f.filter),
        ("on_response_status_codes", jNats f.onResponseStatusCodes),
        ("exclude_response_status_codes", toJson f.excludeResponseStatusCodes),
        ("rule_id", jOptId f.ruleId)]).toArray),
    ("body_filters", Json.arr (a.bodyFilters.map fun f => Json.mkObj [
        ("filter", jBodyFilter f.filter),
        ("on_response_status_codes", jNats f.onResponseStatusCodes),
        ("exclude_response_status_codes", toJson f.excludeResponseStatusCodes),
        ("rule_id", jOptId f.ruleId)]).toArray),
    ("rule_ids", jIds a.ruleIds),
    ("rule_traces", Json.arr (a.ruleTraces.map fun t => Json.mkObj [
        ("id", toJson (stringOfId t.id)),
        ("on_response_status_codes", jNats t.onResponseStatusCodes),
        ("exclude_response_status_codes", toJson t.excludeResponseStatusCodes)]).toArray),
    ("rules_applied", jIds a.rulesApplied),
    ("log_override", match a.logOverride with | none => .null | some l => jLog l)]

/-- Response headers after `filter_headers`.  Model side (`useRef = false`): exactly
`Action.filterHeadersFull` (selected filters through the C13 pipeline model, then the
`X-RedirectionIo-RuleIds` header).  Specification side (`useRef = true`): the left fold of the C13
reference operations over the selected filters, then the ids header. -/
def renderHeaders (useRef : Bool) (headers : List Rio.Header.Header) (filters : List HeaderFilter)
    (ids : Option (List RuleId)) : Json :=
  let fs : List Rio.Header.HeaderFilter := filters.map toHeaderOp
  let out : List Rio.Header.Header :=
    if useRef then Rio.Header.refFold String.toLower fs headers
    else Rio.Header.filterHeaders String.toLower fs headers
  let out : List Rio.Header.Header := match ids with
    | none => out
    | some l => out ++ [⟨"X-RedirectionIo-RuleIds", String.intercalate ";" (l.map stringOfId)⟩]
  Json.arr (out.map fun (h : Rio.Header.Header) => Json.arr #[toJson h.name, toJson h.value]).toArray

/-- Result of `create_filter_body` on a non-HTML response + the chain run on the probe body. -/
def renderBody (filters : List BodyFilter) (body : String) : Json :=
  let chain := Probe.chainOf filters
  if chain.isEmpty then .null
  else Json.mkObj [("kinds", toJson (chain.map fun _ => "text")), ("out", toJson (Probe.runChain chain body))]

def renderOp (useRef : Bool) (headers : List Rio.Header.Header) (body : String)
    (r : OpResult × List RuleId) : Json :=
  let (name, v) : String × Json := match r.1 with
    | .status n => ("status", toJson n)
    | .headers fs ids => ("headers", renderHeaders useRef headers fs ids)
    | .body fs => ("body", renderBody fs body)
    | .log b => ("log", toJson b)
    | .final s c => ("final", toJson [s, c])
  Json.mkObj [("op", toJson name), ("r", v), ("ids", jIds r.2)]

def cmpInt : Ordering → Int
  | .lt => -1 | .eq => 0 | .gt => 1

end Rio.Action.Codec
