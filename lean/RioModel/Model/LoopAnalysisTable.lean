/-
Correspondence instance of Model/LoopAnalysis.lean (run by Drivers/C19.lean on the field `"an"` of a case).

The per-example PIPELINE results are observed by the harness on the real router (request buildable or its
error message, the unit trace after the test-examples and after the unit-ids convention, the error of the
redirect chain); `Pipe` and `View` are instantiated from that table and the MODEL's `testExamplesWith` /
`unitIds` are run on it: the glue of the analyses – rules visited in id order, rules without examples and
examples without expectation skipped, which counter moves, the failing condition, when the chain analysis
runs and is attached, the `len() <= 10` truncation of `first_ten_*`, the error path, what unit-ids writes
back – is compared with the real `TestExamplesOutput` / `UnitIdsOutput`.

Input  {"max_hops": n, "rules": [{"id": s, "examples": null | [ex..]}]}   (`router.routes()` in any order)
       ex = {"expected": null | [unit id..], "must_match": b, "req": "ok" | {"err": msg},
             "test_rule_ids": [..], "test_unit_ids": [..], "unit_unit_ids": [..],
             "loop_error": null | "AtLeastOneHop" | "TooManyHops" | "Loop"}       (the last four when req is ok)
Output {"example_count", "failure_count", "error_count",
        "failures": [[rule id, [[idx, rule ids applied, unit ids applied, not applied any more, loop error | null]..]]..],
        "errors":   [[rule id, [[idx, message]..]]..],
        "unit_ids": [[rule id, [[idx, null | [unit id..]]..]]..]}   (each list sorted by rule id)
-/
import Lean.Data.Json
import RioModel.Model.LoopAnalysis
open Lean

namespace Rio.Analysis.Table
open Rio.Analysis Rio.Loop

/-- an example together with what the real pipeline answered for it -/
structure TEx where
  idx : Nat
  expected : Option (List String)
  mustMatch : Bool
  reqErr : Option String
  testRuleIds : List String
  testUnitIds : List String
  unitUnitIds : List String
  loopError : Option Err
deriving Repr, Inhabited

structure TRule where
  id : String
  examples : Option (List TEx)
deriving Repr, Inhabited

/-- `UnitTrace::diff(other)`: the expected ids that were not applied, collected in a `LinkedHashSet`
(a repeated id moves to the back) -/
def utDiff (applied : List String) (expected : List String) : List String :=
  expected.foldl (fun acc x => if applied.contains x then acc else acc.erase x ++ [x]) []

/-- the pipeline read from the table: the request of an example is the example itself -/
def pipe : Pipe TRule TEx Unit TEx String String (List String × List String) Unit String String Unit where
  ruleId r := r.id
  idLe a b := !(decide (b < a))
  examples r := r.examples
  fromExample _ e := match e.reqErr with | some m => .error m | none => .ok e
  expected e := e.expected
  mustMatch e := e.mustMatch
  setExpected e ids := { e with expected := some ids }
  url _ := ""
  method _ := none
  withUrlMethod e _ _ := e
  get := "GET"
  evalTest _ q _ := (q.testRuleIds, q.testUnitIds)
  evalUnit _ q _ := ([], q.unitUnitIds)
  evalExplain _ _ _ := ()
  evalHop _ _ _ := (0, none)
  ext _ _ := false
  utRuleIds ut := ut.1
  utUnitIds ut := ut.2
  utDiff ut exp := utDiff ut.2 exp

def view (rules : List TRule) : View TRule TEx Unit Unit :=
  { config := (), routes := rules, matchReq := fun _ => [], trace := fun _ => () }

/-- the observed redirect chain of an example (only its error is compared) -/
def lp (e : TEx) : LoopOut String String := ([], e.loopError)

/-! ### JSON -/

def errOfString : String → Except String Err
  | "AtLeastOneHop" => .ok .atLeastOneHop
  | "TooManyHops" => .ok .tooManyHops
  | "Loop" => .ok .loop
  | s => .error s!"loop_error {s}"

def errToJson : Option Err → Json
  | none => Json.null
  | some .atLeastOneHop => "AtLeastOneHop"
  | some .tooManyHops => "TooManyHops"
  | some .loop => "Loop"

def strList (j : Json) (k : String) : Except String (List String) :=
  match j.getObjVal? k with
  | .error _ => .ok []
  | .ok .null => .ok []
  | .ok v => (fromJson? v : Except String (Array String)).map (·.toList)

def parseEx (idx : Nat) (j : Json) : Except String TEx := do
  let expected ← match j.getObjVal? "expected" with
    | .ok .null => pure none
    | .error _ => pure none
    | .ok v => (fromJson? v : Except String (Array String)).map (fun a => some a.toList)
  let mustMatch ← j.getObjValAs? Bool "must_match"
  let reqErr ← match j.getObjVal? "req" with
    | .ok (.str "ok") => pure none
    | .ok v => (v.getObjValAs? String "err").map some
    | .error e => throw e
  let loopError ← match j.getObjVal? "loop_error" with
    | .ok (.str s) => (errOfString s).map some
    | _ => pure none
  return { idx, expected, mustMatch, reqErr,
           testRuleIds := ← strList j "test_rule_ids", testUnitIds := ← strList j "test_unit_ids",
           unitUnitIds := ← strList j "unit_unit_ids", loopError }

def parseRule (j : Json) : Except String TRule := do
  let id ← j.getObjValAs? String "id"
  let examples ← match j.getObjVal? "examples" with
    | .ok .null => pure none
    | .error _ => pure none
    | .ok (.arr xs) => do
      let mut out := []
      let mut i := 0
      for x in xs do
        out := out ++ [← parseEx i x]
        i := i + 1
      pure (some out)
    | .ok _ => throw "examples"
  return { id, examples }

def strs (l : List String) : Json := Json.arr (l.map Json.str).toArray

def sortPairs (l : List (String × Json)) : List (String × Json) :=
  l.mergeSort fun a b => !(decide (b.1 < a.1))

def handle (an : Json) : Except String Json := do
  let rules ← match an.getObjVal? "rules" with
    | .ok (.arr xs) => xs.toList.mapM parseRule
    | _ => throw "an.rules"
  let S := view rules
  let out := testExamplesWith pipe S lp
  let failures : List (String × Json) := out.firstTenFailures.map fun (id, _, fs) =>
    (id, Json.arr (fs.map fun f =>
      Json.arr #[toJson f.ex.idx, strs f.ruleIdsApplied, strs f.unitIdsApplied, strs f.unitIdsNotAppliedAnymore,
                 match f.redirectionLoop with | none => Json.null | some l => errToJson l.2]).toArray)
  let errors : List (String × Json) := out.firstTenErrors.map fun (id, _, es) =>
    (id, Json.arr (es.map fun (e, msg) => Json.arr #[toJson e.idx, Json.str msg]).toArray)
  let units : List (String × Json) := (unitIds pipe S).map fun (id, exs) =>
    (id, Json.arr (exs.map fun e =>
      Json.arr #[toJson e.idx, match e.expected with | none => Json.null | some ids => strs ids]).toArray)
  let pairs (l : List (String × Json)) : Json := Json.arr (l.map fun (id, v) => Json.arr #[Json.str id, v]).toArray
  return Json.mkObj [
    ("example_count", toJson out.exampleCount), ("failure_count", toJson out.failureCount),
    ("error_count", toJson out.errorCount),
    -- `first_ten_*` are emitted in the order the model recorded them (= id order, since rules are visited in id
    -- order); `unit_ids` is a HashMap in the code: canonical order
    ("failures", pairs failures), ("errors", pairs errors), ("unit_ids", pairs (sortPairs units))]

end Rio.Analysis.Table
