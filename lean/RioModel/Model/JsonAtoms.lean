/-
Concrete models of the two atoms of `http::Request` that travel as strings:

* `std::net::IpAddr` – `Display` (what `Serialize` emits for human-readable formats) and the part of
  `FromStr` that reads canonical texts.  IPv4: four decimal octets, no leading zero – Rust's parser
  accepts exactly the canonical form, so the model parser is the whole parser.  IPv6: `Display` is the
  algorithm of core/src/net/ip_addr.rs (IPv4-mapped addresses as `::ffff:a.b.c.d`, otherwise the first
  longest run of at least two zero segments is written `::`, segments in lower-case hex without leading
  zeros); the model parser reads that shape and then *checks that re-printing gives the same text*, so
  it accepts canonical texts only.
* `chrono::DateTime<Utc>` – `Serialize` = `write_rfc3339(.., SecondsFormat::AutoSi, use_z = true)`:
  `YYYY-MM-DDTHH:MM:SS[.fff|.ffffff|.fffffffff]Z`, years outside 0..=9999 as sign + at least four
  digits (`{:+05}`), a leap second as `:60`; the model parser reads that shape, checks the calendar and
  checks that re-printing gives the same text.

Non-canonical spellings that the real parsers also accept (upper-case hex, uncompressed IPv6, offsets
other than `Z`, a space instead of `T`, …) are left to the oracle (`Codec`, see Model/JsonAction.lean):
the model asks the concrete parser first and the oracle otherwise.  The round-trip theorems only need the
concrete parsers.
-/
import RioModel.Model.JsonText

namespace Rio.Json

/-! ### small text tools -/

/-- `str::split(sep)` on a character list -/
def splitOn (sep : Char) : List Char → List (List Char)
  | [] => [[]]
  | c :: cs =>
    if c = sep then [] :: splitOn sep cs
    else
      match splitOn sep cs with
      | [] => [[c]]
      | f :: fs => (c :: f) :: fs

/-- fields joined by `sep` -/
def joinWith (sep : Char) : List (List Char) → List Char
  | [] => []
  | [f] => f
  | f :: g :: fs => f ++ sep :: joinWith sep (g :: fs)

/-- a non-empty run of decimal digits as a number -/
def parseDec (cs : List Char) : Option Nat :=
  if cs.isEmpty then none else if cs.all isDigit then some (digitsToNat cs) else none

/-- `n` in decimal, zero-padded on the left to width `w` (`write_hundreds`, `{:03}` …) -/
def padDec (w n : Nat) : List Char :=
  let ds := natDigits n
  List.replicate (w - ds.length) '0' ++ ds

/-! ### IPv4 -/

/-- `Ipv4Addr::octets()` -/
structure Ipv4 where
  a : UInt8
  b : UInt8
  c : UInt8
  d : UInt8
deriving DecidableEq, Repr, Inhabited

def showIpv4 (x : Ipv4) : List Char :=
  joinWith '.' [natDigits x.a.toNat, natDigits x.b.toNat, natDigits x.c.toNat, natDigits x.d.toNat]

/-- `Parser::read_number(10, Some(3), allow_zero_prefix = false)` into a `u8` -/
def parseOctet (cs : List Char) : Option UInt8 :=
  match cs with
  | [] => none
  | c :: r =>
    if cs.length ≤ 3 ∧ cs.all isDigit = true ∧ (c ≠ '0' ∨ r = []) ∧ digitsToNat cs ≤ 255 then
      some (UInt8.ofNat (digitsToNat cs))
    else none

/-- `Ipv4Addr::from_str` -/
def parseIpv4 (cs : List Char) : Option Ipv4 :=
  match splitOn '.' cs with
  | [fa, fb, fc, fd] =>
    match parseOctet fa, parseOctet fb, parseOctet fc, parseOctet fd with
    | some a, some b, some c, some d => some ⟨a, b, c, d⟩
    | _, _, _, _ => none
  | _ => none

/-! ### IPv6 -/

/-- `Ipv6Addr::segments()` -/
structure Ipv6 where
  segs : List UInt16
  len8 : segs.length = 8
deriving DecidableEq, Repr

def lowerHexDigit (d : Nat) : Char := if d < 10 then Char.ofNat (48 + d) else Char.ofNat (87 + d)

/-- `{:x}` -/
def hexDigitsN (n : Nat) : List Char :=
  if n < 16 then [lowerHexDigit n] else hexDigitsN (n / 16) ++ [lowerHexDigit (n % 16)]
termination_by n
decreasing_by omega

def lowerHexVal (c : Char) : Option Nat :=
  if 48 ≤ c.toNat ∧ c.toNat ≤ 57 then some (c.toNat - 48)
  else if 97 ≤ c.toNat ∧ c.toNat ≤ 102 then some (c.toNat - 87)
  else none

/-- one to four lower-case hex digits as a number -/
def parseHexGroup (cs : List Char) : Option Nat :=
  if cs.isEmpty ∨ cs.length > 4 then none
  else cs.foldl (fun acc c => match acc, lowerHexVal c with
                              | some a, some v => some (a * 16 + v)
                              | _, _ => none) (some 0)

/-- `struct Span { start, len }` -/
structure Span where
  start : Nat
  len : Nat
deriving DecidableEq, Repr, Inhabited

/-- the loop `for (i, &segment) in segments.iter().enumerate()` of `Display`:
state = (longest, current), `i` = index of the head of the remaining segments -/
def zeroSpanLoop : List UInt16 → Nat → Span → Span → Span
  | [], _, longest, _ => longest
  | s :: rest, i, longest, current =>
    if s = 0 then
      let cur : Span := ⟨if current.len = 0 then i else current.start, current.len + 1⟩
      zeroSpanLoop rest (i + 1) (if cur.len > longest.len then cur else longest) cur
    else zeroSpanLoop rest (i + 1) longest ⟨0, 0⟩

/-- the first longest run of zero segments -/
def zeroSpan (segs : List UInt16) : Span := zeroSpanLoop segs 0 ⟨0, 0⟩ ⟨0, 0⟩

/-- `fmt_subslice` as a list of fields -/
def hexFields (segs : List UInt16) : List (List Char) := segs.map fun s => hexDigitsN s.toNat

/-- the text as `:`-separated fields: a compressed run is one empty field, doubled at either end of
the address (`::1` = `["", "", "1"]`, `1::` = `["1", "", ""]`, `::` = `["", "", ""]`) -/
def ipv6Fields (segs : List UInt16) : List (List Char) :=
  let z := zeroSpan segs
  if z.len > 1 then
    let pre := hexFields (segs.take z.start)
    let post := hexFields (segs.drop (z.start + z.len))
    (if pre.isEmpty then [[]] else pre) ++ [[]] ++ (if post.isEmpty then [[]] else post)
  else hexFields segs

/-- `Ipv6Addr::to_ipv4_mapped` -/
def ipv4Mapped (segs : List UInt16) : Option Ipv4 :=
  match segs with
  | [0, 0, 0, 0, 0, 0xffff, g, h] =>
    some ⟨UInt8.ofNat (g.toNat / 256), UInt8.ofNat (g.toNat % 256),
          UInt8.ofNat (h.toNat / 256), UInt8.ofNat (h.toNat % 256)⟩
  | _ => none

def mappedPrefix : List Char := [':', ':', 'f', 'f', 'f', 'f', ':']

/-- `impl Display for Ipv6Addr` -/
def showIpv6 (x : Ipv6) : List Char :=
  match ipv4Mapped x.segs with
  | some v4 => mappedPrefix ++ showIpv4 v4
  | none => joinWith ':' (ipv6Fields x.segs)

/-- all fields are hex groups -/
def parseGroups (fs : List (List Char)) : Option (List UInt16) :=
  fs.foldr (fun f acc => match parseHexGroup f, acc with
                         | some n, some l => some (UInt16.ofNat n :: l)
                         | _, _ => none) (some [])

/-- the segments a field list denotes: leading groups, then – if there is an empty field – the run of
zeros it stands for, then the trailing groups -/
def decodeFields (fs : List (List Char)) : Option (List UInt16) :=
  let pre := fs.takeWhile (fun f => !f.isEmpty)
  let rest := fs.dropWhile (fun f => !f.isEmpty)
  match rest with
  | [] => parseGroups pre                                   -- no `::`
  | _ :: r1 =>
    -- text starting with `::` has two leading empty fields
    let r2 : Option (List (List Char)) :=
      if pre.isEmpty then (match r1 with | [] :: r => some r | _ => none) else some r1
    match r2 with
    | none => none
    | some b =>
      let post := if b = [[]] then [] else b
      match parseGroups pre, parseGroups post with
      | some p, some q =>
        if p.length + q.length ≤ 6 then some (p ++ List.replicate (8 - p.length - q.length) 0 ++ q)
        else none
      | _, _ => none

/-- `Ipv6Addr::from_str` restricted to canonical texts -/
def parseIpv6 (cs : List Char) : Option Ipv6 :=
  let cand : Option (List UInt16) :=
    if cs.contains '.' then
      match stripPrefix mappedPrefix cs with
      | some rest =>
        (parseIpv4 rest).map fun v =>
          [0, 0, 0, 0, 0, 0xffff, UInt16.ofNat (v.a.toNat * 256 + v.b.toNat),
           UInt16.ofNat (v.c.toNat * 256 + v.d.toNat)]
      | none => none
    else decodeFields (splitOn ':' cs)
  match cand with
  | none => none
  | some segs =>
    if h : segs.length = 8 then
      if showIpv6 ⟨segs, h⟩ = cs then some ⟨segs, h⟩ else none
    else none

/-- `std::net::IpAddr` -/
inductive Ip where
  | v4 (x : Ipv4)
  | v6 (x : Ipv6)
deriving DecidableEq, Repr

def showIp : Ip → List Char
  | .v4 x => showIpv4 x
  | .v6 x => showIpv6 x

/-- `IpAddr::from_str` on canonical texts (a text with a `:` can only be IPv6) -/
def parseIp (cs : List Char) : Option Ip :=
  if cs.contains ':' then (parseIpv6 cs).map .v6 else (parseIpv4 cs).map .v4

/-! ### DateTime<Utc> -/

/-- a UTC instant by its calendar fields; `sec = 60` is a leap second (chrono: `nanosecond() >= 10^9`) -/
structure DateTime where
  year : Int
  month : Nat
  day : Nat
  hour : Nat
  min : Nat
  sec : Nat
  nano : Nat
deriving DecidableEq, Repr, Inhabited

def isLeapYear (y : Int) : Bool := (y % 4 == 0 && y % 100 != 0) || y % 400 == 0

def daysInMonth (y : Int) (m : Nat) : Nat :=
  if m = 2 then (if isLeapYear y then 29 else 28)
  else if m = 4 ∨ m = 6 ∨ m = 9 ∨ m = 11 then 30 else 31

/-- what chrono can represent (`NaiveDate::MIN/MAX` years, calendar, clock) -/
def DateTime.Valid (d : DateTime) : Prop :=
  -262143 ≤ d.year ∧ d.year ≤ 262142 ∧ 1 ≤ d.month ∧ d.month ≤ 12 ∧ 1 ≤ d.day ∧
    d.day ≤ daysInMonth d.year d.month ∧ d.hour < 24 ∧ d.min < 60 ∧ d.sec ≤ 60 ∧ d.nano < 1000000000

instance (d : DateTime) : Decidable d.Valid := by unfold DateTime.Valid; exact inferInstance

/-- the year: four digits for 0..=9999, otherwise `{:+05}` -/
def showYear (y : Int) : List Char :=
  if 0 ≤ y ∧ y ≤ 9999 then padDec 4 y.toNat
  else if 0 ≤ y then '+' :: padDec 4 y.toNat
  else '-' :: padDec 4 (-y).toNat

/-- `SecondsFormat::AutoSi` -/
def showFrac (nano : Nat) : List Char :=
  if nano = 0 then []
  else if nano % 1000000 = 0 then '.' :: padDec 3 (nano / 1000000)
  else if nano % 1000 = 0 then '.' :: padDec 6 (nano / 1000)
  else '.' :: padDec 9 nano

/-- `impl Serialize for DateTime<Utc>` -/
def showDt (d : DateTime) : List Char :=
  showYear d.year ++ '-' :: padDec 2 d.month ++ '-' :: padDec 2 d.day ++ 'T' :: padDec 2 d.hour ++
    ':' :: padDec 2 d.min ++ ':' :: padDec 2 d.sec ++ showFrac d.nano ++ ['Z']

/-- the year and the rest of the text after the `-` that ends it -/
def parseYear (cs : List Char) : Option (Int × List Char) :=
  match cs with
  | [] => none
  | c :: r =>
    let neg := c = '-'
    let body := if c = '+' ∨ c = '-' then r else cs
    let dr := takeDigits body
    match parseDec dr.1, dr.2 with
    | some n, '-' :: rest => some (if neg then -(n : Int) else (n : Int), rest)
    | _, _ => none

/-- exactly two digits, then `sep` -/
def parse2 (sep : Char) (cs : List Char) : Option (Nat × List Char) :=
  match cs with
  | a :: b :: s :: rest =>
    if isDigit a ∧ isDigit b ∧ s = sep then some (digitVal a * 10 + digitVal b, rest) else none
  | _ => none

/-- optional fraction of 3, 6 or 9 digits, in nanoseconds -/
def parseFracNs (cs : List Char) : Option (Nat × List Char) :=
  match cs with
  | '.' :: r =>
    let dr := takeDigits r
    if dr.1.length = 3 then some (digitsToNat dr.1 * 1000000, dr.2)
    else if dr.1.length = 6 then some (digitsToNat dr.1 * 1000, dr.2)
    else if dr.1.length = 9 then some (digitsToNat dr.1, dr.2)
    else none
  | _ => some (0, cs)

/-- chrono's RFC 3339 reader restricted to canonical texts of UTC instants -/
def parseDt (cs : List Char) : Option DateTime :=
  match parseYear cs with
  | none => none
  | some (y, r1) =>
    match parse2 '-' r1 with
    | none => none
    | some (mo, r2) =>
      match parse2 'T' r2 with
      | none => none
      | some (da, r3) =>
        match parse2 ':' r3 with
        | none => none
        | some (ho, r4) =>
          match parse2 ':' r4 with
          | none => none
          | some (mi, r5) =>
            match r5 with
            | a :: b :: r6 =>
              if isDigit a ∧ isDigit b then
                match parseFracNs r6 with
                | some (ns, ['Z']) =>
                  let d : DateTime := ⟨y, mo, da, ho, mi, digitVal a * 10 + digitVal b, ns⟩
                  if d.Valid ∧ showDt d = cs then some d else none
                | _ => none
              else none
            | _ => none

end Rio.Json
