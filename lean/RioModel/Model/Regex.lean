/-
Stand-in for the `regex` crate on the rule fragment (DESIGN §3: the engine is *modelled, not verified*;
this model is validated against the real crate on every run, per pattern × haystack, by the `rx`
cases of the C08 correspondence).

* `Re`    – regular expressions over character classes; `Lang` their denotation (with the
            case-insensitive flag: simple case folding, `caseOrbit`), `fmatch` / `pmatch` an executable Brzozowski-derivative matcher for
            `^r$` / `^r` (proved equivalent to `Lang` in Proofs/Regex.lean).
* `parseBody` – recursive-descent parser for the text of one parenthesised group (the fragment:
            literals, `\`-escaped meta characters, `.`, classes `[a-z0-9_]` / `[^…]`, nested groups
            `( … )` / `(?: … )`, alternation, `* + ?` (and lazy variants), `{n}` `{n,}` `{n,m}`).
            `none` = "does not compile" (or outside the fragment).
* `tokTop` – splitter of a whole pattern into top-level tokens `lit c | grp body` following the *real*
            regex syntax (a parenthesis inside a character class is a literal) – unlike the tree's own
            scanner (`Model/Scan`), which is what DESIGN §6-O1 is about.
* `render` – `regex::escape` on literals (`regex_syntax::is_meta_character`), `( body )` on groups.
* `compileStr`, `stdEngine` – `Regex::new` on a rule-shaped string, packaged as the `Engine` the tree
            model is parameterised by.
-/
import RioModel.Model.Scan

namespace Rio.Regex

/-! ### Regular expressions and their language -/

/-- A character class: inclusive ranges, possibly negated.  `.` is `[^\n]`, a literal `c` is `[c-c]`. -/
structure Cls where
  neg : Bool
  ranges : List (Char × Char)
deriving DecidableEq, Repr

/-- ASCII case swap. -/
def flipCase (c : Char) : Char :=
  if 'a' ≤ c ∧ c ≤ 'z' then Char.ofNat (c.toNat - 32)
  else if 'A' ≤ c ∧ c ≤ 'Z' then Char.ofNat (c.toNat + 32)
  else c

/-- The other members of the *simple case folding* orbit of `c` (Unicode `CaseFolding.txt`, status C+S – what the
regex crate uses for `(?i)`): ASCII, plus the non-ASCII letters the harness generates – Latin-1 letters
(`é/É` …, incl. `ÿ/Ÿ`, `å/Å/Å`, `µ/μ/Μ` whose partners lie outside the block), `ß/ẞ`, `ſ` and the
Kelvin sign (partners of `s` / `k`), Cyrillic `а–я/А–Я`, Greek `σ/Σ/ς`, and the digraph `Ǆ/ǅ/ǆ`.  Characters
without a simple folding partner (`İ`, `ı`, digits, CJK, emoji, …) have an empty orbit.  Validated against the crate
by the `rx` cases of the C08 correspondence. -/
def caseOrbit (c : Char) : List Char :=
  let n := c.toNat
  if 'a' ≤ c ∧ c ≤ 'z' then
    flipCase c :: (if c = 'k' then [Char.ofNat 0x212A] else if c = 's' then [Char.ofNat 0x17F] else [])
  else if 'A' ≤ c ∧ c ≤ 'Z' then
    flipCase c :: (if c = 'K' then [Char.ofNat 0x212A] else if c = 'S' then [Char.ofNat 0x17F] else [])
  else if n = 0x212A then ['k', 'K']
  else if n = 0x17F then ['s', 'S']
  else if n = 0xDF then [Char.ofNat 0x1E9E]
  else if n = 0x1E9E then [Char.ofNat 0xDF]
  -- ÿ / Ÿ,  å / Å / Å (ANGSTROM SIGN)
  else if n = 0xFF then [Char.ofNat 0x178]
  else if n = 0x178 then [Char.ofNat 0xFF]
  else if n = 0xE5 then [Char.ofNat 0xC5, Char.ofNat 0x212B]
  else if n = 0xC5 then [Char.ofNat 0xE5, Char.ofNat 0x212B]
  else if n = 0x212B then [Char.ofNat 0xE5, Char.ofNat 0xC5]
  -- Latin-1 Supplement: à–þ (except ÷, å) ↔ À–Þ (except ×, Å)
  else if 0xE0 ≤ n ∧ n ≤ 0xFE ∧ n ≠ 0xF7 ∧ n ≠ 0xE5 then [Char.ofNat (n - 0x20)]
  else if 0xC0 ≤ n ∧ n ≤ 0xDE ∧ n ≠ 0xD7 ∧ n ≠ 0xC5 then [Char.ofNat (n + 0x20)]
  -- Cyrillic а–я ↔ А–Я
  else if 0x430 ≤ n ∧ n ≤ 0x44F then [Char.ofNat (n - 0x20)]
  else if 0x410 ≤ n ∧ n ≤ 0x42F then [Char.ofNat (n + 0x20)]
  -- micro sign / Greek mu
  else if n = 0xB5 then [Char.ofNat 0x3BC, Char.ofNat 0x39C]
  else if n = 0x3BC then [Char.ofNat 0xB5, Char.ofNat 0x39C]
  else if n = 0x39C then [Char.ofNat 0xB5, Char.ofNat 0x3BC]
  -- Greek sigma
  else if n = 0x3C3 then [Char.ofNat 0x3A3, Char.ofNat 0x3C2]
  else if n = 0x3A3 then [Char.ofNat 0x3C3, Char.ofNat 0x3C2]
  else if n = 0x3C2 then [Char.ofNat 0x3C3, Char.ofNat 0x3A3]
  -- Greek α–ω ↔ Α–Ω (the further partners ϐ ϑ ϕ ϖ ϰ ϱ ϵ, Ω U+2126, ι U+1FBE lie outside `knownChar`)
  else if 0x3B1 ≤ n ∧ n ≤ 0x3C9 then [Char.ofNat (n - 0x20)]
  else if 0x391 ≤ n ∧ n ≤ 0x3A9 ∧ n ≠ 0x3A2 then [Char.ofNat (n + 0x20)]
  -- Ǆ ǅ ǆ
  else if n = 0x1C4 then [Char.ofNat 0x1C5, Char.ofNat 0x1C6]
  else if n = 0x1C5 then [Char.ofNat 0x1C4, Char.ofNat 0x1C6]
  else if n = 0x1C6 then [Char.ofNat 0x1C4, Char.ofNat 0x1C5]
  else []

def inRange (c : Char) (r : Char × Char) : Bool := decide (r.1 ≤ c) && decide (c ≤ r.2)

/-- Class membership; with `ic` the class is closed under simple case folding *before* negation (as regex-syntax
does): `c` is in the folded class iff `c` or a member of its folding orbit is in the class. -/
def Cls.mem (ic : Bool) (k : Cls) (c : Char) : Bool :=
  (k.ranges.any (inRange c) ||
    (ic && (caseOrbit c).any fun d => k.ranges.any (inRange d))) != k.neg

inductive Re where
  | none                     -- ∅
  | eps
  | cls (k : Cls)
  | cat (a b : Re)
  | alt (a b : Re)
  | star (a : Re)
deriving DecidableEq, Repr

def Re.chr (c : Char) : Re := .cls ⟨false, [(c, c)]⟩
def Re.any : Re := .cls ⟨true, [('\n', '\n')]⟩
def Re.plus (r : Re) : Re := .cat r (.star r)
def Re.opt (r : Re) : Re := .alt .eps r
def Re.pow (r : Re) : Nat → Re
  | 0 => .eps
  | n + 1 => .cat r (Re.pow r n)
/-- `r{n,m}` (`m = none`: `r{n,}`). -/
def Re.rep (r : Re) (n : Nat) : Option Nat → Re
  | .none => .cat (r.pow n) (.star r)
  | some m => .cat (r.pow n) ((Re.opt r).pow (m - n))
def catAll : List Re → Re
  | [] => .eps
  | r :: rs => .cat r (catAll rs)

/-- Denotation. -/
inductive Lang (ic : Bool) : Re → List Char → Prop where
  | eps : Lang ic .eps []
  | cls {k c} : k.mem ic c = true → Lang ic (.cls k) [c]
  | cat {a b u v} : Lang ic a u → Lang ic b v → Lang ic (.cat a b) (u ++ v)
  | altL {a b u} : Lang ic a u → Lang ic (.alt a b) u
  | altR {a b u} : Lang ic b u → Lang ic (.alt a b) u
  | starNil {a} : Lang ic (.star a) []
  | starCons {a u v} : Lang ic a u → Lang ic (.star a) v → Lang ic (.star a) (u ++ v)

/-! ### Derivative matcher -/

def nullable : Re → Bool
  | .none => false
  | .eps => true
  | .cls _ => false
  | .cat a b => nullable a && nullable b
  | .alt a b => nullable a || nullable b
  | .star _ => true

/-- `cat` that absorbs ∅ (keeps derivatives small). -/
def mkCat : Re → Re → Re
  | .none, _ => .none
  | _, .none => .none
  | a, b => .cat a b

def mkAlt : Re → Re → Re
  | .none, b => b
  | a, .none => a
  | a, b => .alt a b

def der (ic : Bool) (c : Char) : Re → Re
  | .none => .none
  | .eps => .none
  | .cls k => if k.mem ic c then .eps else .none
  | .cat a b => if nullable a then mkAlt (mkCat (der ic c a) b) (der ic c b) else mkCat (der ic c a) b
  | .alt a b => mkAlt (der ic c a) (der ic c b)
  | .star a => mkCat (der ic c a) (.star a)

/-- `Regex::new("^r$").is_match(s)`. -/
def fmatch (ic : Bool) (r : Re) : List Char → Bool
  | [] => nullable r
  | c :: cs => fmatch ic (der ic c r) cs

/-- `Regex::new("^r").is_match(s)`: some prefix of `s` is in the language. -/
def pmatch (ic : Bool) (r : Re) : List Char → Bool
  | [] => nullable r
  | c :: cs => nullable r || pmatch ic (der ic c r) cs

/-! ### `regex::escape` and top-level tokens -/

/-- `regex_syntax::is_meta_character`. -/
def isMeta (c : Char) : Bool :=
  c = '\\' || c = '.' || c = '+' || c = '*' || c = '?' || c = '(' || c = ')' || c = '|' ||
  c = '[' || c = ']' || c = '{' || c = '}' || c = '^' || c = '$' || c = '#' || c = '&' ||
  c = '-' || c = '~'

/-- A top-level token of a rule-shaped pattern: an (escaped) literal char or a parenthesised group
with its raw text (without the outer parentheses, e.g. `?:[a-z]+`). -/
inductive Tok where
  | lit (c : Char)
  | grp (body : List Char)
deriving DecidableEq, Repr

def Tok.render : Tok → List Char
  | .lit c => if isMeta c then ['\\', c] else [c]
  | .grp b => '(' :: (b ++ [')'])

/-- The regex string of a token list (what the tree sees). -/
def render (ts : List Tok) : List Char := ts.flatMap Tok.render

mutual
/-- Top-level splitter (real regex syntax).  `none`: not rule-shaped (an unescaped meta character at
top level) or not well-formed (dangling `\`, unclosed group). -/
def tokTop : List Char → Option (List Tok)
  | [] => some []
  | c :: rest =>
    if c = '\\' then
      match rest with
      | [] => none
      | d :: rest' => if isMeta d then (tokTop rest').map (Tok.lit d :: ·) else none
    else if c = '(' then tokGrp rest 1 false []
    else if isMeta c then none
    else (tokTop rest).map (Tok.lit c :: ·)
/-- Inside a group: `depth` open parentheses, `inCls` inside `[ … ]`, `acc` the body so far (reversed). -/
def tokGrp : List Char → Nat → Bool → List Char → Option (List Tok)
  | [], _, _, _ => none
  | c :: rest, depth, inCls, acc =>
    if c = '\\' then
      match rest with
      | [] => none
      | d :: rest' => tokGrp rest' depth inCls (d :: c :: acc)
    else if inCls then
      tokGrp rest depth (c != ']') (c :: acc)
    else if c = '[' then tokGrp rest depth true (c :: acc)
    else if c = '(' then tokGrp rest (depth + 1) false (c :: acc)
    else if c = ')' then
      if depth ≤ 1 then (tokTop rest).map (Tok.grp acc.reverse :: ·)
      else tokGrp rest (depth - 1) false (c :: acc)
    else tokGrp rest depth false (c :: acc)
end

/-- The state machine of `tokGrp` alone, over a group body: `(depth, inCls)` after the body, `none` if
the group would already be closed inside the body or the body ends in a dangling `\`. -/
def gscan : List Char → Nat → Bool → Option (Nat × Bool)
  | [], depth, inCls => some (depth, inCls)
  | c :: rest, depth, inCls =>
    if c = '\\' then
      match rest with
      | [] => none
      | _ :: rest' => gscan rest' depth inCls
    else if inCls then gscan rest depth (c != ']')
    else if c = '[' then gscan rest depth true
    else if c = '(' then gscan rest (depth + 1) false
    else if c = ')' then
      if depth ≤ 1 then none else gscan rest (depth - 1) false
    else gscan rest depth false

/-- The real syntax closes the group exactly at the `)` that follows `body`. -/
def realClosed (body : List Char) : Bool := gscan body 1 false == some (1, false)

open Rio.Scan in
/-- From scanner state `s`, the string returns to the boundary state exactly at its last char and at
no earlier char. -/
def closedFrom (s : St) : List Char → Bool
  | [] => false
  | [c] => (s.step c) == b0
  | c :: rest => !(s.step c).atBoundary && closedFrom (s.step c) rest

/-- The tree's own scanner sees the group `( body )` as one bracket: depth returns to 0 at the closing
parenthesis and not before (`Closed` of DESIGN §5-C08). -/
def scanClosed (body : List Char) : Bool := closedFrom Rio.Scan.b0 ('(' :: (body ++ [')']))

/-- Rule-shaped token: for a group, the tree's scanner and the real syntax agree on where it ends. -/
def Tok.good : Tok → Bool
  | .lit _ => true
  | .grp b => realClosed b && scanClosed b

/-- The domain of C08 (`RuleRegex`): `p` is the rendering of good tokens. -/
def GoodPat (p : List Char) : Prop := ∃ ts : List Tok, p = render ts ∧ ∀ t ∈ ts, t.good = true

/-- Executable version of `GoodPat` (equivalent: Proofs/RegexTok.lean `goodPatB_iff`; the test
`render ts == p` always succeeds and is there to make that equivalence immediate). -/
def goodPatB (p : List Char) : Bool :=
  match tokTop p with
  | some ts => ts.all Tok.good && render ts == p
  | none => false

/-- The pattern tokenises under the real syntax but the tree's scanner mis-brackets one of its
groups (DESIGN §6-O1, signature `class-paren`). -/
def misBracketed (p : List Char) : Bool :=
  match tokTop p with
  | some ts => ts.any fun t => match t with
    | .lit _ => false
    | .grp b => !scanClosed b
  | none => false

/-! ### Parser for group bodies (the fragment) -/

def isDigit (c : Char) : Bool := decide ('0' ≤ c) && decide (c ≤ '9')

/-- Decimal number (at least one digit). -/
def pNum : List Char → Nat → Bool → Option (Nat × List Char)
  | c :: rest, acc, seen =>
    if isDigit c then pNum rest (acc * 10 + (c.toNat - '0'.toNat)) true
    else if seen then some (acc, c :: rest) else none
  | [], acc, seen => if seen then some (acc, []) else none

/-- Characters that are literals outside a class without escaping (the fragment is conservative:
`]` and `}` are excluded although the crate accepts them). -/
def isPlain (c : Char) : Bool :=
  !(c = '\\' || c = '.' || c = '+' || c = '*' || c = '?' || c = '(' || c = ')' || c = '|' ||
    c = '[' || c = ']' || c = '{' || c = '}' || c = '^' || c = '$')

/-- Characters that are literals inside a class without escaping. -/
def isClsPlain (c : Char) : Bool :=
  !(c = '\\' || c = '[' || c = ']' || c = '^' || c = '-' || c = '&' || c = '~')

/-! #### Unicode-aware classes, as tables over the code points the generators draw

`\w`, `\d`, `\s`, `\pL` of the regex crate are Unicode classes (thousands of ranges).  The model carries them as range tables
restricted to the blocks the harness generators use – ASCII, Latin-1, Latin Extended-A/B (`İ`, `ſ`, `ǅ`), combining marks
U+0300–036F, Greek capital and small letters, Cyrillic U+0400–045F, the Arabic-Indic / Devanagari / full-width digits, the Kelvin
sign, Latin Extended Additional (`ẞ`), CJK U+4E00–9FFF, and the Unicode spaces – and says for which characters the tables are
authoritative (`knownChar`: everything else is outside the model; the driver then leaves the case to the implementation-side
oracles).  Validated against the crate in mode `rx` and on every twin case that gets an `s`. -/

def rg (a b : Nat) : Char × Char := (Char.ofNat a, Char.ofNat b)

/-- `\d` = `\p{Nd}`. -/
def digitRanges : List (Char × Char) := [rg 0x30 0x39, rg 0x660 0x669, rg 0x966 0x96F, rg 0xFF10 0xFF19]

/-- `\s` = `\p{White_Space}`. -/
def spaceRanges : List (Char × Char) :=
  [rg 0x09 0x0D, rg 0x20 0x20, rg 0x85 0x85, rg 0xA0 0xA0, rg 0x1680 0x1680, rg 0x2000 0x200A, rg 0x2028 0x2029,
   rg 0x202F 0x202F, rg 0x205F 0x205F, rg 0x3000 0x3000]

/-- `\pL` (letters) on the covered blocks. -/
def letterRanges : List (Char × Char) :=
  [rg 0x41 0x5A, rg 0x61 0x7A, rg 0xAA 0xAA, rg 0xB5 0xB5, rg 0xBA 0xBA, rg 0xC0 0xD6, rg 0xD8 0xF6, rg 0xF8 0x24F,
   rg 0x391 0x3A1, rg 0x3A3 0x3C9, rg 0x400 0x45F, rg 0x1E00 0x1EFF, rg 0x212A 0x212B, rg 0x4E00 0x9FFF]

/-- `\w` = Alphabetic ∪ marks ∪ decimal digits ∪ connector punctuation ∪ join controls, on the covered blocks. -/
def wordRanges : List (Char × Char) :=
  letterRanges ++ digitRanges ++ [rg 0x5F 0x5F, rg 0x300 0x36F, rg 0x200C 0x200D]

/-- Characters on which the tables above are authoritative: the covered blocks, ASCII, the Latin-1 block, general
punctuation U+2000–206F, `€`, and the emoji the generators use. -/
def knownChar (c : Char) : Bool :=
  let n := c.toNat
  n < 0x250 || (0x300 ≤ n && n ≤ 0x36F) || (0x391 ≤ n && n ≤ 0x3C9 && n != 0x3A2) || (0x400 ≤ n && n ≤ 0x45F) ||
    (0x660 ≤ n && n ≤ 0x669) || (0x966 ≤ n && n ≤ 0x96F) || (0x1E00 ≤ n && n ≤ 0x1EFF) || (0x2000 ≤ n && n ≤ 0x206F) ||
    n == 0x20AC || n == 0x212A || n == 0x212B || n == 0x3000 || (0x4E00 ≤ n && n ≤ 0x9FFF) || (0xFF10 ≤ n && n ≤ 0xFF19) ||
    n == 0x1F918 || n == 0x1680

/-- `\w \d \s \W \D \S`. -/
def perlClass (d : Char) : Option Cls :=
  if d = 'w' then some ⟨false, wordRanges⟩ else if d = 'W' then some ⟨true, wordRanges⟩
  else if d = 'd' then some ⟨false, digitRanges⟩ else if d = 'D' then some ⟨true, digitRanges⟩
  else if d = 's' then some ⟨false, spaceRanges⟩ else if d = 'S' then some ⟨true, spaceRanges⟩
  else none

/-- POSIX bracket classes (ASCII-only in the crate): `[:alpha:]` … inside `[ ]`. -/
def posixClass (name : List Char) : Option (List (Char × Char)) :=
  if name = "alpha".toList then some [('A', 'Z'), ('a', 'z')]
  else if name = "digit".toList then some [('0', '9')]
  else if name = "alnum".toList then some [('0', '9'), ('A', 'Z'), ('a', 'z')]
  else if name = "upper".toList then some [('A', 'Z')]
  else if name = "lower".toList then some [('a', 'z')]
  else none

/-- One class atom: a plain char or an escaped meta char. -/
def pClsChar : List Char → Option (Char × List Char)
  | '\\' :: d :: rest => if isMeta d then some (d, rest) else none
  | c :: rest => if isClsPlain c then some (c, rest) else none
  | [] => none

/-- Items of a class up to the closing `]`. -/
def pClsItems : Nat → List Char → List (Char × Char) → Option (List (Char × Char) × List Char)
  | 0, _, _ => none
  | fuel + 1, inp, acc =>
    match inp with
    | ']' :: rest => if acc.isEmpty then none else some (acc.reverse, rest)
    | '[' :: ':' :: rest =>
      -- `[:name:]`
      let name := rest.takeWhile fun c => c != ':'
      match posixClass name, rest.drop name.length with
      | some rs, ':' :: ']' :: rest' => pClsItems fuel rest' (rs.reverse ++ acc)
      | _, _ => none
    | _ =>
      match pClsChar inp with
      | none => none
      | some (a, rest) =>
        match rest with
        | '-' :: rest2 =>
          match rest2 with
          | ']' :: _ => none        -- trailing `-`: outside the fragment
          | _ =>
            match pClsChar rest2 with
            | none => none
            | some (b, rest3) => if a ≤ b then pClsItems fuel rest3 ((a, b) :: acc) else none
        | _ => pClsItems fuel rest ((a, a) :: acc)

/-- After `[`. -/
def pCls (inp : List Char) : Option (Re × List Char) :=
  let (neg, inp) := match inp with
    | '^' :: rest => (true, rest)
    | _ => (false, inp)
  match pClsItems (inp.length + 1) inp [] with
  | some (rs, rest) => some (.cls ⟨neg, rs⟩, rest)
  | none => none

/-- Optional lazy marker `?` after a quantifier. -/
def skipLazy : List Char → List Char
  | '?' :: rest => rest
  | inp => inp

/-- Quantifiers applied to `r` (the crate accepts stacked quantifiers). -/
def pQuant : Nat → Re → List Char → Option (Re × List Char)
  | 0, _, _ => none
  | fuel + 1, r, inp =>
    match inp with
    | '*' :: rest => pQuant fuel (.star r) (skipLazy rest)
    | '+' :: rest => pQuant fuel (r.plus) (skipLazy rest)
    | '?' :: rest => pQuant fuel (r.opt) (skipLazy rest)
    | '{' :: rest =>
      match pNum rest 0 false with
      | none => none
      | some (n, rest1) =>
        match rest1 with
        | '}' :: rest2 => pQuant fuel (r.rep n (some n)) (skipLazy rest2)
        | ',' :: '}' :: rest2 => pQuant fuel (r.rep n .none) (skipLazy rest2)
        | ',' :: rest2 =>
          match pNum rest2 0 false with
          | none => none
          | some (m, rest3) =>
            match rest3 with
            | '}' :: rest4 => if n ≤ m then pQuant fuel (r.rep n (some m)) (skipLazy rest4) else none
            | _ => none
        | _ => none
    | _ => some (r, inp)

mutual
/-- `alt := seq ('|' seq)*` -/
def pAlt : Nat → List Char → Option (Re × List Char)
  | 0, _ => none
  | fuel + 1, inp =>
    match pSeq fuel inp with
    | none => none
    | some (r, rest) =>
      match rest with
      | '|' :: rest' =>
        match pAlt fuel rest' with
        | none => none
        | some (r2, rest2) => some (.alt r r2, rest2)
      | _ => some (r, rest)
/-- `seq := (atom quant*)*` up to `|`, `)` or the end. -/
def pSeq : Nat → List Char → Option (Re × List Char)
  | 0, _ => none
  | fuel + 1, inp =>
    match inp with
    | [] => some (.eps, [])
    | '|' :: _ => some (.eps, inp)
    | ')' :: _ => some (.eps, inp)
    | _ =>
      match pAtom fuel inp with
      | none => none
      | some (a, rest) =>
        match pQuant (rest.length + 1) a rest with
        | none => none
        | some (q, rest1) =>
          match pSeq fuel rest1 with
          | none => none
          | some (r, rest2) => some (.cat q r, rest2)
def pAtom : Nat → List Char → Option (Re × List Char)
  | 0, _ => none
  | fuel + 1, inp =>
    match inp with
    | [] => none
    | '(' :: rest =>
      let rest := match rest with
        | '?' :: ':' :: rest' => rest'
        | _ => rest
      match pAlt fuel rest with
      | some (r, ')' :: rest') => some (r, rest')
      | _ => none
    | '[' :: rest => pCls rest
    | '.' :: rest => some (Re.any, rest)
    | '\\' :: d :: rest =>
      if isMeta d then some (Re.chr d, rest)
      else
        match perlClass d with
        | some k => some (.cls k, rest)
        | none =>
          -- `\pL`, `\p{L}` (letters); `\b` and everything else: outside the fragment
          if d = 'p' then
            match rest with
            | 'L' :: rest' => some (.cls ⟨false, letterRanges⟩, rest')
            | '{' :: 'L' :: '}' :: rest' => some (.cls ⟨false, letterRanges⟩, rest')
            | _ => none
          else none
    | c :: rest => if isPlain c then some (Re.chr c, rest) else none
end

/-- Meaning of the text between the outer parentheses of a group (`?:` prefix optional). -/
def parseBody (body : List Char) : Option Re :=
  let inp := match body with
    | '?' :: ':' :: rest => rest
    | _ => body
  match pAlt (4 * inp.length + 8) inp with
  | some (r, []) => some r
  | _ => none

/-! ### `Regex::new` on a rule-shaped string -/

/-- Meaning of one token, given the meaning `G` of group bodies. -/
def Tok.re (G : List Char → Option Re) : Tok → Option Re
  | .lit c => some (Re.chr c)
  | .grp b => G b

/-- `Regex::new(p)` (anchors are added by the callers): split, give every token its meaning,
concatenate.  `none` = compile error. -/
def mapOpt {α β : Type} (f : α → Option β) : List α → Option (List β)
  | [] => some []
  | a :: as =>
    match f a with
    | none => none
    | some b => (mapOpt f as).map (b :: ·)

def compileStr (G : List Char → Option Re) (p : List Char) : Option Re :=
  match tokTop p with
  | none => none
  | some ts => (mapOpt (Tok.re G) ts).map catAll

/-- What the tree model needs from the regex engine (`src/regex.rs` builds `^p$` for leaves and `^q`
for nodes with `RegexBuilder::case_insensitive(ignore_case)`).  First argument: `ignore_case`. -/
structure Engine where
  /-- `Regex::new("^p$")` succeeds. -/
  leafOk : Bool → List Char → Bool
  /-- `Regex::new("^p$")` succeeds and `is_match(s)`. -/
  full : Bool → List Char → List Char → Bool
  /-- `Regex::new("^q")` succeeds. -/
  nodeOk : Bool → List Char → Bool
  /-- `Regex::new("^q")` succeeds and `is_match(s)`. -/
  pre : Bool → List Char → List Char → Bool

/-- The engine induced by a meaning `G` of group bodies. -/
def engineOf (G : List Char → Option Re) : Engine where
  leafOk _ p := (compileStr G p).isSome
  full ic p s := match compileStr G p with
    | some r => fmatch ic r s
    | none => false
  nodeOk _ q := (compileStr G q).isSome
  pre ic q s := match compileStr G q with
    | some r => pmatch ic r s
    | none => false

/-- The engine used by the drivers. -/
def stdEngine : Engine := engineOf parseBody

end Rio.Regex
