/-
Model of `src/filter/filter_header.rs` and `src/filter/header_action/*.rs`.

Each header action is transcribed as the loop the Rust code runs (accumulator
`new_headers`, flag `found`); the closed forms the property talks about are
*theorems* (Props/C13.lean), not definitions.  Name comparison in the code is
`a.to_lowercase() == b.to_lowercase()`; the model takes `lower` as a parameter
(theorems hold for every `lower`), the driver instantiates it with ASCII
lower-casing and the harness generates names on which that agrees with Rust's
Unicode `to_lowercase`.
-/
import RioModel.Generated.Consts

namespace Rio.Header

structure Header where
  name : String
  value : String
deriving DecidableEq, Repr, Inhabited

/-- `api::HeaderFilter` (id / target_hash only feed the unit trace, not the result). -/
structure HeaderFilter where
  action : String
  header : String
  value : String
deriving DecidableEq, Repr, Inhabited

section
variable (lower : String → String)

/-- `header.name.to_lowercase() == self.name.to_lowercase()`. -/
def sameName (n : String) (h : Header) : Bool := lower h.name == lower n

/-- `HeaderAddAction::filter`. -/
def addAction (n v : String) (hs : List Header) : List Header :=
  hs ++ [⟨n, v⟩]

/-- `HeaderRemoveAction::filter`: the `for header in headers` loop pushing into `new_headers`. -/
def removeAction (n : String) (hs : List Header) : List Header :=
  hs.foldl (fun acc h => if !sameName lower n h then acc ++ [h] else acc) []

/-- `HeaderReplaceAction::filter`. -/
def replaceAction (n v : String) (hs : List Header) : List Header :=
  hs.foldl (fun acc h => if sameName lower n h then acc ++ [⟨n, v⟩] else acc ++ [h]) []

/-- `HeaderOverrideAction::filter`: loop with the `found` flag, then the conditional push. -/
def overrideAction (n v : String) (hs : List Header) : List Header :=
  let r := hs.foldl
    (fun (st : List Header × Bool) h =>
      if !sameName lower n h then (st.1 ++ [h], st.2) else (st.1 ++ [⟨n, v⟩], true))
    ([], false)
  if !r.2 then r.1 ++ [⟨n, v⟩] else r.1

/-- The `found` loop of `HeaderDefaultAction::filter` (with its `break`). -/
def defaultFound (n : String) : List Header → Bool
  | [] => false
  | h :: rest => if sameName lower n h then true else defaultFound n rest

/-- `HeaderDefaultAction::filter`. -/
def defaultAction (n v : String) (hs : List Header) : List Header :=
  if !defaultFound lower n hs then hs ++ [⟨n, v⟩] else hs

/-- The five actions of `create_header_action`; `none` = the final `None` of that function.
The action names are read from the source on every run (Generated/Consts.lean). -/
inductive Act where
  | add (n v : String) | remove (n : String) | replace (n v : String)
  | override (n v : String) | default (n v : String)
deriving DecidableEq, Repr

def createHeaderAction (f : HeaderFilter) : Option Act :=
  if f.action == Rio.Consts.headerActionAdd then some (.add f.header f.value)
  else if f.action == Rio.Consts.headerActionRemove then some (.remove f.header)
  else if f.action == Rio.Consts.headerActionReplace then some (.replace f.header f.value)
  else if f.action == Rio.Consts.headerActionOverride then some (.override f.header f.value)
  else if f.action == Rio.Consts.headerActionDefault then some (.default f.header f.value)
  else none

def Act.run (a : Act) (hs : List Header) : List Header :=
  match a with
  | .add n v => addAction n v hs
  | .remove n => removeAction lower n hs
  | .replace n v => replaceAction lower n v hs
  | .override n v => overrideAction lower n v hs
  | .default n v => defaultAction lower n v hs

/-- `FilterHeaderAction::new` followed by `FilterHeaderAction::filter`; `new` returning `None`
(no filter, or no known action) makes `Action::filter_headers` keep the headers. -/
def filterHeaders (fs : List HeaderFilter) (hs : List Header) : List Header :=
  if fs.isEmpty then hs
  else
    let actions := fs.filterMap createHeaderAction
    if actions.isEmpty then hs
    else actions.foldl (fun hs a => a.run lower hs) hs

/-! ### Reference operations (the specification the property states) -/

def refOp (f : HeaderFilter) (hs : List Header) : List Header :=
  if f.action == "add" then hs ++ [⟨f.header, f.value⟩]
  else if f.action == "remove" then hs.filter (fun h => !sameName lower f.header h)
  else if f.action == "replace" then
    hs.map (fun h => if sameName lower f.header h then ⟨f.header, f.value⟩ else h)
  else if f.action == "override" then
    (if hs.any (sameName lower f.header)
     then hs.map (fun h => if sameName lower f.header h then ⟨f.header, f.value⟩ else h)
     else hs ++ [⟨f.header, f.value⟩])
  else if f.action == "default" then
    (if hs.any (sameName lower f.header) then hs else hs ++ [⟨f.header, f.value⟩])
  else hs

def refFold (fs : List HeaderFilter) (hs : List Header) : List Header :=
  fs.foldl (fun hs f => refOp lower f hs) hs

end
end Rio.Header
