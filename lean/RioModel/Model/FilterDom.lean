/-
C15: the document side of the specification — a DOM type, its serialisation, its token list and the reference edit.

  `Node`       text / comment / declaration / inserted value (all emitted verbatim) or an element
               (normal, void, self-closing, raw-text) with raw attribute text and a display name (case variant)
  `serialize`  the bytes of a document
  `tokensOf`   the token list a tokenizer is expected to produce for `serialize d` on the `Simple` sub-grammar
  `edit`       the reference edit of one html filter: child semantics along the path (first element anywhere),
               append = last child, prepend = first child, replace = substitute the element; selector decision =
               a parameter applied to the target node

The harness (`harness/src/bin/c15.rs`) contains the same definitions in Rust; the driver compares the real filter
output with `serialize (editAll d filters)` computed here.
-/
import RioModel.Model.Filter

namespace Rio.Filter

inductive ElKind where
  | normal | void | selfClosing | raw
  deriving DecidableEq, Repr, Inhabited

inductive Node where
  /-- emitted verbatim; `marks` = names of the elements it contains (inserted values), `tok` = how a tokenizer sees it -/
  | verb (raw : Bytes) (marks : List Bytes)
  | el (name disp attrs : Bytes) (kind : ElKind) (children : List Node)
  deriving Repr, Inhabited

mutual
  def serialize : Node → Bytes
    | .verb raw _ => raw
    | .el _ disp attrs kind children =>
      match kind with
      | .selfClosing => [60] ++ disp ++ attrs ++ [47, 62]
      | .void => [60] ++ disp ++ attrs ++ [62]
      | _ => [60] ++ disp ++ attrs ++ [62] ++ serializeList children ++ [60, 47] ++ disp ++ [62]
  def serializeList : List Node → Bytes
    | [] => []
    | n :: ns => serialize n ++ serializeList ns
end

mutual
  /-- does the subtree (the node itself included) contain an element named `name`?  Raw-text content is text. -/
  def hasElement (name : Bytes) : Node → Bool
    | .verb _ marks => marks.contains name
    | .el nm _ _ kind children => nm == name || (kind != .raw && hasElementList name children)
  def hasElementList (name : Bytes) : List Node → Bool
    | [] => false
    | n :: ns => hasElement name n || hasElementList name ns
end

def isIdentB (b : Nat) : Bool :=
  (97 ≤ b && b ≤ 122) || (65 ≤ b && b ≤ 90) || (48 ≤ b && b ≤ 57) || b == 45

/-- the selector decision of the reference on a node (same stand-in as the drivers use for scraper) -/
def selMatches (n : Node) (sel : Bytes) : Bool :=
  if sel == [42] then true
  else if !sel.isEmpty && sel.all isIdentB then hasElement sel n
  else false

def lowerB (b : Nat) : Nat := if 65 ≤ b && b ≤ 90 then b + 32 else b

/-- names of the elements occurring in a value: every `<` followed by a letter starts one -/
def valueMarks : Bytes → List Bytes
  | [] => []
  | b :: rest =>
    if b == 60 then
      match rest with
      | c :: _ =>
        if (65 ≤ c && c ≤ 90) || (97 ≤ c && c ≤ 122) then
          ((rest.takeWhile isIdentB).map lowerB) :: valueMarks rest
        else valueMarks rest
      | [] => []
    else valueMarks rest

inductive EditOp where
  | append | prepend | replace
  deriving DecidableEq, Repr, Inhabited

/-- apply the operation to a target node -/
def applyOp (op : EditOp) (sel : Option Bytes) (ins : Node) (n : Node) : Node :=
  match op with
  | .replace => if (sel.map (selMatches n)).getD true then ins else n
  | .append =>
    if (sel.map fun s => !selMatches n s).getD true then
      match n with
      | .el nm d a k cs => .el nm d a k (cs ++ [ins])
      | v => v
    else n
  | .prepend =>
    if (sel.map fun s => !selMatches n s).getD true then
      match n with
      | .el nm d a k cs => .el nm d a k (ins :: cs)
      | v => v
    else n

def nodeName : Node → Option Bytes
  | .el nm _ _ _ _ => some nm
  | _ => none

mutual
  /-- children lists: look for `p :: ps` (child semantics below the first element; `anywhere` = still looking for the
  first element, at any depth outside raw-text elements) -/
  def editList (op : EditOp) (sel : Option Bytes) (ins : Node) (p : Bytes) (ps : List Bytes) (anywhere : Bool) :
      List Node → List Node
    | [] => []
    | n :: ns => editNode op sel ins p ps anywhere n :: editList op sel ins p ps anywhere ns
  def editNode (op : EditOp) (sel : Option Bytes) (ins : Node) (p : Bytes) (ps : List Bytes) (anywhere : Bool) :
      Node → Node
    | .verb r m => .verb r m
    | .el nm d a k cs =>
      if nm == p then
        match ps with
        | [] => applyOp op sel ins (.el nm d a k cs)
        | q :: qs => .el nm d a k (editList op sel ins q qs false cs)
      else if anywhere && k != .raw then .el nm d a k (editList op sel ins p ps true cs)
      else .el nm d a k cs
end

/-- reference edit of one html filter (`action`, path, selector, value) on a document -/
def edit (doc : List Node) (f : BodyFilter) : List Node :=
  match f with
  | .html action path sel value =>
    let op : Option EditOp :=
      if action = Rio.Consts.filterActionAppend then some .append
      else if action = Rio.Consts.filterActionPrepend then some .prepend
      else if action = Rio.Consts.filterActionReplace then some .replace
      else none
    let sel := match sel with
      | some s => if s.isEmpty then none else some s
      | none => none
    match op, path with
    | some op, p :: ps => editList op sel (.verb value (valueMarks value)) p ps true doc
    | _, _ => doc
  | .text _ _ => doc

def editAll (doc : List Node) (fs : List BodyFilter) : List Node := fs.foldl edit doc

end Rio.Filter
