/-
Model of the `request_time` variable (`src/api/variable.rs`, `VariableKind::RequestTime`) after the repair
`fix: the request_time variable no longer panics for a year outside 0..=9999`:

    request.created_at.map(|d| if (0..=9999).contains(&d.year()) { d.to_rfc2822() } else { d.to_rfc3339() })

`created_at` is a `DateTime<Utc>`: the offset is always +00:00 and the civil fields are those of the UTC
instant.  The two chrono formatters are transcribed for whole seconds (`write_rfc2822`, `write_rfc3339` with
`SecondsFormat::AutoSi`, `use_z = false`); the weekday comes from the proleptic Gregorian calendar
(days-from-civil).  Before the repair the out-of-range branch was `to_rfc2822()`, which panics there.
-/
namespace Rio.Time

structure Civil where
  year : Int
  month : Nat   -- 1..12
  day : Nat     -- 1..31
  hour : Nat
  min : Nat
  sec : Nat
deriving Repr

/-- days since 1970-01-01 (proleptic Gregorian) -/
def daysFromCivil (y : Int) (m d : Nat) : Int :=
  let y := if m ≤ 2 then y - 1 else y
  let era := Int.ediv y 400
  let yoe := y - era * 400
  let mp : Int := ((m + 9) % 12 : Nat)
  let doy := Int.ediv (153 * mp + 2) 5 + (d : Int) - 1
  let doe := yoe * 365 + Int.ediv yoe 4 - Int.ediv yoe 100 + doy
  era * 146097 + doe - 719468

/-- 0 = Sunday (1970-01-01 was a Thursday) -/
def weekdayFromSunday (c : Civil) : Nat := (Int.emod (daysFromCivil c.year c.month c.day + 4) 7).toNat

def two (n : Nat) : String :=
  String.ofList [Char.ofNat (48 + n / 10 % 10), Char.ofNat (48 + n % 10)]

def weekdays : List String := ["Sun", "Mon", "Tue", "Wed", "Thu", "Fri", "Sat"]
def months : List String := ["Jan", "Feb", "Mar", "Apr", "May", "Jun", "Jul", "Aug", "Sep", "Oct", "Nov", "Dec"]

inductive Outcome where
  | ok (s : String)
  | panic
deriving Repr

/-- `DateTime::<Utc>::to_rfc2822`: `Err` (⇒ `expect` panics) outside years 0..=9999. -/
def rfc2822 (c : Civil) : Outcome :=
  if c.year < 0 ∨ c.year > 9999 then .panic
  else
    let y := c.year.toNat
    .ok (weekdays.getD (weekdayFromSunday c) "???" ++ ", " ++
      (if c.day < 10 then toString c.day else two c.day) ++ " " ++ months.getD (c.month - 1) "???" ++ " " ++
      two (y / 100) ++ two (y % 100) ++ " " ++ two c.hour ++ ":" ++ two c.min ++ ":" ++ two c.sec ++ " +0000")

/-- `{year:+05}`: sign, then at least four digits -/
def signedYear (y : Int) : String :=
  let a := y.natAbs
  let digits := toString a
  (if y < 0 then "-" else "+") ++ String.ofList (List.replicate (4 - digits.length) '0') ++ digits

/-- `DateTime::<Utc>::to_rfc3339` for whole seconds: never fails. -/
def rfc3339 (c : Civil) : String :=
  (if 0 ≤ c.year ∧ c.year ≤ 9999 then two (c.year.toNat / 100) ++ two (c.year.toNat % 100) else signedYear c.year) ++
    "-" ++ two c.month ++ "-" ++ two c.day ++ "T" ++ two c.hour ++ ":" ++ two c.min ++ ":" ++ two c.sec ++ "+00:00"

/-- the value of a `request_time` variable, repaired code -/
def requestTime (c : Civil) : Outcome :=
  if 0 ≤ c.year ∧ c.year ≤ 9999 then rfc2822 c else .ok (rfc3339 c)

/-- … and before the repair -/
def requestTimeOld (c : Civil) : Outcome := rfc2822 c

end Rio.Time
