/-
Model of `src/regex_radix_tree/prefix.rs`.

Strings are `List Char` (the Rust code iterates `.chars()`; sizes are counted in chars).
`common_prefix_char_size` is transcribed as the loop it is: scanner state
(`group_level`, `was_escape`), position `i`, best boundary so far `prefix_length`.
`group_level` is a signed integer in the code (type inference gives `i32`) and does go negative on
an unbalanced `)`; it is an `Int` here.  (Overflow of the `i32`/`u32` counters needs a 2 GiB pattern
and is not modelled.)
-/

namespace Rio.Scan

/-- Scanner state of `common_prefix_char_size`: `group_level` and `was_escape`. -/
structure St where
  depth : Int
  esc : Bool
deriving DecidableEq, Repr

/-- One iteration of the loop body on the (common) character `c`:
```
if c == '(' && !was_escape { group_level += 1 } else if c == ')' && !was_escape { group_level -= 1 }
if c == '\\' && !was_escape { was_escape = true } else if was_escape { was_escape = false }
``` -/
def St.step (s : St) (c : Char) : St :=
  { depth := if c = '(' ∧ s.esc = false then s.depth + 1
             else if c = ')' ∧ s.esc = false then s.depth - 1 else s.depth
    esc := if c = '\\' ∧ s.esc = false then true else false }

/-- Initial state `(0, false)`. -/
def b0 : St := ⟨0, false⟩

/-- `group_level == 0 && !was_escape`. -/
def St.atBoundary (s : St) : Bool := s.depth == 0 && !s.esc

/-- The `loop` of `common_prefix_char_size`; `i` chars consumed, `best` = `prefix_length`. -/
def cpLoop : List Char → List Char → St → Nat → Nat → Nat
  | l :: ls, r :: rs, s, i, best =>
    if l ≠ r then best
    else
      let s' := s.step l
      cpLoop ls rs s' (i + 1) (if s'.atBoundary then i + 1 else best)
  | _, _, _, _, best => best

/-- `common_prefix_char_size(left, right)`. -/
def commonPrefixCharSize (l r : List Char) : Nat := cpLoop l r b0 0 0

/-- `get_prefix_with_char_size(str, size)`: the first `size` chars (all of them if shorter). -/
def getPrefixWithCharSize (s : List Char) (size : Nat) : List Char :=
  if size = 0 then [] else s.take size

/-- `common_prefix(left, right)`. -/
def commonPrefix (l r : List Char) : List Char :=
  getPrefixWithCharSize l (commonPrefixCharSize l r)

/-- Scanner state after a whole string, from state `s`. -/
def scan (s : St) (cs : List Char) : St := cs.foldl St.step s

/-- `q` is a *boundary prefix* of `p`: a prefix at which the scanner is in state `(0,false)`.
This is the shape of every node prefix the tree creates. -/
def bpre (q p : List Char) : Bool :=
  q.isPrefixOf p && (scan b0 q).atBoundary

end Rio.Scan
