/-
Model of `src/action/trace.rs` (`TraceAction::from_trace_rules`) on top of Model/Action.lean.

```
let mut routes = Trace::get_routes_from_traces(traces);      -- the listing (router model: `routesOfList`)
routes.sort_by_key(|a| a.priority());                        -- stable, key = priority = 0 - rank ONLY
for route in routes {
    let (action_rule_opt, reset, stop, _) = Action::from_route_rule(route.clone(), request);
    if let Some(action_rule) = action_rule_opt {
        if reset { current_action = action_rule } else { current_action.merge(action_rule) }
    }
    traces_action.push(TraceAction { action: current_action.clone(), rule: route.handler().clone() });
    if stop { return traces_action; }
}
```
Differences with `Action::from_routes_rule`: the sort looks at the rank only (ties keep the order of the
listing instead of being broken by id), and one step is pushed per rule, also for a rule skipped by
the sampling decision (its step repeats the current action).  The input `routes` of `traceActions`
is the listing, as rules (`route.handler()`).
-/
import RioModel.Model.Action

namespace Rio.Action

/-- `Route::priority()` of the route `IntoRoute` builds for a rule: `0 - self.rank as i64`. -/
def priorityOf (r : Rule) : Int := 0 - (r.rank : Int)

/-- `routes.sort_by_key(|a| a.priority())`: stable sort, ascending priority. -/
def traceSort (routes : List Rule) : List Rule :=
  routes.mergeSort (fun a b => decide (priorityOf a ≤ priorityOf b))

/-- `action::TraceAction`. -/
structure TraceAction where
  action : Action
  rule : Rule
deriving DecidableEq, Repr

/-- The loop of `from_trace_rules` (after the sort). -/
def traceFold (q : Req) (draw : Rule → Nat) : Action → List Rule → List TraceAction
  | _, [] => []
  | current, r :: rest =>
    let res := fromRouteRule r q (draw r)
    let current' :=
      match res.1 with
      | none => current
      | some actionRule => if res.2.1 then actionRule else current.merge actionRule
    ⟨current', r⟩ :: (if res.2.2 then [] else traceFold q draw current' rest)

/-- `TraceAction::from_trace_rules(traces, request)` given the listing of the traces. -/
def traceActions (routes : List Rule) (q : Req) (draw : Rule → Nat) : List TraceAction :=
  traceFold q draw Action.empty (traceSort routes)

/-- The action of the last step (`Action::default()` when there is no step). -/
def lastAction (steps : List TraceAction) : Action :=
  match steps.getLast? with
  | some t => t.action
  | none => Action.empty

namespace Spec

/-- Prefix through the first rule that is kept by the sampling decision and marked `stop`. -/
def throughFirstEffectiveStop (q : Req) (draw : Rule → Nat) : List Rule → List Rule
  | [] => []
  | r :: rs =>
    if effective q draw r && isStop r then [r] else r :: throughFirstEffectiveStop q draw rs

/-- `f k r` for the `k`-th element `r` (counting from `n`). -/
def mapIdxFrom {β : Type} (f : Nat → Rule → β) : Nat → List Rule → List β
  | _, [] => []
  | n, r :: rs => f n r :: mapIdxFrom f (n + 1) rs

/-- The step list in closed form: one step per rule of that prefix; step `k` shows the action of the
first `k+1` rules (`Spec.action` over their contributing rules). -/
def traceSteps (q : Req) (draw : Rule → Nat) (sorted : List Rule) : List TraceAction :=
  mapIdxFrom (fun k r => ⟨Spec.action q (contributing q draw (sorted.take (k + 1))), r⟩) 0
    (throughFirstEffectiveStop q draw sorted)

end Spec

end Rio.Action
