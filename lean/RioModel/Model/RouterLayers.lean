/-
Router model, part 2: the seven matcher layers and the router.

Nesting order (checked against the `use`/field types of the code):
  Router -> SchemeMatcher -> HostMatcher -> IpMatcher -> MethodMatcher -> HeaderMatcher
         -> DateTimeMatcher -> PathAndQueryMatcher

Every matcher of the code except the innermost one has the same shape: one always-present bucket
(`any_scheme`, `any_host`, `no_matcher`, `any_method`, `any_header`, `any_datetime`), one or two
hash maps from a key to a bucket, and a `count`; `insert`, `remove` and `batch_remove` are, line by
line, the same code in all six.  They are transcribed once (`lInsert`, `lRemove`, `lBatchRemove`
over `LState`), parametrised by the layer's `keysOf : Route → Option (List K)` (`none` = the
always-present bucket).  `match_request` and `trace` differ per layer and are transcribed per layer.

Representation choices, all invisible to the results:
* `MethodMatcher` has two maps (`methods`, `exclude_methods`); they are one association list keyed
  by `MKey = only m | exclude ms` (the two `retain` passes visit disjoint key sets).
* `HostMatcher` has a map (`static_hosts`) and a regex tree (`regex_tree_rule`); they are one
  association list keyed by `HKey = static h | dyn pattern`.  The tree is represented by its
  specification: `find h` returns the buckets of the patterns that match `h` (`Env.hostFind`).
  See `TreeSpec` in RouterSpec.lean for the obligations this puts on the tree (property C08).
* `PathAndQueryMatcher.regex_tree_rule` likewise is the list of its `(pattern, id) ↦ route` entries.
* `BTreeSet` keys of the two condition-group layers are canonical lists (`canonH`; for date-time
  groups the three possible conditions in the order of the derived `Ord`).
* `cache` only compiles regexes: the specification-level trees have no compiled state, so every
  matcher's `cache` returns its state unchanged and the budget it received; `Router::cache`'s
  loop (`RouterG.cache`) is modelled over any outermost matcher.
-/
import RioModel.Model.RouterBase

namespace Rio.Router

/-! ## PathAndQueryMatcher (innermost layer) -/

structure PathState where
  /-- `regex_tree_rule`, specification level: `(pattern, id) ↦ route`. -/
  tree : List ((Pat × String) × Route)
  /-- `static_rules : HashMap<String, HashMap<String, Arc<Route>>>` as one association list
  `(path, id) ↦ route` (an inner map exists iff some entry has that path; the code prunes empty
  inner maps, so this loses nothing). -/
  statics : List ((String × String) × Route)
  count : Nat
deriving Inhabited

def Path.empty : PathState := ⟨[], [], 0⟩

/-- `PathAndQueryMatcher::insert`. -/
def Path.insert (r : Route) (s : PathState) : PathState :=
  match r.path with
  | .static p =>
    { s with count := s.count + 1, statics := aupsert (fun _ => r) r (p, r.id) s.statics }
  | .dyn p =>
    { s with count := s.count + 1, tree := aupsert (fun _ => r) r (p, r.id) s.tree }

/-- `RegexTreeMap::remove(id)` (the first entry stored under `id`), and the
`static_rules.retain(..)` closure of `PathAndQueryMatcher::remove` (removes from the first inner
map containing `id`, then keeps everything else untouched). -/
def entryRemove {P : Type} (id : String) :
    List ((P × String) × Route) → List ((P × String) × Route) × Option Route
  | [] => ([], none)
  | e :: rest =>
    if e.1.2 = id then (rest, some e.2)
    else
      let res := entryRemove id rest
      (e :: res.1, res.2)

/-- `PathAndQueryMatcher::remove`. -/
def Path.remove (id : String) (s : PathState) : PathState × Option Route :=
  let t := entryRemove id s.tree
  match t.2 with
  | some r => ({ s with tree := t.1, count := s.count - 1 }, some r)
  | none =>
    let st := entryRemove id s.statics
    ({ s with statics := st.1, count := if st.2.isSome then s.count - 1 else s.count }, st.2)

/-- `PathAndQueryMatcher::batch_remove` (`count` is left untouched, as in the code). -/
def Path.batchRemove (ids : List String) (s : PathState) : PathState :=
  { s with
    statics := s.statics.filter (fun e => !ids.contains e.1.2),
    tree := s.tree.filter (fun e => !ids.contains e.1.2) }

section
variable (E : Env)

/-- `PathAndQueryMatcher::match_request`. -/
def Path.matchReq (s : PathState) (q : Req) : List Route :=
  (s.tree.filter (fun e => E.pathFind e.1.1 q.path)).map Prod.snd ++
    (s.statics.filter (fun e => e.1.1 == q.path)).map Prod.snd

/-- `self.static_rules.len()`: the number of distinct static paths (a path whose last rule is removed leaves the
map, in `remove` and in `batch_remove`). -/
def staticKeyCount (l : List ((String × String) × Route)) : Nat := (l.map (·.1.1)).eraseDups.length

/-- `PathAndQueryMatcher::trace` with the tree trace at specification level: one `Regex` node per
tree entry below a synthetic root; a `Storage` node lists the entry's route iff the pattern matched. -/
def Path.trace (s : PathState) (q : Req) : List Trace :=
  let leaves := s.tree.map (fun e =>
    let m := E.pathFind e.1.1 q.path
    Trace.mk m true 1 (.other "regex") [Trace.mk m true 1 (.storage (if m then [e.2] else [])) []])
  let root := Trace.mk true true s.tree.length (.other "regex") leaves
  let treeT := Trace.mk true true s.tree.length (.other "path_and_query_regex") [root]
  let found := (s.statics.filter (fun e => e.1.1 == q.path)).map Prod.snd
  let staticT : List Trace :=
    if found.isEmpty then [] else [Trace.mk true true found.length (.storage found) []]
  [treeT, Trace.mk (!staticT.isEmpty) true (staticKeyCount s.statics) (.other "path_and_query_static") staticT]

def pathOps : MOps where
  M := PathState
  empty := Path.empty
  insert := Path.insert
  remove := Path.remove
  batchRemove := Path.batchRemove
  matchReq := Path.matchReq E
  trace := Path.trace E
  len := fun s => s.count
  -- `regex_tree_rule.cache(limit, Some(level))`: the specification-level tree has no compiled state
  cache := fun limit _ s => (s, limit)

end

/-! ## The shared shape of the six outer matchers -/

structure LState (I : MOps) (K : Type) where
  any : I.M
  map : List (K × I.M)
  count : Nat

section
variable {K : Type} [DecidableEq K] (I : MOps)

def lEmpty : LState I K := ⟨I.empty, [], 0⟩

/-- `insert` of Scheme/Host/Ip/Method/Header/DateTime matcher: `count += 1`, then the route goes to
the always-present bucket or is upserted into the bucket of each of its keys (created on demand). -/
def lInsert (keysOf : Route → Option (List K)) (r : Route) (s : LState I K) : LState I K :=
  match keysOf r with
  | none => { s with any := I.insert r s.any, count := s.count + 1 }
  | some ks =>
    { s with map := ks.foldl (fun m k => aupsert (I.insert r) I.empty k m) s.map,
             count := s.count + 1 }

/-- `map.retain(|_, matcher| { if let Some(v) = matcher.remove(id) { removed = Some(v) } !matcher.is_empty() })`:
every bucket is visited, the last hit is reported, buckets whose `count` dropped to 0 are pruned. -/
def removeAll (id : String) : List (K × I.M) → List (K × I.M) × Option Route
  | [] => ([], none)
  | (k, b) :: rest =>
    let rb := I.remove id b
    let rr := removeAll id rest
    (if I.isEmpty rb.1 then rr.1 else (k, rb.1) :: rr.1, rr.2.orElse (fun _ => rb.2))

/-- `remove` of the six outer matchers. -/
def lRemove (id : String) (s : LState I K) : LState I K × Option Route :=
  let ra := I.remove id s.any
  if ra.2.isSome then
    ({ s with any := ra.1, count := s.count - 1 }, ra.2)
  else
    let rm := removeAll I id s.map
    ({ any := ra.1, map := rm.1, count := if rm.2.isSome then s.count - 1 else s.count }, rm.2)

/-- `map.retain(|_, matcher| { matcher.batch_remove(ids); !matcher.is_empty() })`. -/
def batchAll (ids : List String) (m : List (K × I.M)) : List (K × I.M) :=
  m.filterMap (fun e =>
    let b' := I.batchRemove ids e.2
    if I.isEmpty b' then none else some (e.1, b'))

/-- `batch_remove` of the six outer matchers: `count` is NOT updated (as in the code), so a bucket
emptied by a batch removal survives with a stale positive count. -/
def lBatchRemove (ids : List String) (s : LState I K) : LState I K :=
  { s with any := I.batchRemove ids s.any, map := batchAll I ids s.map }

/-- `for matcher in map.values_mut() { new_limit = matcher.cache(new_limit, level) }` (the budget is
threaded through the buckets in iteration order). -/
def cacheAll (level : Nat) : List (K × I.M) → Nat → List (K × I.M) × Nat
  | [], limit => ([], limit)
  | (k, b) :: rest, limit =>
    let rb := I.cache limit level b
    let rr := cacheAll level rest rb.2
    ((k, rb.1) :: rr.1, rr.2)

/-- `cache` of Scheme / Ip / Method / Header / DateTime matcher: the always-present bucket first,
then the keyed buckets. -/
def lCache (limit level : Nat) (s : LState I K) : LState I K × Nat :=
  let ra := I.cache limit level s.any
  let rm := cacheAll I level s.map ra.2
  ({ s with any := ra.1, map := rm.1 }, rm.2)

/-- The bucket-union every `match_request` computes, in its simplest form (used as the common
reference the per-layer transcriptions are proved equivalent to). -/
def lMatchMap (accepts : K → Req → Bool) (m : List (K × I.M)) (q : Req) : List Route :=
  m.flatMap (fun e => if accepts e.1 q then I.matchReq e.2 q else [])

end

/-- An outer matcher: the shared `insert` / `remove` / `batch_remove` / `len`, with the layer's own
bucket selection, `match_request` and `trace`. -/
def outerOps {K : Type} [DecidableEq K] (I : MOps) (keysOf : Route → Option (List K))
    (matchReq : LState I K → Req → List Route) (trace : LState I K → Req → List Trace) : MOps where
  M := LState I K
  empty := lEmpty I
  insert := lInsert I keysOf
  remove := lRemove I
  batchRemove := lBatchRemove I
  matchReq := matchReq
  trace := trace
  len := fun s => s.count
  cache := lCache I

/-! ## DateTimeMatcher and HeaderMatcher: condition groups with a per-request memo -/

section
variable {C : Type} [DecidableEq C] (I : MOps)

/-- The inner `for condition in conditions` loop of `match_request` with `execute_conditions`
(`memo`); returns whether the group is accepted (no `continue 'group`) and the new memo. -/
def evalGroup (eval : C → Bool) : List C → List (C × Bool) → Bool × List (C × Bool)
  | [], memo => (true, memo)
  | c :: cs, memo =>
    match alookup c memo with
    | none =>
      let result := eval c
      let memo := (c, result) :: memo
      if !result then (false, memo) else evalGroup eval cs memo
    | some result =>
      if !result then (false, memo) else evalGroup eval cs memo

/-- The `'group` loop of `HeaderMatcher::match_request` / `DateTimeMatcher::match_request`. -/
def matchGroups (eval : C → Bool) (q : Req) :
    List (List C × I.M) → List (C × Bool) → List Route → List Route
  | [], _, rules => rules
  | (cs, b) :: rest, memo, rules =>
    let r := evalGroup eval cs memo
    matchGroups eval q rest r.2 (if r.1 then rules ++ I.matchReq b q else rules)

/-- The inner loop of `trace` ("mimic cache behaviour"): state is (`matched`, `executed`, memo). -/
def traceGroup (eval : C → Bool) : List C → Bool → Bool → List (C × Bool) → Bool × List (C × Bool)
  | [], matched, _, memo => (matched, memo)
  | c :: cs, matched, executed, memo =>
    match alookup c memo with
    | none =>
      let result := eval c
      let matched := matched && result
      let memo := if executed then (c, matched) :: memo else memo
      traceGroup eval cs matched matched memo
    | some result =>
      let matched := matched && result
      traceGroup eval cs matched matched memo

/-- The group loop of `HeaderMatcher::trace` / `DateTimeMatcher::trace`. -/
def traceGroups (eval : C → Bool) (q : Req) (kind : String) :
    List (List C × I.M) → List (C × Bool) → List Trace → List Trace
  | [], _, traces => traces
  | (cs, b) :: rest, memo, traces =>
    let r := traceGroup eval cs true true memo
    traceGroups eval q kind rest r.2
      (traces ++ [Trace.mk r.1 true (I.len b) (.other kind) (if r.1 then I.trace b q else [])])

end

/-- `DateTimeMatcher::insert`: the `BTreeSet` of the route's conditions, in the order of the
derived `Ord` (`DateTimeRange < TimeRange < Weekdays`). -/
def DateTime.conds (r : Route) : List DCond :=
  (match r.datetime with | some d => [DCond.dateRange d] | none => []) ++
  (match r.time with | some t => [DCond.timeRange t] | none => []) ++
  (match r.weekdays with | some w => [DCond.weekdays w] | none => [])

def DateTime.keysOf (r : Route) : Option (List (List DCond)) :=
  let cs := DateTime.conds r
  if cs.isEmpty then none else some [cs]

def DateTime.matchReq (I : MOps) (s : LState I (List DCond)) (q : Req) : List Route :=
  matchGroups I (fun c => DCond.eval c q) q s.map [] (I.matchReq s.any q)

def DateTime.trace (I : MOps) (s : LState I (List DCond)) (q : Req) : List Trace :=
  traceGroups I (fun c => DCond.eval c q) q "date_time_group" s.map [] (I.trace s.any q)

def dateTimeOps (I : MOps) : MOps := outerOps I DateTime.keysOf (DateTime.matchReq I) (DateTime.trace I)

/-! ### HeaderMatcher -/

/-- A total comparison used only to give `BTreeSet<HeaderCondition>` a canonical list form
(which canonical order is used cannot be observed: it only changes the order in which the memo
is filled). -/
def HKind.tag : HKind → String
  | .isDefined => "0"
  | .isNotDefined => "1"
  | .isEquals v => "2" ++ v
  | .isNotEqualTo v => "3" ++ v
  | .contains v => "4" ++ v
  | .doesNotContain v => "5" ++ v
  | .endsWith v => "6" ++ v
  | .startsWith v => "7" ++ v
  | .matchRegex p => "8" ++ toString (repr p)

def HCond.lt (a b : HCond) : Bool :=
  a.name < b.name || (a.name == b.name && a.kind.tag < b.kind.tag)

/-- `BTreeSet::insert`. -/
def insertCond (c : HCond) : List HCond → List HCond
  | [] => [c]
  | d :: ds => if c = d then d :: ds else if c.lt d then c :: d :: ds else d :: insertCond c ds

/-- The `condition_group` set built by `HeaderMatcher::insert`. -/
def canonH (cs : List HCond) : List HCond := cs.foldl (fun acc c => insertCond c acc) []

section
variable (E : Env)

def Header.keysOf (r : Route) : Option (List (List HCond)) :=
  if r.headers.isEmpty then none else some [canonH (r.headers.map (RouteHeader.toCond E))]

def Header.matchReq (I : MOps) (s : LState I (List HCond)) (q : Req) : List Route :=
  matchGroups I (fun c => HCond.eval E c q) q s.map [] (I.matchReq s.any q)

def Header.trace (I : MOps) (s : LState I (List HCond)) (q : Req) : List Trace :=
  traceGroups I (fun c => HCond.eval E c q) q "header_group" s.map [] (I.trace s.any q)

def headerOps (I : MOps) : MOps := outerOps I (Header.keysOf E) (Header.matchReq E I) (Header.trace E I)

end

/-! ## MethodMatcher -/

inductive MKey where
  | only (m : String)
  | exclude (ms : List String)
deriving DecidableEq, Repr, Inhabited

/-- Bucket selection of `MethodMatcher::insert`.  Exclusion is requested iff the field is present
(`route.exclude_methods().is_some()`, so `Some(false)` excludes too: observation O5). -/
def Method.keysOf (r : Route) : Option (List MKey) :=
  match r.methods with
  | none => none
  | some ms =>
    if ms.isEmpty then none
    else if r.excludeMethods.isSome then some [MKey.exclude ms]
    else some (ms.map MKey.only)

def Method.accepts (k : MKey) (q : Req) : Bool :=
  match k with
  | .only m => m == q.methodStr
  | .exclude ms => !ms.contains q.methodStr

/-- `MethodMatcher::match_request`. -/
def Method.matchReq (I : MOps) (s : LState I MKey) (q : Req) : List Route :=
  let routes := I.matchReq s.any q
  let routes :=
    match alookup (MKey.only q.methodStr) s.map with
    | some b => routes ++ I.matchReq b q
    | none => routes
  routes ++ s.map.flatMap (fun e =>
    match e.1 with
    | .exclude ms => if !ms.contains q.methodStr then I.matchReq e.2 q else []
    | .only _ => [])

/-- `MethodMatcher::trace`. -/
def Method.trace (I : MOps) (s : LState I MKey) (q : Req) : List Trace :=
  let traces := I.trace s.any q
  let excl := s.map.filterMap (fun e =>
    match e.1 with
    | .exclude ms =>
      some (if !ms.contains q.methodStr
        then Trace.mk true true (I.len e.2) (.other "exclude_methods") (I.trace e.2 q)
        else Trace.mk false false (I.len e.2) (.other "exclude_methods") [])
    | .only _ => none)
  let only := s.map.filterMap (fun e =>
    match e.1 with
    | .only m =>
      some (if m == q.methodStr
        then Trace.mk true true (I.len e.2) (.other "method") (I.trace e.2 q)
        else Trace.mk false false (I.len e.2) (.other "method") [])
    | .exclude _ => none)
  let found := s.map.any (fun e => Method.accepts e.1 q)
  traces ++ excl ++ only ++ (if !found then [Trace.mk true false 0 (.other "method") []] else [])

def methodOps (I : MOps) : MOps := outerOps I Method.keysOf (Method.matchReq I) (Method.trace I)

/-! ## IpMatcher -/

def Ip.keysOf (r : Route) : Option (List RouteIp) := r.ips

def Ip.accepts (k : RouteIp) (q : Req) : Bool :=
  match q.ip with
  | none => false
  | some a => k.matchIp a

/-- `IpMatcher::match_request`. -/
def Ip.matchReq (I : MOps) (s : LState I RouteIp) (q : Req) : List Route :=
  let routes := I.matchReq s.any q
  match q.ip with
  | none => routes
  | some a =>
    s.map.foldl (fun acc e => if e.1.matchIp a then pushNew acc (I.matchReq e.2 q) else acc) routes

/-- `IpMatcher::trace`. -/
def Ip.trace (I : MOps) (s : LState I RouteIp) (q : Req) : List Trace :=
  let traces := I.trace s.any q
  match q.ip with
  | none => traces
  | some a =>
    traces ++ s.map.map (fun e =>
      if e.1.matchIp a then Trace.mk true true (I.len e.2) (.other "ip") (I.trace e.2 q)
      else Trace.mk false true (I.len e.2) (.other "ip") [])

def ipOps (I : MOps) : MOps := outerOps I Ip.keysOf (Ip.matchReq I) (Ip.trace I)

/-! ## HostMatcher -/

/-- Keys of the host buckets: a static host, or the key `P` of a marker pattern in the regex tree
(`P = Pat` for the specification-level tree, `P = List Char` – the regex string – for the real tree
model). -/
inductive HKeyG (P : Type) where
  | static (h : String)
  | dyn (p : P)
deriving DecidableEq, Repr

/-- What `HostMatcher` reads of its environment: the tree key of a pattern (`MarkerString.regex`),
`always_match_any_host`, and whether the tree's leaf for a key matches a host
(`UniqueRegexTreeMap::find`, engine + `ignore_host_case`). -/
structure HostCfg (P : Type) where
  pk : Pat → P
  always : Bool
  find : P → String → Bool

section
variable {P : Type} [DecidableEq P] (H : HostCfg P)

/-- Bucket selection of `HostMatcher::insert` (`None` and `Static("")` go to `any_host`). -/
def Host.keysOf (r : Route) : Option (List (HKeyG P)) :=
  match r.host with
  | none => none
  | some (.static h) => if h = "" then none else some [HKeyG.static h]
  | some (.dyn p) => some [HKeyG.dyn (H.pk p)]

def Host.accepts (k : HKeyG P) (q : Req) : Bool :=
  match q.host with
  | none => false
  | some h =>
    match k with
    | .static s => s == h
    | .dyn p => H.find p h

/-- One step of `for matcher in self.regex_tree_rule.find(host)`, specification level: the bucket of
a pattern is consulted iff the pattern matches. -/
def Host.dynPart (I : MOps) (h : String) (q : Req) (e : HKeyG P × I.M) : List Route :=
  match e.1 with
  | .dyn p => if H.find p h then I.matchReq e.2 q else []
  | .static _ => []

/-- The host-bound part of `HostMatcher::match_request` for `request.host() = Some(h)`
(regex tree first, then `static_hosts.get(h)`). -/
def Host.boundFor (I : MOps) (s : LState I (HKeyG P)) (q : Req) (h : String) : List Route :=
  s.map.flatMap (Host.dynPart H I h q) ++
    ((alookup (HKeyG.static h) s.map).map (fun b => I.matchReq b q)).getD []

def Host.matchBound (I : MOps) (s : LState I (HKeyG P)) (q : Req) : List Route :=
  match q.host with
  | none => []
  | some h => Host.boundFor H I s q h

/-- `HostMatcher::match_request`: the any-host bucket is consulted iff `always_match_any_host` or
no host-bound route matched. -/
def Host.matchReq (I : MOps) (s : LState I (HKeyG P)) (q : Req) : List Route :=
  let routes := Host.matchBound H I s q
  if H.always || routes.isEmpty then routes ++ I.matchReq s.any q else routes

/-- `for (host, matcher) in &self.static_hosts` of `HostMatcher::trace`. -/
def Host.staticNode (I : MOps) (q : Req) (e : HKeyG P × I.M) : Option Trace :=
  match e.1 with
  | .static h =>
    some (if q.host == some h
      then Trace.mk true true (I.len e.2) (.other "host_static") (I.trace e.2 q)
      else Trace.mk false false (I.len e.2) (.other "host_static") [])
  | .dyn _ => none

/-- `tree_trace_to_trace` at specification level: one `Regex` node per pattern; its children are
the traces of the bucket iff the pattern matched. -/
def Host.dynNode (I : MOps) (h : String) (q : Req) (e : HKeyG P × I.M) : Option Trace :=
  match e.1 with
  | .dyn p =>
    some (Trace.mk (H.find p h) true 1 (.other "regex")
      (if H.find p h then I.trace e.2 q else []))
  | .static _ => none

/-- The part of `HostMatcher::trace` inside `if let Some(host) = request.host()`. -/
def Host.traceFor (I : MOps) (s : LState I (HKeyG P)) (q : Req) (h : String) : List Trace :=
  let nodes := s.map.filterMap (Host.dynNode H I h q)
  let root := Trace.mk true true nodes.length (.other "regex") nodes
  [Trace.mk true true nodes.length (.other "host_regex") [root]] ++
    (if (alookup (HKeyG.static h) s.map).isNone
     then [Trace.mk true false 0 (.other "host_static") []] else [])

/-- The host-bound part of `HostMatcher::trace` (everything before the any-host fallback). -/
def Host.traceBound (I : MOps) (s : LState I (HKeyG P)) (q : Req) : List Trace :=
  s.map.filterMap (Host.staticNode I q) ++
    (match q.host with
     | none => []
     | some h => Host.traceFor H I s q h)

/-- `HostMatcher::trace`: the any-host bucket is traced iff `always_match_any_host` or the traces so
far list no route. -/
def Host.trace (I : MOps) (s : LState I (HKeyG P)) (q : Req) : List Trace :=
  let traces := Host.traceBound H I s q
  if H.always || (routesOfList traces).isEmpty then traces ++ I.trace s.any q else traces

def hostOps (I : MOps) : MOps := outerOps I (Host.keysOf H) (Host.matchReq H I) (Host.trace H I)

end

/-! ## SchemeMatcher -/

/-- Bucket selection of `SchemeMatcher::insert` (`None` and `Some("")` go to `any_scheme`). -/
def Scheme.keysOf (r : Route) : Option (List String) :=
  match r.scheme with
  | none => none
  | some s => if s = "" then none else some [s]

def Scheme.accepts (k : String) (q : Req) : Bool := q.scheme == some k

/-- `SchemeMatcher::match_request`. -/
def Scheme.matchReq (I : MOps) (s : LState I String) (q : Req) : List Route :=
  let routes := I.matchReq s.any q
  match q.scheme with
  | none => routes
  | some sc =>
    match alookup sc s.map with
    | some b => routes ++ I.matchReq b q
    | none => routes

/-- `SchemeMatcher::trace`. -/
def Scheme.trace (I : MOps) (s : LState I String) (q : Req) : List Trace :=
  let traces := I.trace s.any q
  let rs := q.scheme.getD ""
  let traces := traces ++ s.map.map (fun e =>
    if e.1 == rs && rs != ""
    then Trace.mk true true (I.len e.2) (.other "scheme") (I.trace e.2 q)
    else Trace.mk false false (I.len e.2) (.other "scheme") [])
  if rs != "" && (alookup rs s.map).isNone
  then traces ++ [Trace.mk true false 0 (.other "scheme") []] else traces

def schemeOps (I : MOps) : MOps := outerOps I Scheme.keysOf (Scheme.matchReq I) (Scheme.trace I)

/-! ## Router -/

/-- `router::Router` over an arbitrary outermost matcher `O` (the code instantiates it with
`SchemeMatcher<T>`; the model with the specification-level tower `towerOps E` below, or with the
tower over the real regex-tree model, RouterTreeLayers.lean). -/
structure RouterG (O : MOps) where
  matcher : O.M
  routes : List (String × Route)

/-- `routes.sort_by_key(|b| Reverse(b.priority()))` (stable). -/
def sortByPriority (rs : List Route) : List Route :=
  rs.mergeSort (fun a b => decide (b.priority ≤ a.priority))

namespace RouterG
variable (O : MOps)

def empty : RouterG O := ⟨O.empty, []⟩

/-- `Router::insert_route`. -/
def insert (r : Route) (S : RouterG O) : RouterG O :=
  ⟨O.insert r S.matcher, aupsert (fun _ => r) r r.id S.routes⟩

/-- `Router::remove`. -/
def remove (id : String) (S : RouterG O) : RouterG O × Option Route :=
  if (alookup id S.routes).isSome then
    let rm := O.remove id S.matcher
    (⟨rm.1, S.routes.filter (fun e => e.1 != id)⟩, rm.2)
  else (S, none)

/-- `Router::batch_remove`. -/
def batchRemove (ids : List String) (S : RouterG O) : RouterG O :=
  ⟨O.batchRemove ids S.matcher, S.routes.filter (fun e => !ids.contains e.1)⟩

/-- `Router::apply_change_set` (on already converted routes). -/
def applyChangeSet (added updated : List Route) (removed : List String) (S : RouterG O) : RouterG O :=
  let removed := removed ++ updated.map (·.id)
  let S := batchRemove O removed S
  let S := updated.foldl (fun S r => insert O r S) S
  added.foldl (fun S r => insert O r S) S

/-- `Router::match_request`. -/
def matchReq (S : RouterG O) (q : Req) : List Route := O.matchReq S.matcher q

/-- `Router::len`. -/
def len (S : RouterG O) : Nat := S.routes.length

/-- `Router::get_route_by_id`. -/
def getRouteById (S : RouterG O) (id : String) : Option Route := alookup id S.routes

/-- `Router::trace_request` (on the already rebuilt request). -/
def trace (S : RouterG O) (q : Req) : List Trace := O.trace S.matcher q

/-- `Router::get_route`. -/
def getRoute (S : RouterG O) (q : Req) : Option Route :=
  (sortByPriority (matchReq O S q)).head?

/-- `Router::get_trace`: (routes listed by the trace, final route). -/
def getTrace (S : RouterG O) (q : Req) : List Route × Option Route :=
  let routes := routesOfList (trace O S q)
  (routes, (sortByPriority routes).head?)

/-- `build`: a router filled by successive `insert`s. -/
def build (R : List Route) : RouterG O := R.foldl (fun S r => insert O r S) (empty O)

/-- `limit as i64`. -/
def asI64 (n : Nat) : Int := if n % 2 ^ 64 < 2 ^ 63 then (n % 2 ^ 64 : Nat) else (n % 2 ^ 64 : Nat) - 2 ^ 64

/-- The `while prev_cache_limit > 0` loop of `Router::cache`: state = (`prev_cache_limit`, `level`,
`retry`, matcher).  `fuel` bounds the iterations; the Boolean result says that the fuel ran out
(never, with the fuel `Router.cache` passes: `cache_terminates`). -/
def cacheLoop : Nat → Int → Nat → Nat → O.M → O.M × Int × Bool
  | 0, prev, _, _, m => (m, prev, true)
  | fuel + 1, prev, level, retry, m =>
    if prev > 0 then
      let r := O.cache prev.toNat level m
      let next := asI64 r.2
      if next == prev then
        if retry + 1 > 5 then (r.1, next, false)      -- `break`
        else cacheLoop fuel next (level + 1) (retry + 1) r.1
      else cacheLoop fuel next (level + 1) retry r.1
    else (m, prev, false)

/-- The initial `prev_cache_limit` of `Router::cache`: `limit as i64`, or
`(routes.len() / 10).clamp(100, 10_000)`. -/
def cachePrev (limit : Option Nat) (S : RouterG O) : Int :=
  match limit with
  | some l => asI64 l
  | none => ((max 100 (min 10000 (S.routes.length / 10)) : Nat) : Int)

/-- `Router::cache(limit)`.  The second phase (`route.compile()` of the routes' own capture regexes
while budget is left) has no effect on this model's state (routes carry no compiled state; C10). -/
def cache (limit : Option Nat) (S : RouterG O) : RouterG O :=
  ⟨(cacheLoop O ((cachePrev O limit S).toNat + 7) (cachePrev O limit S) 0 0 S.matcher).1, S.routes⟩

end RouterG

/-- `HostMatcher` over the specification-level tree: keyed by the pattern itself. -/
def specHost (E : Env) : HostCfg Pat := ⟨id, E.alwaysAnyHost, E.hostFind⟩

section
variable (E : Env)

/-- The tower `SchemeMatcher<T>` of the code, regex trees at specification level. -/
def towerOps : MOps :=
  schemeOps (hostOps (specHost E) (ipOps (methodOps (headerOps E (dateTimeOps (pathOps E))))))

/-- The router model over the specification-level tower (`config` is the environment). -/
abbrev Router := RouterG (towerOps E)

@[reducible] def Router.empty : Router E := RouterG.empty (towerOps E)
@[reducible] def Router.insert (r : Route) (S : Router E) : Router E := RouterG.insert (towerOps E) r S
@[reducible] def Router.remove (id : String) (S : Router E) : Router E × Option Route :=
  RouterG.remove (towerOps E) id S
@[reducible] def Router.batchRemove (ids : List String) (S : Router E) : Router E :=
  RouterG.batchRemove (towerOps E) ids S
@[reducible] def Router.applyChangeSet (added updated : List Route) (removed : List String)
    (S : Router E) : Router E := RouterG.applyChangeSet (towerOps E) added updated removed S
@[reducible] def Router.matchReq (S : Router E) (q : Req) : List Route := RouterG.matchReq (towerOps E) S q
@[reducible] def Router.len (S : Router E) : Nat := RouterG.len (towerOps E) S
@[reducible] def Router.getRouteById (S : Router E) (id : String) : Option Route :=
  RouterG.getRouteById (towerOps E) S id
@[reducible] def Router.trace (S : Router E) (q : Req) : List Trace := RouterG.trace (towerOps E) S q
@[reducible] def Router.getRoute (S : Router E) (q : Req) : Option Route := RouterG.getRoute (towerOps E) S q
@[reducible] def Router.getTrace (S : Router E) (q : Req) : List Route × Option Route :=
  RouterG.getTrace (towerOps E) S q
@[reducible] def Router.build (R : List Route) : Router E := RouterG.build (towerOps E) R

end

end Rio.Router
