/-
Model of the date / time primitives of the router:
  src/router/route_datetime.rs  `RouteDateTime::{from_range, match_datetime}`
  src/router/route_time.rs      `RouteTime::{from_range, match_datetime}`
  src/router/route_weekday.rs   `RouteWeekday::{from_weekdays, match_datetime}`, `impl Ord for Weekdays`
and of what they use from chrono 0.4: `DateTime<Utc>` / `NaiveDateTime` / `NaiveTime` ordering, `.time()`,
`.weekday()`, `num_days_from_monday`, and the `FromStr` parsers on the canonical texts the harness
generates.

Time is counted in **nanoseconds**: an instant (`DateTime<Utc>` / `NaiveDateTime`) is the number of ns since
1970-01-01T00:00:00Z (the model covers instants from 1970 on), a time of day (`NaiveTime`) the number of ns
since midnight (leap-second representation not modelled).  Read in the code:
* all three `match_datetime` are the same four-way match: start **inclusive** (`>=`), end **exclusive** (`<`),
  a missing bound is open;
* a bound that does not parse is logged and **left open** (`from_range` never fails);
* `RouteTime` does nothing special when `start > end`: a window "across midnight" such as 22:00–02:00 is
  simply **empty** (`t >= start && t < end` is unsatisfiable) – `Props/C01prim.lean: time_window_wrap_empty`;
* `RouteWeekday::from_weekdays` drops unparsable names and returns `None` when nothing is left;
* `Weekdays` is ordered by `Iterator::cmp` on `num_days_from_monday()` of the *vector as written* (order and
  repetitions matter); `RouteWeekday`, `RouteDateTime`, `RouteTime` derive `Ord` and are `BTreeSet` keys.
-/

namespace Rio.TimeWindow

def nsPerSec : Nat := 1000000000
def nsPerDay : Nat := 86400 * nsPerSec

/-- `RouteDateTime` / `RouteTime`: optional start and end (ns). -/
structure Window where
  start : Option Nat
  stop : Option Nat
deriving DecidableEq, Repr, Inhabited

/-- The four-way `match` of `match_datetime`. -/
def Window.matches (w : Window) (t : Nat) : Bool :=
  match w.start with
  | none =>
    match w.stop with
    | none => true
    | some e => decide (t < e)
  | some s =>
    match w.stop with
    | none => decide (t ≥ s)
    | some e => decide (t ≥ s) && decide (t < e)

/-- `datetime.naive_utc().time()`. -/
def timeOfDay (t : Nat) : Nat := t % nsPerDay

/-- `datetime.weekday().num_days_from_monday()` (1970-01-01 was a Thursday = 3). -/
def weekdayNum (t : Nat) : Nat := (t / nsPerDay + 3) % 7

/-- `RouteDateTime::match_datetime`. -/
def matchDateTime (w : Window) (t : Nat) : Bool := w.matches t

/-- `RouteTime::match_datetime`. -/
def matchTime (w : Window) (t : Nat) : Bool := w.matches (timeOfDay t)

/-! ### Week days -/

/-- `chrono::Weekday`. -/
inductive Weekday where
  | mon | tue | wed | thu | fri | sat | sun
deriving DecidableEq, Repr, Inhabited

/-- `Weekday::num_days_from_monday`. -/
def Weekday.num : Weekday → Nat
  | .mon => 0 | .tue => 1 | .wed => 2 | .thu => 3 | .fri => 4 | .sat => 5 | .sun => 6

def Weekday.ofNum (n : Nat) : Weekday :=
  match n % 7 with
  | 0 => .mon | 1 => .tue | 2 => .wed | 3 => .thu | 4 => .fri | 5 => .sat | _ => .sun

/-- `datetime.weekday()`. -/
def weekdayOf (t : Nat) : Weekday := Weekday.ofNum (weekdayNum t)

def lowerAscii (c : Char) : Char := if 'A' ≤ c ∧ c ≤ 'Z' then Char.ofNat (c.toNat + 32) else c

/-- `Weekday::from_str`: the three-letter or the full English name, ASCII case-insensitive. -/
def parseWeekday (s : String) : Option Weekday :=
  let l := String.ofList (s.toList.map lowerAscii)
  if l = "mon" ∨ l = "monday" then some .mon
  else if l = "tue" ∨ l = "tuesday" then some .tue
  else if l = "wed" ∨ l = "wednesday" then some .wed
  else if l = "thu" ∨ l = "thursday" then some .thu
  else if l = "fri" ∨ l = "friday" then some .fri
  else if l = "sat" ∨ l = "saturday" then some .sat
  else if l = "sun" ∨ l = "sunday" then some .sun
  else none

/-- `RouteWeekday` (`Weekdays(Vec<Weekday>)`). -/
structure RouteWeekday where
  days : List Weekday
deriving DecidableEq, Repr, Inhabited

/-- `RouteWeekday::from_weekdays`. -/
def RouteWeekday.fromWeekdays (texts : List String) : Option RouteWeekday :=
  let ds := texts.filterMap parseWeekday
  if ds.isEmpty then none else some ⟨ds⟩

/-- `RouteWeekday::match_datetime`. -/
def RouteWeekday.matchDateTime (r : RouteWeekday) (t : Nat) : Bool := r.days.contains (weekdayOf t)

/-- `Iterator::cmp` on the `num_days_from_monday()` of two vectors (`impl Ord for Weekdays`): lexicographic, a
proper prefix is smaller. -/
def cmpNums : List Nat → List Nat → Ordering
  | [], [] => .eq
  | [], _ :: _ => .lt
  | _ :: _, [] => .gt
  | a :: as, b :: bs => if a < b then .lt else if b < a then .gt else cmpNums as bs

/-- `Weekdays::cmp` = `RouteWeekday::cmp` (derived on the single field). -/
def RouteWeekday.cmp (a b : RouteWeekday) : Ordering := cmpNums (a.days.map Weekday.num) (b.days.map Weekday.num)

/-! ### Calendar and parsers (canonical texts) -/

def isLeap (y : Nat) : Bool := (y % 4 == 0 && y % 100 != 0) || y % 400 == 0

def daysInMonth (y m : Nat) : Nat :=
  if m = 2 then (if isLeap y then 29 else 28)
  else if m = 4 ∨ m = 6 ∨ m = 9 ∨ m = 11 then 30 else 31

/-- Days from 1970-01-01 to the civil date `y-m-d` (proleptic Gregorian; `y ≥ 1970`, `1 ≤ m ≤ 12`,
`1 ≤ d`).  The classic era / year-of-era / day-of-year computation with March as first month. -/
def daysFromCivil (y m d : Nat) : Nat :=
  let y' := if m ≤ 2 then y - 1 else y
  let era := y' / 400
  let yoe := y' - era * 400
  let mp := (m + 9) % 12
  let doy := (153 * mp + 2) / 5 + d - 1
  let doe := yoe * 365 + yoe / 4 - yoe / 100 + doy
  era * 146097 + doe - 719468

def isDigit (c : Char) : Bool := decide ('0' ≤ c) && decide (c ≤ '9')

/-- Exactly `n` decimal digits. -/
def fixedDec (n : Nat) (cs : List Char) : Option Nat :=
  if cs.length = n ∧ cs.all isDigit then some (cs.foldl (fun acc c => acc * 10 + (c.toNat - '0'.toNat)) 0)
  else none

/-- `HH:MM:SS` with an optional fraction `.d{1,9}`; returns (ns since midnight, rest of the input). -/
def parseHms (cs : List Char) : Option (Nat × List Char) :=
  match fixedDec 2 (cs.take 2), cs.drop 2, fixedDec 2 ((cs.drop 3).take 2), cs.drop 5,
      fixedDec 2 ((cs.drop 6).take 2) with
  | some h, ':' :: _, some mi, ':' :: _, some s =>
    if h < 24 ∧ mi < 60 ∧ s ≤ 60 then      -- `:60` = a leap second, accepted by chrono
      let base := ((h * 60 + mi) * 60 + s) * nsPerSec
      match cs.drop 8 with
      | '.' :: rest =>
        let ds := rest.takeWhile isDigit
        if ds.isEmpty ∨ ds.length > 9 then none
        else
          match fixedDec ds.length ds with
          | some f => some (base + f * 10 ^ (9 - ds.length), rest.drop ds.length)
          | none => none
      | rest => some (base, rest)
    else none
  | _, _, _, _, _ => none

/-- `HH:MM` (chrono's `NaiveTime::from_str` makes the seconds optional). -/
def parseHm (cs : List Char) : Option Nat :=
  match fixedDec 2 (cs.take 2), cs.drop 2, fixedDec 2 (cs.drop 3) with
  | some h, ':' :: _, some mi => if cs.length = 5 ∧ h < 24 ∧ mi < 60 then some ((h * 60 + mi) * 60 * nsPerSec) else none
  | _, _, _ => none

/-- `str::parse::<NaiveTime>()` on `HH:MM:SS[.f]` or `HH:MM`. -/
def parseNaiveTime (s : String) : Option Nat :=
  match parseHms s.toList with
  | some (t, []) => some t
  | some _ => none
  | none => parseHm s.toList

/-- Offset suffix of an RFC 3339 text: `Z` or `±HH:MM`, as (sign is minus, seconds). -/
def parseOffset (cs : List Char) : Option (Bool × Nat) :=
  match cs with
  | ['Z'] => some (false, 0)
  | sign :: rest =>
    if (sign = '+' ∨ sign = '-') ∧ rest.length = 5 then
      match fixedDec 2 (rest.take 2), rest.drop 2, fixedDec 2 (rest.drop 3) with
      | some h, ':' :: _, some mi => if h < 24 ∧ mi < 60 then some (sign = '-', (h * 60 + mi) * 60) else none
      | _, _, _ => none
    else none
  | [] => none

/-- `str::parse::<DateTime<Utc>>()` on `YYYY-MM-DDTHH:MM:SS[.f](Z|±HH:MM)`, as ns since the epoch (`none` also for
instants before 1970, which the model does not cover). -/
def parseDateTime (s : String) : Option Nat :=
  let cs := s.toList
  match fixedDec 4 (cs.take 4), cs.drop 4, fixedDec 2 ((cs.drop 5).take 2), cs.drop 7,
      fixedDec 2 ((cs.drop 8).take 2), cs.drop 10 with
  | some y, '-' :: _, some m, '-' :: _, some d, 'T' :: rest =>
    if y ≥ 1970 ∧ 1 ≤ m ∧ m ≤ 12 ∧ 1 ≤ d ∧ d ≤ daysInMonth y m then
      match parseHms rest with
      | some (tod, rest') =>
        match parseOffset rest' with
        | some (minus, off) =>
          let localNs := daysFromCivil y m d * nsPerDay + tod
          if minus then some (localNs + off * nsPerSec)
          else if off * nsPerSec ≤ localNs then some (localNs - off * nsPerSec) else none
        | none => none
      | none => none
    else none
  | _, _, _, _, _, _ => none

/-! #### Scope of the text parsers

chrono's `FromStr` implementations are far more lenient than the canonical forms (white space – any Unicode white space –
between and around the fields, one-digit fields, fractions longer than 9 digits, `+0100`, a `UTC` suffix, lower-case `t` / `z`,
a space instead of `T`, a signed year …).  The model does not chase them: its parsers are AUTHORITATIVE only on texts in scope –
texts of the canonical shape (`HH:MM[:SS[.f{1,9}]]`, resp. `YYYY-MM-DDTHH:MM:SS[.f{1,9}](Z|±HH:MM)`; the field VALUES may
be anything, e.g. `25:00:00`, Feb 30, `:60`) and texts without any digit (which no date / time parser accepts).  For any other
text the driver gives no model answer (tag `prim:out-of-scope`); the implementation is still run (panic-freedom). -/

def shapeIs (pat : List Char) (cs : List Char) : Bool :=
  cs.length == pat.length && (List.zip pat cs).all fun (p, c) => if p = '9' then isDigit c else p == c

/-- Canonical shape of a time-of-day text. -/
def timeShape (cs : List Char) : Bool :=
  shapeIs "99:99".toList cs || shapeIs "99:99:99".toList cs ||
    (shapeIs "99:99:99.".toList (cs.take 9) && (cs.drop 9).all isDigit && 1 ≤ (cs.drop 9).length && (cs.drop 9).length ≤ 9)

/-- Canonical shape of an RFC 3339 text. -/
def dateTimeShape (cs : List Char) : Bool :=
  shapeIs "9999-99-99T".toList (cs.take 11) &&
    (let rest := cs.drop 11
     let tz := if rest.getLast? == some 'Z' then 1 else 6
     let t := rest.take (rest.length - tz)
     let z := rest.drop (rest.length - tz)
     (timeShape t && t.length ≥ 8) && (z == ['Z'] || shapeIs "+99:99".toList z || shapeIs "-99:99".toList z))

def noDigit (cs : List Char) : Bool := !cs.any isDigit

def timeTextInScope (s : String) : Bool := timeShape s.toList || noDigit s.toList
def dateTimeTextInScope (s : String) : Bool := dateTimeShape s.toList || noDigit s.toList

/-- `RouteDateTime::from_range`: a bound that is absent or does not parse is open. -/
def dateTimeFromRange (start stop : Option String) : Window :=
  ⟨start.bind parseDateTime, stop.bind parseDateTime⟩

/-- `RouteTime::from_range`. -/
def timeFromRange (start stop : Option String) : Window :=
  ⟨start.bind parseNaiveTime, stop.bind parseNaiveTime⟩

end Rio.TimeWindow
