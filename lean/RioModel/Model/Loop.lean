/-
Model of `src/api/redirection_loop.rs` (`RedirectionLoop::compute`).

The walker is transcribed statement by statement.  Everything it asks of the rest of the library in
one turn of the loop — build the request from the example with the current url and method
(`Request::from_example`), `Router::match_request`, `Action::from_routes_rule`, the two
`get_status_code` calls, `filter_headers`, the search for the first `Location` header and
`join_url(current_url, value)` — is ONE abstract parameter

    step : U → M → StepOut U        (current url, current method) ↦ what that turn observed

and the project-domain test at the end of the turn
(`Url::parse(&current_url)` succeeds ∧ `!project_domains.is_empty()` ∧ host ∉ project_domains)
is the second parameter `ext : U → Bool`.  Theorems hold for every `step` and `ext`; the
correspondence (harness c19) records the table the real pipeline produced for every (url, method)
it visited and the driver runs this model on that very table.

`U` (urls) and `M` (methods) are arbitrary types with decidable equality (the code compares
`String`s with `==`); `get : M` is the method the 301/302 rewrite installs.  The status tables
(`REDIRECTION_CODES`, `[301, 302]`) are regenerated from the source on every run (Rio.Consts).
-/
import RioModel.Generated.Consts

namespace Rio.Loop

/-- `enum RedirectionError`. -/
inductive Err where
  | atLeastOneHop | tooManyHops | loop
deriving DecidableEq, Repr, Inhabited

/-- `struct RedirectionHop`. -/
structure Hop (U M : Type) where
  url : U
  status : Nat
  method : M
deriving DecidableEq, Repr

/-- What one turn of the loop observes for the current `(url, method)`:
* `reqErr`      – `Request::from_example` returned `Err` (→ `break`);
* `resp st loc` – the final status code and, if the filtered headers contain a `Location` header
                  (first one, name compared lower-cased), `join_url(current_url, value)`. -/
inductive StepOut (U : Type) where
  | reqErr
  | resp (status : Nat) (location : Option U)
deriving Repr

/-- The mutable variables of `compute`: `current_url`, `current_method`, `hops`, `error`. -/
structure State (U M : Type) where
  url : U
  method : M
  hops : List (Hop U M)
  error : Option Err
deriving Repr

section
variable {U M : Type} [DecidableEq U] [DecidableEq M]

/-- `hop.url == current_url && hop.method == current_method`. -/
def sameKey (u : U) (m : M) (h : Hop U M) : Bool := h.url == u && h.method == m

/-- `REDIRECTION_CODES.contains(&final_status_code)`. -/
def isRedirect (s : Nat) : Bool := Rio.Consts.redirectionCodes.contains s

/-- `[301, 302].contains(&final_status_code)`. -/
def rewritesToGet (s : Nat) : Bool := Rio.Consts.loopGetRewriteCodes.contains s

/-- `current_url = …; current_method = …; hops.push(hop)` with the value of `error` after the turn. -/
def State.push (st : State U M) (hop : Hop U M) (err : Option Err) : State U M :=
  { url := hop.url, method := hop.method, hops := st.hops ++ [hop], error := err }

variable (step : U → M → StepOut U) (ext : U → Bool) (get : M) (maxHops : Nat)

/-- The body of `'outer: for i in 1..=max_hops { … }` for one value of `i`.
Returns the new state and `true` to go on with `i + 1`, `false` for every `break`. -/
def body (i : Nat) (st : State U M) : State U M × Bool :=
  match step st.url st.method with
  | .reqErr => (st, false)                                   -- Err(err) => { log; break }
  | .resp status loc =>
    if !isRedirect status then (st, false)                   -- if !REDIRECTION_CODES.contains(..) { break }
    else
      match loc with
      | none => (st, false)                                  -- if !found { break }
      | some newUrl =>                                       -- current_url = join_url(..); found = true
        -- if i > 1 { error = Some(AtLeastOneHop) }
        let err1 := if i > 1 then some Err.atLeastOneHop else st.error
        -- if [301, 302].contains(&final_status_code) { current_method = "GET" }
        let method := if rewritesToGet status then get else st.method
        let hop : Hop U M := ⟨newUrl, status, method⟩
        -- for hop in hops.iter() { if hop.url == current_url && hop.method == current_method { push; Loop; break 'outer } }
        if st.hops.any (sameKey newUrl method) then
          (st.push hop (some Err.loop), false)
        else
          -- hops.push(..)
          let st' := st.push hop err1
          -- if let Ok(url) = Url::parse(&current_url) { if !project_domains.is_empty() && !contains(host) { break } }
          if ext newUrl then (st', false)
          -- if i >= max_hops { error = Some(TooManyHops); break }
          else if i ≥ maxHops then (st.push hop (some Err.tooManyHops), false)
          else (st', true)

/-- `for i in i..=…`: `n` is the number of values of `i` still to run. -/
def run : Nat → Nat → State U M → State U M
  | _, 0, st => st
  | i, n + 1, st =>
    match body step ext get maxHops i st with
    | (st', true) => run (i + 1) n st'
    | (st', false) => st'

/-- The state before the loop: `hops = vec![RedirectionHop { url, status_code: 0, method }]`. -/
def init (url : U) (method : M) : State U M :=
  { url := url, method := method, hops := [⟨url, 0, method⟩], error := none }

/-- `RedirectionLoop::compute`; `url = example.url`, `method = example.method.unwrap_or("GET")`
(the `unwrap_or` is done by the caller of the model).  `1..=max_hops` runs `max_hops` values. -/
def compute (url : U) (method : M) : State U M :=
  run step ext get maxHops 1 maxHops (init url method)

/-! Instrumented copy counting the evaluations of `step` (= router matches): used by C07
(`compute` performs at most `max_hops` of them, whatever `step` is). -/
def runCount : Nat → Nat → State U M → Nat → State U M × Nat
  | _, 0, st, c => (st, c)
  | i, n + 1, st, c =>
    match body step ext get maxHops i st with
    | (st', true) => runCount (i + 1) n st' (c + 1)
    | (st', false) => (st', c + 1)

def computeCount (url : U) (method : M) : State U M × Nat :=
  runCount step ext get maxHops 1 maxHops (init url method) 0

/-- The `(url, method)` pairs of the hops. -/
def keys (hs : List (Hop U M)) : List (U × M) := hs.map fun h => (h.url, h.method)

end

/-! ### Table-driven instance used by the driver -/

/-- One observed row: for `(url, method)` the real pipeline gave `out`, and `ext` is the
project-domain break evaluated on the joined location (when there is one). -/
structure Row where
  url : String
  method : String
  out : StepOut String
  ext : Bool

def tableStep (rows : List Row) (u m : String) : StepOut String :=
  match rows.find? (fun r => r.url == u && r.method == m) with
  | some r => r.out
  | none => .reqErr

/-- `ext` is a property of the *target* url only (it does not depend on the method). -/
def tableExt (rows : List Row) (u : String) : Bool :=
  rows.any fun r =>
    match r.out with
    | .resp _ (some l) => l == u && r.ext
    | _ => false

/-- The `redirection_loop` field of `ExplainRequestOutput::create_result`: the analysis first builds
the request of the example itself (`Err` ⇒ the whole explain answers with an error message), then
calls `RedirectionLoop::from_example`.  `none` = error message. -/
def explainLoop (rows : List Row) (maxHops : Nat) (url method : String) : Option (State String String) :=
  match tableStep rows url method with
  | .reqErr => none
  | _ => some (compute (tableStep rows) (tableExt rows) Rio.Consts.loopRewriteMethod maxHops url method)

end Rio.Loop
