//! Shared by c01 / c02 / c17: the abstract rule / request descriptions (same JSON the Lean drivers
//! parse, see lean/RioModel/Model/RouterJson.lean), their translation into the real
//! `redirectionio::api::Rule` / `redirectionio::http::Request`, and the generator ("trigger grammar"
//! built to collide buckets of every matcher layer).
//!
//! The descriptions say what a rule MEANS (UTC instants, seconds since midnight, week-day numbers, networks as
//! address + prefix length); how the texts of the real rule are WRITTEN is decided here and is invisible to the
//! model, so that an implementation which depends on the spelling disagrees with it:
//!   bound of a `datetime` / `time` window:
//!       null | nat | {"t":nat, "off":minutes east of UTC?, "ns":nat?, "z":bool?, "hm":bool?} | {"bad":text}
//!       ("off"/"z" only for dates, "hm" = `HH:MM` only for times; "ns" > 0 = the next whole second for the
//!       whole-second instants of the requests; "bad" = a text of BAD_DATES / BAD_TIMES: the bound is absent)
//!   "weekdays":[0..6 | null], "wdstyle":0..5 — spelling of the day names; null = a text chrono rejects (dropped)
//!   cidr {"neg","ip","bits"}: written `ip/bits` even if that is not a network (host bits set, prefix too
//!       long): the library drops such a range when the rule is read, and so does the model
//!   request "at":nat (UTC), "atoff":minutes — the zone the instant is written in
//! Diff-directed search: see `hint_block` / `the_hints` (env VERIF_HINTS set by ./check when the library
//! differs from the committed baseline).
#![allow(dead_code)]

use redirectionio::api::Rule;
use redirectionio::http::Request;
use redirectionio::RouterConfig;
use rio_harness::Prng;
use serde_json::{json, Value};
use std::net::{IpAddr, Ipv4Addr, Ipv6Addr};

// ------------------------------------------------------------------------------------------------
// description -> real objects
// ------------------------------------------------------------------------------------------------

pub fn config_of(cfg: &Value) -> Option<RouterConfig> {
    let b = |k: &str| cfg.get(k).and_then(|v| v.as_bool());
    serde_json::from_value(json!({
        "ignore_host_case": b("ihc")?,
        "ignore_header_case": b("ihdc")?,
        "ignore_path_and_query_case": b("ipc")?,
        "always_match_any_host": b("any")?,
        "ignore_marketing_query_params": true,
        "pass_marketing_query_params_to_target": true,
    }))
    .ok()
}

/// Characters on which URL normalisation, percent-encoding and `regex::escape` + marker replacement
/// behave as the model assumes (identity up to lower-casing / escaping of single characters).
fn text_ok(s: &str, path: bool) -> bool {
    if path && !s.starts_with('/') {
        return false;
    }
    // ':' (a port) only in hosts: in a path it would be subject to URL normalisation
    // '(' ')' '+' '$' '*' (path only): regex meta characters that URL normalisation leaves alone; `regex::escape` turns each
    // into a two-character escape, which the prefix scanner of the radix tree must step over as ONE literal (seed r8a-1)
    s.chars().all(|c| c.is_ascii_alphanumeric() || matches!(c, '/' | '-' | '_' | '.' | '@') || (c == ':' && !path) || (path && matches!(c, '(' | ')' | '+' | '$' | '*')))
}

fn plain_ok(s: &str) -> bool {
    s.chars().all(|c| c.is_ascii_alphanumeric() || matches!(c, '-' | '_' | '.' | ' ' | '/' | '@' | '='))
}

pub fn marker_regex(c: char) -> Option<&'static str> {
    match c {
        'd' => Some("[0-9]+"),
        'l' => Some("[a-z]+"),
        's' => Some("[^/]+"),
        'x' => Some(".*"),
        _ => None,
    }
}

pub fn ip_of(v: &Value) -> Option<IpAddr> {
    let gs: Vec<u64> = v.as_array()?.iter().map(|x| x.as_u64()).collect::<Option<Vec<u64>>>()?;
    if gs.len() == 4 && gs.iter().all(|g| *g < 256) {
        Some(IpAddr::V4(Ipv4Addr::new(gs[0] as u8, gs[1] as u8, gs[2] as u8, gs[3] as u8)))
    } else if gs.len() == 8 && gs.iter().all(|g| *g < 65536) {
        Some(IpAddr::V6(Ipv6Addr::new(
            gs[0] as u16, gs[1] as u16, gs[2] as u16, gs[3] as u16, gs[4] as u16, gs[5] as u16, gs[6] as u16, gs[7] as u16,
        )))
    } else {
        None
    }
}

fn ip_num(ip: &IpAddr) -> (u32, u128) {
    match ip {
        IpAddr::V4(a) => (32, u32::from(*a) as u128),
        IpAddr::V6(a) => (128, u128::from(*a)),
    }
}

/// "10.0.0.0/8".  The text is written as described even if it is not a network (prefix longer than the
/// address, host part not zero): `Rule::route_ips` drops such a range, and so does the model
/// (`Rio.Router.J.cidrOf`).
fn cidr_string(v: &Value) -> Option<String> {
    let ip = ip_of(v.get("ip")?)?;
    let bits = v.get("bits")?.as_u64()?;
    if bits > 255 {
        return None;
    }
    Some(format!("{}/{}", ip, bits))
}

/// epoch seconds -> "YYYY-MM-DDTHH:MM:SS+00:00" (civil-from-days, proleptic Gregorian)
pub fn rfc3339(t: u64) -> String {
    format!("{}+00:00", civil(t))
}

/// epoch seconds -> "YYYY-MM-DDTHH:MM:SS" (civil-from-days, proleptic Gregorian)
fn civil(t: u64) -> String {
    let days = (t / 86400) as i64;
    let secs = t % 86400;
    let z = days + 719468;
    let era = z.div_euclid(146097);
    let doe = z.rem_euclid(146097);
    let yoe = (doe - doe / 1460 + doe / 36524 - doe / 146096) / 365;
    let y = yoe + era * 400;
    let doy = doe - (365 * yoe + yoe / 4 - yoe / 100);
    let mp = (5 * doy + 2) / 153;
    let d = doy - (153 * mp + 2) / 5 + 1;
    let m = if mp < 10 { mp + 3 } else { mp - 9 };
    let y = if m <= 2 { y + 1 } else { y };
    format!("{:04}-{:02}-{:02}T{:02}:{:02}:{:02}", y, m, d, secs / 3600, (secs / 60) % 60, secs % 60)
}

fn fraction(ns: u64) -> String {
    if ns == 0 {
        return String::new();
    }
    let digits = format!("{:09}", ns);
    format!(".{}", digits.trim_end_matches('0'))
}

/// The UTC instant `t` (+ `ns` nanoseconds) written as the local time of the zone `off` minutes east of UTC:
/// `2020-01-01T14:00:00+02:00` for t = 12:00:00Z, off = 120.  `None` if the local time is before the epoch.
pub fn rfc3339_at(t: u64, off: i64, ns: u64, z: bool) -> Option<String> {
    if off.abs() >= 24 * 60 || ns >= 1_000_000_000 || (z && off != 0) {
        return None;
    }
    let local = t as i64 + off * 60;
    if local < 0 {
        return None;
    }
    let suffix = if z { "Z".to_string() } else { format!("{}{:02}:{:02}", if off < 0 { '-' } else { '+' }, off.abs() / 60, off.abs() % 60) };
    Some(format!("{}{}{}", civil(local as u64), fraction(ns), suffix))
}

/// Texts no chrono parser accepts as a date-time / a time of day / a week day.
pub const BAD_DATES: &[&str] = &["", "tomorrow", "2020-01-01", "2020-13-01T00:00:00Z", "2020-01-01T25:00:00+00:00", "1577836800"];
pub const BAD_TIMES: &[&str] = &["", "noon", "25:00:00", "14", "14:60"];
pub const BAD_WEEKDAY: &str = "Funday";

/// (UTC second, offset minutes, nanoseconds) of a bound that is a number or a `{"t",..}` object
pub fn bound_parts(x: &Value) -> Option<(u64, i64, u64)> {
    match x {
        Value::Number(_) => Some((x.as_u64()?, 0, 0)),
        Value::Object(o) if o.contains_key("t") => Some((
            o.get("t")?.as_u64()?,
            o.get("off").and_then(|v| v.as_i64()).unwrap_or(0),
            o.get("ns").and_then(|v| v.as_u64()).unwrap_or(0),
        )),
        _ => None,
    }
}

/// The text of one bound of a `datetime` (`time == false`) or `time` window.
/// bound: null | nat | {"t":nat, "off":int?, "ns":nat?, "z":bool?, "hm":bool?} | {"bad":text}
fn bound_text(x: &Value, time: bool) -> Result<Value, ()> {
    let max_excl: u64 = if time { 86_400 } else { 4_000_000_000 };
    match x {
        Value::Null => Ok(Value::Null),
        Value::Number(_) => {
            let n = x.as_u64().ok_or(())?;
            if n >= max_excl {
                return Err(());
            }
            Ok(Value::String(if time { hms(n) } else { rfc3339(n) }))
        }
        Value::Object(o) => {
            if let Some(b) = o.get("bad") {
                // only texts known to be rejected: the model treats the bound as absent
                let b = b.as_str().ok_or(())?;
                let known = if time { BAD_TIMES } else { BAD_DATES };
                if o.len() != 1 || !known.contains(&b) {
                    return Err(());
                }
                return Ok(json!(b));
            }
            for k in o.keys() {
                if !["t", "off", "ns", "z", "hm"].contains(&k.as_str()) {
                    return Err(());
                }
            }
            let t = o.get("t").and_then(|v| v.as_u64()).ok_or(())?;
            if t >= max_excl {
                return Err(());
            }
            let ns = match o.get("ns") {
                None => 0,
                Some(v) => v.as_u64().ok_or(())?,
            };
            let flag = |k: &str| match o.get(k) {
                None => Ok(false),
                Some(v) => v.as_bool().ok_or(()),
            };
            if ns >= 1_000_000_000 {
                return Err(());
            }
            if time {
                if o.contains_key("off") || o.contains_key("z") {
                    return Err(());
                }
                if flag("hm")? {
                    if t % 60 != 0 || ns != 0 {
                        return Err(());
                    }
                    return Ok(json!(format!("{:02}:{:02}", t / 3600, (t / 60) % 60)));
                }
                Ok(json!(format!("{}{}", hms(t), fraction(ns))))
            } else {
                if o.contains_key("hm") {
                    return Err(());
                }
                let off = match o.get("off") {
                    None => 0,
                    Some(v) => v.as_i64().ok_or(())?,
                };
                rfc3339_at(t, off, ns, flag("z")?).map(Value::String).ok_or(())
            }
        }
        _ => Err(()),
    }
}

fn hms(t: u64) -> String {
    format!("{:02}:{:02}:{:02}", t / 3600, (t / 60) % 60, t % 60)
}

const WEEKDAYS: [&str; 7] = ["Monday", "Tuesday", "Wednesday", "Thursday", "Friday", "Saturday", "Sunday"];

/// the spellings of a week day chrono's `Weekday::from_str` accepts (long or three-letter form, any case)
pub const WEEKDAY_STYLES: u64 = 6;
fn weekday_text(n: usize, style: u64) -> Option<String> {
    let long = WEEKDAYS[n];
    Some(match style {
        0 => long.to_string(),
        1 => long.to_lowercase(),
        2 => long.to_uppercase(),
        3 => long[..3].to_string(),
        4 => long[..3].to_lowercase(),
        5 => long.chars().enumerate().map(|(i, c)| if i % 2 == 0 { c.to_ascii_lowercase() } else { c.to_ascii_uppercase() }).collect(),
        _ => return None,
    })
}
pub const HEADER_KINDS: [&str; 9] =
    ["is_defined", "is_not_defined", "is_equals", "is_not_equal_to", "contains", "does_not_contain", "ends_with", "starts_with", "match_regex"];

fn opt_str(v: &Value, k: &str) -> Result<Option<String>, ()> {
    match v.get(k) {
        None | Some(Value::Null) => Ok(None),
        Some(Value::String(s)) => Ok(Some(s.clone())),
        _ => Err(()),
    }
}

fn ranges(v: &Value, k: &str, time: bool) -> Result<Option<Value>, ()> {
    match v.get(k) {
        None | Some(Value::Null) => Ok(None),
        Some(Value::Array(a)) => {
            let mut out = Vec::new();
            for r in a {
                let r = r.as_array().ok_or(())?;
                if r.len() != 2 {
                    return Err(());
                }
                let mut pair = Vec::new();
                for x in r {
                    pair.push(bound_text(x, time)?);
                }
                out.push(Value::Array(pair));
            }
            Ok(Some(Value::Array(out)))
        }
        _ => Err(()),
    }
}

/// The JSON of the real rule; `extra` is merged in (target, filters, … used by c17).
pub fn rule_json(d: &Value, extra: Option<&Value>) -> Option<Value> {
    let id = d.get("id")?.as_str()?;
    if id.is_empty() || !id.chars().all(|c| c.is_ascii_alphanumeric() || c == '-') {
        return None;
    }
    let rank = d.get("rank")?.as_u64()?;
    if rank > 60000 {
        return None;
    }
    let mut source = serde_json::Map::new();
    let scheme = opt_str(d, "scheme").ok()?;
    if let Some(s) = &scheme {
        if !plain_ok(s) {
            return None;
        }
        source.insert("scheme".into(), json!(s));
    }
    let host = opt_str(d, "host").ok()?;
    if let Some(h) = &host {
        if !text_ok(h, false) {
            return None;
        }
        source.insert("host".into(), json!(h));
    }
    let path = d.get("path")?.as_str()?;
    if !text_ok(path, true) {
        return None;
    }
    source.insert("path".into(), json!(path));
    let markers: Vec<char> = match d.get("markers") {
        None | Some(Value::Null) => Vec::new(),
        Some(Value::String(s)) => s.chars().collect(),
        _ => return None,
    };
    let mut marker_json = Vec::new();
    for (i, c) in markers.iter().enumerate() {
        if markers[..i].contains(c) {
            return None;
        }
        marker_json.push(json!({"name": c.to_string(), "regex": marker_regex(*c)?}));
    }
    match d.get("ips") {
        None | Some(Value::Null) => {}
        Some(Value::Array(a)) => {
            let mut out = Vec::new();
            for c in a {
                let s = cidr_string(c)?;
                if c.get("neg")?.as_bool()? {
                    out.push(json!({"not_in_range": s}));
                } else {
                    out.push(json!({"in_range": s}));
                }
            }
            source.insert("ips".into(), Value::Array(out));
        }
        _ => return None,
    }
    match d.get("methods") {
        None | Some(Value::Null) => {}
        Some(Value::Array(a)) => {
            for m in a {
                if !plain_ok(m.as_str()?) {
                    return None;
                }
            }
            source.insert("methods".into(), Value::Array(a.clone()));
        }
        _ => return None,
    }
    match d.get("exclude") {
        None | Some(Value::Null) => {}
        Some(Value::Bool(b)) => {
            source.insert("exclude_methods".into(), json!(b));
        }
        _ => return None,
    }
    match d.get("headers") {
        None | Some(Value::Null) => {}
        Some(Value::Array(a)) => {
            let mut out = Vec::new();
            for h in a {
                let name = h.get("name")?.as_str()?;
                let kind = h.get("kind")?.as_str()?;
                let value = opt_str(h, "value").ok()?;
                if !plain_ok(name) || !value.as_deref().map(plain_ok).unwrap_or(true) {
                    return None;
                }
                out.push(json!({"type": kind, "name": name, "value": value}));
            }
            source.insert("headers".into(), Value::Array(out));
        }
        _ => return None,
    }
    if let Some(v) = ranges(d, "datetime", false).ok()? {
        source.insert("datetime".into(), v);
    }
    if let Some(v) = ranges(d, "time", true).ok()? {
        source.insert("time".into(), v);
    }
    let wdstyle = match d.get("wdstyle") {
        None | Some(Value::Null) => 0,
        Some(v) => v.as_u64()?,
    };
    match d.get("weekdays") {
        None | Some(Value::Null) => {}
        Some(Value::Array(a)) => {
            let mut out = Vec::new();
            for w in a {
                if w.is_null() {
                    // a text the parser rejects: dropped by `RouteWeekday::from_weekdays` (and by the model)
                    out.push(json!(BAD_WEEKDAY));
                    continue;
                }
                let n = w.as_u64()? as usize;
                if n >= 7 {
                    return None;
                }
                out.push(json!(weekday_text(n, wdstyle)?));
            }
            source.insert("weekdays".into(), Value::Array(out));
        }
        _ => return None,
    }
    let mut rule = json!({"id": id, "rank": rank, "source": Value::Object(source), "markers": marker_json});
    if let Some(Value::Object(m)) = extra {
        for (k, v) in m {
            rule[k] = v.clone();
        }
    }
    Some(rule)
}

pub fn rule_of(d: &Value, extra: Option<&Value>) -> Option<Rule> {
    serde_json::from_value(rule_json(d, extra)?).ok()
}

/// `Request::from_config` + `add_header(.., ignore_header_case)` + `created_at`.
pub fn request_of(config: &RouterConfig, d: &Value) -> Option<Request> {
    let path = d.get("path")?.as_str()?;
    if !text_ok(path, true) || path.contains('@') {
        return None;
    }
    let host = opt_str(d, "host").ok()?;
    if let Some(h) = &host {
        if !text_ok(h, false) {
            return None;
        }
    }
    let scheme = opt_str(d, "scheme").ok()?;
    let method = opt_str(d, "method").ok()?;
    let ip = match d.get("ip") {
        None | Some(Value::Null) => None,
        Some(v) => Some(ip_of(v)?),
    };
    let mut request = Request::from_config(config, path.to_string(), host, scheme, method, ip, None);
    match d.get("headers") {
        None | Some(Value::Null) => {}
        Some(Value::Array(a)) => {
            for h in a {
                let h = h.as_array()?;
                if h.len() != 2 {
                    return None;
                }
                let (n, v) = (h[0].as_str()?, h[1].as_str()?);
                if !plain_ok(n) || !plain_ok(v) {
                    return None;
                }
                request.add_header(n.to_string(), v.to_string(), config.ignore_header_case);
            }
        }
        _ => return None,
    }
    request.created_at = None;
    match d.get("at") {
        None | Some(Value::Null) => {}
        Some(v) => {
            let t = v.as_u64()?;
            if t >= 4_000_000_000 {
                return None;
            }
            // "atoff": the zone (minutes east of UTC) the instant is written in; the model does not see it
            let off = match d.get("atoff") {
                None | Some(Value::Null) => 0,
                Some(o) => o.as_i64()?,
            };
            request.set_created_at(Some(rfc3339_at(t, off, 0, false)?));
            request.created_at?;
        }
    }
    Some(request)
}

// ------------------------------------------------------------------------------------------------
// generator
// ------------------------------------------------------------------------------------------------

const SCHEMES: &[&str] = &["http", "https", ""];
// upper-case letters also in the LITERAL part of marker patterns: under the ignore-case flags the
// regex trees must match them case-insensitively (and keep doing so after having been emptied).
// Hosts with a port, a trailing dot, punycode labels: the library compares host texts as they are.
const HOSTS: &[&str] = &[
    "a.com", "A.com", "b.com", "", "www.a.com", "@l.com", "@s.a.com", "a@d.com", "@x", "shop-@d.a.com", "A@d.com", "Shop-@d.A.com", "@l.COM", "B.com",
    "a.com:8080", "a.com.", "xn--bcher-kva.de", "XN--Bcher-KVA.de", "a.com:@d", "@l.com:80", "A.COM:8080", "@l.com.",
];
const REQ_HOSTS: &[&str] = &[
    "a.com", "A.com", "b.com", "www.a.com", "x.com", "abc.com", "w.a.com", "a1.com", "a12.com", "shop-7.a.com", "SHOP-7.A.COM", "", "A1.com", "abc.COM", "B.COM",
    "a.com:8080", "A.COM:8080", "a.com:80", "a.com.", "A.com.", "abc.com:80", "abc.com.", "xn--bcher-kva.de", "XN--BCHER-KVA.DE", "a.com:", "a.com..",
];
const PATHS: &[&str] = &[
    "/", "/a", "/A", "/a/b", "/a/@d", "/a/@l", "/a/@s", "/a/@s/c", "/a/@d/c", "/@x", "/a@x", "/b/@d-@l", "/a/b/c", "/a/1", "/a.b", "/x_y", "/A/@d", "/A/B", "/Ab@x",
    "/B/@d-@l", "/a/@s/C",
    // literal regex meta characters in front of / between / after markers (escaped by `regex::escape`; seed r8a-1)
    "/w/f_(b)/@s/e", "/w/f_(b)/@s/h", "/w/f_(b)/@d", "/a(1)@d", "/a(1)@d/c", "/a)/@s/(c", "/a)/@s/(d", "/a+b/@d$", "/a+b/@d*", "/w/f_(b)/@s",
];
const REQ_PATHS: &[&str] = &[
    "/", "/a", "/A", "/a/b", "/a/1", "/a/12", "/a/x", "/a/B", "/a/1/c", "/a/b/c", "/b/1-x", "/b/1-", "/a.b", "/x_y", "/zzz", "/a/", "/A/1", "/A/B", "/AB", "/abq",
    "/B/1-x", "/a/x/C",
    "/w/f_(b)/q/e", "/w/f_(b)/q/h", "/w/f_(b)/12", "/a(1)7", "/a(1)7/c", "/a)/z/(c", "/a)/z/(d", "/a+b/3$", "/a+b/3*", "/w/f_(b)/q", "/w/f_b/q/e",
];
// method names are compared as they are (no case folding anywhere)
const METHODS: &[&str] = &["GET", "POST", "PUT", "get", "DELETE", "Get", "post", "gEt"];
const HNAMES: &[&str] = &["X-A", "x-a", "X-B", "Accept", "ACCEPT", "x-B"];
const HVALUES: &[&str] = &["", "v", "V", "val", "value", "al", "x", "v-@d", "V-@d", "@l", "v ", "val  ", " v"];
const REQ_HVALUES: &[&str] = &["", "v", "V", "val", "value", "VALUE", "x", "v-1", "V-1", "xv-12y", "abc", "v ", "val  ", " v", "V "];

// instants around which windows are built (2020-01-01T00:00:00Z is a Wednesday)
const T0: u64 = 1_577_836_800;
const INSTANTS: &[u64] = &[T0 - 1, T0, T0 + 1, T0 + 52_200, T0 + 86_399, T0 + 86_400, T0 + 14 * 86_400, T0 + 7 * 86_400 - 1, T0 - 86_400];
const TIMES: &[u64] = &[0, 1, 52_199, 52_200, 52_201, 54_000, 86_399, 60, 86_340];
// zones (minutes east of UTC) in which rule bounds and request instants are WRITTEN; the windows are compared in UTC
const OFFSETS: &[i64] = &[120, -330, 840, 0, -720, 60, 345, -1];
const FRACTIONS: &[u64] = &[500_000_000, 1, 999_999_999, 250_000_000];

// ------------------------------------------------------------------------------------------------
// diff-directed search hints (rio_harness::hints): strings / numbers mentioned by the lines of the library
// that differ from the committed baseline.  Empty on the unchanged tree: then no generator below draws a
// single extra random number, the case stream is the usual one.
// ------------------------------------------------------------------------------------------------

static HINTS: std::sync::OnceLock<rio_harness::Hints> = std::sync::OnceLock::new();
static HINT_LEVEL: std::sync::atomic::AtomicU8 = std::sync::atomic::AtomicU8::new(1);

pub fn the_hints() -> &'static rio_harness::Hints {
    HINTS.get_or_init(rio_harness::hints)
}

/// 0: ignore the hints, 1: use them now and then, 2: use them at most places
pub fn set_hint_level(level: u8) {
    HINT_LEVEL.store(level, std::sync::atomic::Ordering::Relaxed);
}

fn hint_on(rng: &mut Prng) -> bool {
    if the_hints().is_empty() {
        return false;
    }
    match HINT_LEVEL.load(std::sync::atomic::Ordering::Relaxed) {
        0 => false,
        1 => rng.chance(1, 6),
        _ => rng.chance(3, 5),
    }
}

#[derive(Clone, Copy, PartialEq)]
pub enum Place {
    Host,
    Path,
    Plain,
    Id,
}

fn swapcase(s: &str) -> String {
    s.chars().map(|c| if c.is_ascii_lowercase() { c.to_ascii_uppercase() } else { c.to_ascii_lowercase() }).collect()
}

/// The hinted strings (as they are, upper-, lower-, swap-cased) restricted to the alphabet of a place.
pub fn hint_texts(place: Place) -> Vec<String> {
    let mut out: Vec<String> = Vec::new();
    for s in &the_hints().strs {
        for v in [s.clone(), s.to_uppercase(), s.to_lowercase(), swapcase(s)] {
            let t: String = v
                .chars()
                .filter(|c| match place {
                    Place::Host => c.is_ascii_alphanumeric() || matches!(c, '-' | '_' | '.' | ':'),
                    Place::Path => c.is_ascii_alphanumeric() || matches!(c, '-' | '_' | '.' | '/'),
                    Place::Plain => c.is_ascii_alphanumeric() || matches!(c, '-' | '_' | '.' | ' ' | '/' | '='),
                    Place::Id => c.is_ascii_alphanumeric() || *c == '-',
                })
                .collect();
            if !t.is_empty() && t.len() <= 300 && !out.contains(&t) {
                out.push(t);
            }
        }
    }
    // a literal of every hinted length
    if place != Place::Id {
        for k in the_hints().sizes(300) {
            let t = "a".repeat(k);
            if !out.contains(&t) {
                out.push(t);
            }
        }
    }
    out
}

/// A text of the pool, or (when hints are on) a hinted text placed where the pool has its literals.
fn pick_text(rng: &mut Prng, pool: &[&str], place: Place) -> String {
    if hint_on(rng) {
        let ts = hint_texts(place);
        if !ts.is_empty() {
            let t = rng.pick(&ts).clone();
            return match place {
                Place::Host => match rng.below(5) {
                    0 => t,
                    1 => format!("{t}.com"),
                    2 => format!("a.{t}"),
                    3 => format!("a.com{t}"),
                    _ => format!("@l.{t}"),
                },
                Place::Path => {
                    let t = t.trim_start_matches('/').to_string();
                    match rng.below(5) {
                        0 => format!("/{t}"),
                        1 => format!("/a/{t}"),
                        2 => format!("/a{t}"),
                        3 => format!("/{t}/@d"),
                        _ => format!("/@s/{t}"),
                    }
                }
                Place::Plain => match rng.below(4) {
                    0 | 1 => t,
                    2 => format!("v{t}"),
                    _ => format!("{t}v"),
                },
                Place::Id => t,
            };
        }
    }
    rng.pick(pool).to_string()
}

/// the zones of `OFFSETS`, or a hinted one: "+02:00" / "-0530" among the strings, a number of minutes
fn pick_offset(rng: &mut Prng) -> i64 {
    if hint_on(rng) {
        let mut offs: Vec<i64> = Vec::new();
        for s in &the_hints().strs {
            let b = s.as_bytes();
            if (b.len() == 6 || b.len() == 5) && (b[0] == b'+' || b[0] == b'-') {
                let digits: String = s[1..].chars().filter(|c| c.is_ascii_digit()).collect();
                if digits.len() == 4 {
                    let m = digits[..2].parse::<i64>().unwrap() * 60 + digits[2..].parse::<i64>().unwrap();
                    if m < 24 * 60 {
                        offs.push(if b[0] == b'-' { -m } else { m });
                    }
                }
            }
        }
        for n in &the_hints().nums {
            for d in [-1i64, 0, 1] {
                let m = *n as i64 + d;
                if m > 0 && m < 24 * 60 {
                    offs.extend([m, -m]);
                }
                // a number of seconds (3600, 86400 …)
                let m = (*n as i64 + d * 60) / 60;
                if m > 0 && m < 24 * 60 {
                    offs.extend([m, -m]);
                }
            }
        }
        if !offs.is_empty() {
            return *rng.pick(&offs);
        }
    }
    *rng.pick(OFFSETS)
}

/// a hinted number below `max_excl` (also its neighbours), if hints are on
fn hint_num(rng: &mut Prng, max_excl: u64) -> Option<u64> {
    if !hint_on(rng) {
        return None;
    }
    let mut c: Vec<u64> = Vec::new();
    for n in &the_hints().nums {
        for v in [n.saturating_sub(1), *n, n + 1] {
            if v < max_excl {
                c.push(v);
            }
        }
    }
    if c.is_empty() {
        None
    } else {
        Some(*rng.pick(&c))
    }
}

pub fn gen_cfg(rng: &mut Prng) -> Value {
    json!({"ihc": rng.chance(1, 2), "ihdc": rng.chance(1, 2), "ipc": rng.chance(1, 2), "any": rng.chance(1, 2)})
}

fn gen_cidr(rng: &mut Prng) -> Value {
    let neg = rng.chance(1, 4);
    if let Some(n) = hint_num(rng, 65_536) {
        // a hinted number as prefix length / as a byte or group of the address
        return match rng.below(4) {
            0 if n <= 32 => json!({"neg": neg, "ip": [10, 1, 2, 3], "bits": n}),
            1 if n <= 128 => json!({"neg": neg, "ip": [0x2001, 0xdb8, 1, 0, 0, 0, 0, 1], "bits": n}),
            2 if n < 256 => json!({"neg": neg, "ip": [10, n, 0, 0], "bits": 16}),
            _ => json!({"neg": neg, "ip": [0x2001, n, 0, 0, 0, 0, 0, 0], "bits": 32}),
        };
    }
    if rng.chance(1, 5) {
        // v6
        let (g, bits): (Vec<u64>, u64) = match rng.below(9) {
            0 => (vec![0x2001, 0xdb8, 0, 0, 0, 0, 0, 0], 32),
            1 => (vec![0x2001, 0xdb8, 1, 0, 0, 0, 0, 0], 48),
            2 => (vec![0, 0, 0, 0, 0, 0, 0, 0], 0),
            3 => (vec![0x2001, 0xdb8, 1, 0, 0, 0, 0, 1], 128),
            // the v4-mapped block and one v4-mapped address: a v6 network, never a v4 one
            4 => (vec![0, 0, 0, 0, 0, 0xffff, 0, 0], 96),
            5 => (vec![0, 0, 0, 0, 0, 0xffff, 0x0a01, 0x0203], 128),
            // not networks (host part set / prefix too long): dropped when the rule is read
            6 => (vec![0x2001, 0xdb8, 1, 0, 0, 0, 0, 1], 32),
            7 => (vec![0x2001, 0xdb8, 0, 0, 0, 0, 0, 0], 129),
            _ => (vec![0x2001, 0xdb8, 1, 0, 0, 0, 0, 0], 127),
        };
        return json!({"neg": neg, "ip": g, "bits": bits});
    }
    let (g, bits): (Vec<u64>, u64) = match rng.below(14) {
        0 => (vec![10, 0, 0, 0], 8),
        1 => (vec![10, 1, 0, 0], 16),
        2 => (vec![10, 1, 2, 0], 24),
        3 => (vec![10, 1, 2, 3], 32),
        4 => (vec![192, 168, 0, 0], 16),
        5 => (vec![0, 0, 0, 0], 0),
        6 => (vec![10, 1, 2, 2], 31),
        7 => (vec![128, 0, 0, 0], 1),
        8 => (vec![255, 255, 255, 255], 32),
        // not networks: dropped when the rule is read (a rule left without any range has no ip trigger)
        9 => (vec![10, 1, 2, 3], 8),
        10 => (vec![10, 1, 2, 3], 24),
        11 => (vec![10, 0, 0, 0], 33),
        12 => (vec![192, 168, 0, 1], 0),
        _ => (vec![10, 1, 2, 3], 31),
    };
    json!({"neg": neg, "ip": g, "bits": bits})
}

/// `a.b.c.d` as the v4-mapped v6 address `::ffff:a.b.c.d`
fn v4_mapped(ip: &[u64]) -> Vec<u64> {
    vec![0, 0, 0, 0, 0, 0xffff, ip[0] * 256 + ip[1], ip[2] * 256 + ip[3]]
}

fn gen_req_ip(rng: &mut Prng) -> Value {
    match rng.below(14) {
        0 => json!([10, 1, 2, 3]),
        1 => json!([10, 1, 2, 2]),
        2 => json!([10, 1, 3, 1]),
        3 => json!([10, 2, 0, 1]),
        4 => json!([192, 168, 1, 1]),
        5 => json!([11, 0, 0, 1]),
        6 => json!([200, 1, 1, 1]),
        7 => json!([0x2001, 0xdb8, 1, 0, 0, 0, 0, 1]),
        8 => json!([0x2001, 0xdb9, 0, 0, 0, 0, 0, 1]),
        // v4-mapped v6 clients: in no v4 network (and so accepted by every `not_in_range` of a v4 network)
        9 => json!(v4_mapped(&[10, 1, 2, 3])),
        10 => json!(v4_mapped(&[192, 168, 1, 1])),
        11 => json!([255, 255, 255, 255]),
        12 => json!([0, 0, 0, 0]),
        _ => json!([0, 0, 0, 0, 0, 0, 0, 1]),
    }
}

pub fn gen_range(rng: &mut Prng, pool: &[u64]) -> Value {
    let a = *rng.pick(pool);
    let b = *rng.pick(pool);
    match rng.below(5) {
        0 => json!([a, null]),
        1 => json!([null, a]),
        2 => json!([null, null]),
        _ => json!([a.min(b), a.max(b)]),
    }
}

/// How a date bound is WRITTEN: half of the time in a zone other than UTC (the UTC instant stays the one the
/// model is given), sometimes with a fraction of a second, `Z`, or as a text no parser accepts.
fn dress_date_bound(rng: &mut Prng, t: u64) -> Value {
    let t = match hint_num(rng, 1_000_000) {
        Some(n) => {
            if rng.chance(1, 2) {
                t + n
            } else {
                t - n
            }
        }
        None => t,
    };
    match rng.below(20) {
        0..=6 => json!(t),
        7 => json!({"bad": *rng.pick(BAD_DATES)}),
        8 | 9 => json!({"t": t, "z": true}),
        10 => json!({"t": t, "ns": *rng.pick(FRACTIONS), "off": pick_offset(rng)}),
        11 => json!({"t": t, "ns": *rng.pick(FRACTIONS)}),
        _ => json!({"t": t, "off": pick_offset(rng)}),
    }
}

fn dress_time_bound(rng: &mut Prng, t: u64) -> Value {
    let t = hint_num(rng, 86_400).unwrap_or(t);
    match rng.below(12) {
        0..=4 => json!(t),
        5 => json!({"bad": *rng.pick(BAD_TIMES)}),
        6 => json!({"t": t, "ns": *rng.pick(FRACTIONS)}),
        _ => {
            if t % 60 == 0 {
                json!({"t": t, "hm": true})
            } else {
                json!({"t": t})
            }
        }
    }
}

/// A window `[start, end]`; one in seven has start > end (an empty window), one in seven start = end.
fn gen_window(rng: &mut Prng, pool: &[u64], dress: &dyn Fn(&mut Prng, u64) -> Value) -> Value {
    let a = *rng.pick(pool);
    let b = *rng.pick(pool);
    match rng.below(7) {
        0 => json!([dress(rng, a), null]),
        1 => json!([null, dress(rng, a)]),
        2 => {
            if rng.chance(1, 3) {
                json!([null, null])
            } else {
                json!([dress(rng, a), dress(rng, a)])
            }
        }
        3 => json!([dress(rng, a.max(b)), dress(rng, a.min(b))]),
        _ => json!([dress(rng, a.min(b)), dress(rng, a.max(b))]),
    }
}

pub fn gen_date_window(rng: &mut Prng) -> Value {
    gen_window(rng, INSTANTS, &dress_date_bound)
}

pub fn gen_time_window(rng: &mut Prng) -> Value {
    gen_window(rng, TIMES, &dress_time_bound)
}

pub fn gen_weekdays(rng: &mut Prng, n: usize) -> Value {
    Value::Array(
        (0..n)
            .map(|_| {
                if rng.chance(1, 10) {
                    Value::Null
                } else {
                    json!(hint_num(rng, 7).unwrap_or(rng.below(7) as u64))
                }
            })
            .collect(),
    )
}

pub fn gen_header_cond(rng: &mut Prng) -> Value {
    let kind = *rng.pick(&HEADER_KINDS);
    let name = pick_text(rng, HNAMES, Place::Plain);
    let value: Value = if kind == "is_defined" || kind == "is_not_defined" {
        if rng.chance(1, 4) { json!("v") } else { Value::Null }
    } else if kind == "match_regex" {
        json!(pick_text(rng, &["v-@d", "V-@d", "@l", "v", "x@dy"], Place::Plain))
    } else if rng.chance(1, 12) {
        Value::Null
    } else {
        json!(pick_text(rng, HVALUES, Place::Plain))
    };
    json!({"name": name, "kind": kind, "value": value})
}

/// One rule; `dense` makes colliding choices (few distinct values) more likely.
pub fn gen_rule(rng: &mut Prng, id: &str) -> Value {
    let mut r = serde_json::Map::new();
    r.insert("id".into(), json!(id));
    r.insert("rank".into(), json!(hint_num(rng, 60_001).unwrap_or(rng.below(6) as u64)));
    if rng.chance(1, 3) {
        r.insert("scheme".into(), json!(pick_text(rng, SCHEMES, Place::Plain)));
    }
    if rng.chance(3, 5) {
        r.insert("host".into(), json!(pick_text(rng, HOSTS, Place::Host)));
    }
    r.insert("markers".into(), json!(*rng.pick(&["dlsx", "dlsx", "d", "", "sx", "l"])));
    if rng.chance(1, 3) {
        let n = rng.below(4);
        let mut ips: Vec<Value> = (0..n).map(|_| gen_cidr(rng)).collect();
        if n > 0 && rng.chance(1, 4) {
            ips.push(ips[0].clone());
        }
        r.insert("ips".into(), Value::Array(ips));
    }
    if rng.chance(2, 5) {
        let n = rng.below(4);
        let mut ms: Vec<Value> = (0..n).map(|_| json!(pick_text(rng, METHODS, Place::Plain))).collect();
        if n > 0 && rng.chance(1, 4) {
            ms.push(ms[0].clone());
        }
        r.insert("methods".into(), Value::Array(ms));
        if rng.chance(1, 2) {
            r.insert("exclude".into(), json!(rng.chance(3, 4)));
        }
    } else if rng.chance(1, 10) {
        r.insert("exclude".into(), json!(true));
    }
    if rng.chance(2, 5) {
        let n = rng.range(1, 3);
        let mut hs: Vec<Value> = (0..n).map(|_| gen_header_cond(rng)).collect();
        if rng.chance(1, 5) {
            hs.push(hs[0].clone());
        }
        if rng.chance(1, 3) {
            hs.reverse();
        }
        r.insert("headers".into(), Value::Array(hs));
    }
    if rng.chance(1, 4) {
        let n = rng.below(3);
        r.insert("datetime".into(), Value::Array((0..n).map(|_| gen_date_window(rng)).collect()));
    }
    if rng.chance(1, 4) {
        let n = rng.below(3);
        r.insert("time".into(), Value::Array((0..n).map(|_| gen_time_window(rng)).collect()));
    }
    if rng.chance(1, 4) {
        let n = rng.below(4);
        r.insert("weekdays".into(), gen_weekdays(rng, n));
        if rng.chance(2, 3) {
            r.insert("wdstyle".into(), json!(rng.below(WEEKDAY_STYLES as usize)));
        }
    }
    r.insert("path".into(), json!(pick_text(rng, PATHS, Place::Path)));
    Value::Object(r)
}

/// A pool of rules in which later rules often copy triggers of earlier ones (shared buckets).
pub fn gen_rules(rng: &mut Prng, n: usize, prefix: &str) -> Vec<Value> {
    let mut rules: Vec<Value> = Vec::new();
    for i in 0..n {
        let id = format!("{prefix}{i}");
        let mut r = gen_rule(rng, &id);
        if !rules.is_empty() && rng.chance(1, 2) {
            // copy some triggers of an earlier rule so that both land in the same buckets
            let src = rules[rng.below(rules.len())].clone();
            for k in ["scheme", "host", "ips", "methods", "exclude", "headers", "datetime", "time", "weekdays", "wdstyle", "path", "markers"] {
                if rng.chance(3, 5) {
                    match src.get(k) {
                        Some(v) => {
                            r[k] = v.clone();
                        }
                        None => {
                            r.as_object_mut().unwrap().remove(k);
                        }
                    }
                }
            }
            if rng.chance(1, 3) {
                if let Some(Value::Array(hs)) = r.get_mut("headers") {
                    hs.reverse();
                }
            }
        }
        rules.push(r);
    }
    if rules.len() >= 2 && rng.chance(1, 6) {
        shared_condition_pair(rng, &mut rules);
    }
    rules
}

/// Rewrites two rules of the list into the shape "two condition groups sharing a condition": one rule
/// carries the conditions {c1, c2}, the other only {c2} (or only {c1}), all other triggers equal, so that
/// the per-request condition memo of the header / date-time layer (and its `trace` twin) is consulted for a
/// condition first met in a group that may already have failed.
pub fn shared_condition_pair(rng: &mut Prng, rules: &mut [Value]) {
    let n = rules.len();
    let i = rng.below(n);
    let mut j = rng.below(n);
    if i == j {
        j = (i + 1) % n;
    }
    let (id_j, rank_j) = (rules[j]["id"].clone(), rules[j]["rank"].clone());
    let mut base = rules[i].clone();
    for k in ["ips", "methods", "exclude", "scheme"] {
        if rng.chance(2, 3) {
            base.as_object_mut().unwrap().remove(k);
        }
    }
    let (mut both, mut one) = (base.clone(), base);
    if rng.chance(2, 3) {
        // header groups: two conditions on different header names
        let c1 = gen_header_cond(rng);
        let mut c2 = gen_header_cond(rng);
        for _ in 0..10 {
            if c2["name"].as_str().map(|s| s.to_lowercase()) != c1["name"].as_str().map(|s| s.to_lowercase()) {
                break;
            }
            c2 = gen_header_cond(rng);
        }
        both["headers"] = if rng.chance(1, 2) { json!([c1, c2]) } else { json!([c2, c1]) };
        one["headers"] = json!([if rng.chance(1, 2) { c1 } else { c2 }]);
    } else {
        // date-time groups: a date window (often not containing the instant) and a week-day / time-of-day condition
        for r in [&mut both, &mut one] {
            let o = r.as_object_mut().unwrap();
            o.remove("datetime");
            o.remove("time");
            o.remove("weekdays");
        }
        let window = json!([gen_date_window(rng)]);
        let wd = json!([rng.below(7), rng.below(7)]);
        let tod = json!([gen_time_window(rng)]);
        match rng.below(3) {
            0 => {
                both["datetime"] = window;
                both["weekdays"] = wd.clone();
                one["weekdays"] = wd;
            }
            1 => {
                both["datetime"] = window;
                both["time"] = tod.clone();
                one["time"] = tod;
            }
            _ => {
                both["time"] = tod;
                both["weekdays"] = wd.clone();
                one["weekdays"] = wd;
            }
        }
    }
    one["id"] = id_j;
    one["rank"] = rank_j;
    if rng.chance(1, 2) {
        rules[i] = both;
        rules[j] = one;
    } else {
        let (id_i, rank_i) = (both["id"].clone(), both["rank"].clone());
        both["id"] = one["id"].clone();
        both["rank"] = one["rank"].clone();
        one["id"] = id_i;
        one["rank"] = rank_i;
        rules[i] = one;
        rules[j] = both;
    }
}

fn instantiate(rng: &mut Prng, pat: &str) -> String {
    // fill markers of a source string with a matching (or deliberately non-matching) text
    let mut out = String::new();
    let cs: Vec<char> = pat.chars().collect();
    let mut i = 0;
    while i < cs.len() {
        if cs[i] == '@' && i + 1 < cs.len() {
            let fill = match cs[i + 1] {
                'd' => *rng.pick(&["1", "12", "x", ""]),
                'l' => *rng.pick(&["abc", "x", "B", "1"]),
                's' => *rng.pick(&["b", "1", "x-y", "b/c"]),
                'x' => *rng.pick(&["", "q", "a/b"]),
                _ => "@",
            };
            out.push_str(fill);
            i += 2;
        } else {
            out.push(cs[i]);
            i += 1;
        }
    }
    out
}

/// A request derived from a rule: a hit on every trigger, then near-misses with some probability.
pub fn gen_request(rng: &mut Prng, rules: &[Value]) -> Value {
    let mut q = serde_json::Map::new();
    let base = if !rules.is_empty() && rng.chance(9, 10) { Some(rules[rng.below(rules.len())].clone()) } else { None };
    let miss = |rng: &mut Prng| rng.chance(1, 6);
    // scheme
    match base.as_ref().and_then(|b| b.get("scheme")).and_then(|s| s.as_str()) {
        Some(s) if !s.is_empty() && !miss(rng) => {
            q.insert("scheme".into(), json!(s));
        }
        _ => {
            if rng.chance(3, 4) {
                q.insert("scheme".into(), json!(*rng.pick(&["http", "https", "ftp", ""])));
            }
        }
    }
    // host
    match base.as_ref().and_then(|b| b.get("host")).and_then(|s| s.as_str()) {
        Some(h) if !h.is_empty() && !miss(rng) => {
            let mut h = instantiate(rng, h);
            match rng.below(8) {
                0 | 1 => h = h.to_uppercase(),
                2 | 3 => h = h.to_lowercase(),
                _ => {}
            }
            // the same host as a client may write it: with a port, with the root dot, without them
            match rng.below(16) {
                0 => h.push_str(":8080"),
                1 => h.push('.'),
                2 => {
                    if let Some(i) = h.find(':') {
                        h.truncate(i);
                    }
                }
                3 => {
                    if h.ends_with('.') {
                        h.pop();
                    }
                }
                _ => {}
            }
            q.insert("host".into(), json!(h.replace('@', "")));
        }
        _ => {
            if rng.chance(5, 6) {
                q.insert("host".into(), json!(pick_text(rng, REQ_HOSTS, Place::Host).replace('@', "")));
            }
        }
    }
    // path
    let path = match base.as_ref().and_then(|b| b.get("path")).and_then(|s| s.as_str()) {
        Some(p) if !miss(rng) => {
            let mut p = instantiate(rng, p);
            match rng.below(8) {
                0 => p = p.to_uppercase(),
                1 | 2 => p = p.to_lowercase(),
                _ => {}
            }
            p
        }
        _ => pick_text(rng, REQ_PATHS, Place::Path),
    };
    q.insert("path".into(), json!(path.replace('@', "")));
    // method
    match base.as_ref().and_then(|b| b.get("methods")).and_then(|m| m.as_array()) {
        Some(ms) if !ms.is_empty() && rng.chance(2, 3) => {
            // a listed method, one time in four in another case ("GET" / "get" / "Get" are three methods)
            let m = ms[rng.below(ms.len())].as_str().unwrap_or("GET").to_string();
            let m = match rng.below(12) {
                0 => m.to_lowercase(),
                1 => m.to_uppercase(),
                2 => swapcase(&m),
                _ => m,
            };
            q.insert("method".into(), json!(m));
        }
        _ => {
            if rng.chance(2, 3) {
                q.insert("method".into(), json!(pick_text(rng, METHODS, Place::Plain)));
            }
        }
    }
    // ip
    match base.as_ref().and_then(|b| b.get("ips")).and_then(|m| m.as_array()) {
        Some(cs) if !cs.is_empty() && rng.chance(2, 3) => {
            // an address inside one of the listed networks (its base address, or base + 1 .. )
            let c = &cs[rng.below(cs.len())];
            let mut ip: Vec<u64> = c["ip"].as_array().unwrap().iter().map(|x| x.as_u64().unwrap()).collect();
            if rng.chance(1, 2) {
                let last = ip.len() - 1;
                ip[last] = (ip[last] + 1) % 256;
            }
            if ip.len() == 4 && rng.chance(1, 6) {
                // the same client seen through a dual-stack socket
                ip = v4_mapped(&ip);
            }
            q.insert("ip".into(), json!(ip));
        }
        _ => {
            if rng.chance(3, 4) {
                q.insert("ip".into(), gen_req_ip(rng));
            }
        }
    }
    // headers
    let mut headers: Vec<Value> = Vec::new();
    if let Some(hs) = base.as_ref().and_then(|b| b.get("headers")).and_then(|m| m.as_array()) {
        for h in hs {
            let name = h["name"].as_str().unwrap_or("X-A");
            let kind = h["kind"].as_str().unwrap_or("");
            let value = h["value"].as_str().unwrap_or("");
            let name = if rng.chance(1, 3) { name.to_lowercase() } else { name.to_string() };
            let v = match kind {
                "is_not_defined" => continue,
                "is_defined" => rng.pick(REQ_HVALUES).to_string(),
                "is_equals" => value.to_string(),
                "is_not_equal_to" | "does_not_contain" => rng.pick(REQ_HVALUES).to_string(),
                "contains" => format!("{}{}{}", rng.pick(&["", "a"]), value, rng.pick(&["", "z"])),
                "ends_with" => format!("{}{}", rng.pick(&["", "a"]), value),
                "starts_with" => format!("{}{}", value, rng.pick(&["", "z"])),
                // unanchored search: surround the instance with other text half of the time
                "match_regex" => format!("{}{}{}", rng.pick(&["", "", "a", "x-"]), instantiate(rng, value), rng.pick(&["", "", "z", "-9"])),
                _ => value.to_string(),
            };
            if !miss(rng) {
                let v = if rng.chance(1, 8) { v.to_uppercase() } else { v };
                // white space at the ends of a value is part of the value
                let v = match rng.below(16) {
                    0 => format!("{v} "),
                    1 => v.trim_end().to_string(),
                    2 => format!(" {v}"),
                    _ => v,
                };
                let name = match rng.below(12) {
                    0 => name.to_uppercase(),
                    1 => swapcase(&name),
                    _ => name,
                };
                headers.push(json!([name, v.replace('@', "")]));
            }
        }
    }
    let extra = rng.below(3);
    for _ in 0..extra {
        headers.push(json!([pick_text(rng, HNAMES, Place::Plain), pick_text(rng, REQ_HVALUES, Place::Plain)]));
    }
    if !headers.is_empty() {
        q.insert("headers".into(), Value::Array(headers));
    }
    // instant
    let mut at: Option<u64> = None;
    if let Some(b) = base.as_ref() {
        let mut cands: Vec<u64> = Vec::new();
        if let Some(rs) = b.get("datetime").and_then(|m| m.as_array()) {
            for r in rs {
                for x in r.as_array().unwrap() {
                    if let Some((t, off, ns)) = bound_parts(x) {
                        cands.extend([t, t.saturating_sub(1), t + 1]);
                        if ns > 0 {
                            cands.extend([t, t + 1, t + 2]);
                        }
                        if off != 0 {
                            // the instants an implementation that forgets the zone would take for the bound
                            for d in [-1i64, 0, 1] {
                                let shifted = |sign: i64| (t as i64 + sign * off * 60 + d).max(0) as u64;
                                cands.extend([shifted(1), shifted(-1), shifted(1), shifted(-1)]);
                            }
                            // and one strictly between the bound and its shifted twin
                            let mid = (t as i64 + off * 30).max(0) as u64;
                            cands.extend([mid, mid, (t as i64 - off * 30).max(0) as u64]);
                        }
                    }
                }
            }
        }
        if let Some(rs) = b.get("time").and_then(|m| m.as_array()) {
            for r in rs {
                for x in r.as_array().unwrap() {
                    if let Some((t, _, _)) = bound_parts(x) {
                        let day = T0 + 86_400 * rng.below(8) as u64;
                        cands.extend([day + t, (day + t).saturating_sub(1), day + (t + 1) % 86_400]);
                    }
                }
            }
        }
        if let Some(ws) = b.get("weekdays").and_then(|m| m.as_array()) {
            for w in ws {
                if let Some(w) = w.as_u64() {
                    // T0 is a Wednesday (2)
                    cands.push(T0 + 86_400 * ((w + 7 - 2) % 7) + *rng.pick(TIMES));
                }
            }
        }
        if !cands.is_empty() && rng.chance(4, 5) {
            at = Some(cands[rng.below(cands.len())]);
        }
    }
    if at.is_none() && rng.chance(4, 5) {
        at = Some(*rng.pick(INSTANTS) + if rng.chance(1, 2) { *rng.pick(TIMES) } else { 0 });
    }
    if let Some(t) = at {
        q.insert("at".into(), json!(t));
        if rng.chance(1, 3) {
            // the same instant written in another zone
            q.insert("atoff".into(), json!(pick_offset(rng)));
        }
    }
    Value::Object(q)
}

/// The hint-directed block every generator emits FIRST when the library differs from the baseline
/// (`the_hints()` not empty): `(cfg, rules, requests)` triples in which
///  * every repeatable place of the grammar (rules of a case, ip ranges / methods / header conditions / date
///    windows / time windows / week days of a rule, segments of a path, characters of a literal, headers of a
///    request) has n-1, n, n+1 elements for every hinted number n, and
///  * every hinted string (also upper-, lower-, swap-cased) stands at most places that hold free text: hosts,
///    paths, schemes, method names, header names and values, offsets of date texts; hinted numbers also as
///    rank, prefix length, address byte, distance of an instant from a bound, time of day, zone offset.
/// `budget` bounds the number of randomly drawn cases of the second kind.
pub fn hint_block(rng: &mut Prng, budget: usize) -> Vec<(Value, Vec<Value>, Vec<Value>)> {
    let mut out: Vec<(Value, Vec<Value>, Vec<Value>)> = Vec::new();
    if the_hints().is_empty() {
        return out;
    }
    let reqs_for = |rng: &mut Prng, rules: &[Value], n: usize| -> Vec<Value> { (0..n).map(|_| gen_request(rng, rules)).collect() };
    set_hint_level(1);
    for k in the_hints().sizes(300) {
        // k rules
        let rules = gen_rules(rng, k, "r");
        let reqs = reqs_for(rng, &rules, 5);
        out.push((gen_cfg(rng), rules, reqs));
        // k elements in every list of a rule
        if k <= 64 {
            let mut rules: Vec<Value> = Vec::new();
            let mk = |id: &str, key: &str, v: Value| -> Value {
                let mut r = json!({"id": id, "rank": 1, "markers": "dlsx", "path": "/a"});
                r[key] = v;
                r
            };
            rules.push(mk("k-ips", "ips", Value::Array((0..k).map(|_| gen_cidr(rng)).collect())));
            rules.push(mk("k-ips-distinct", "ips", Value::Array((0..k).map(|i| json!({"neg": false, "ip": [10, i % 256, 0, 0], "bits": 16})).collect())));
            rules.push(mk("k-methods", "methods", Value::Array((0..k).map(|i| json!(format!("M{i}"))).collect())));
            let mut ex = mk("k-methods-ex", "methods", Value::Array((0..k).map(|i| json!(format!("M{i}"))).collect()));
            ex["exclude"] = json!(true);
            rules.push(ex);
            rules.push(mk("k-dates", "datetime", Value::Array((0..k).map(|_| gen_date_window(rng)).collect())));
            rules.push(mk("k-times", "time", Value::Array((0..k).map(|_| gen_time_window(rng)).collect())));
            rules.push(mk("k-days", "weekdays", gen_weekdays(rng, k)));
            if k <= 24 {
                rules.push(mk("k-headers", "headers", Value::Array((0..k).map(|_| gen_header_cond(rng)).collect())));
                rules.push(mk(
                    "k-headers-distinct",
                    "headers",
                    Value::Array((0..k).map(|i| json!({"name": format!("X-{i}"), "kind": "is_equals", "value": "v"})).collect()),
                ));
            }
            let mut reqs = reqs_for(rng, &rules, 8);
            for j in [k.saturating_sub(1), k, k + 1] {
                // a request with j headers; the last method / address of the lists
                let hs: Vec<Value> = (0..j).map(|i| json!([format!("X-{i}"), "v"])).collect();
                reqs.push(json!({"path": "/a", "method": format!("M{}", j.saturating_sub(1)), "ip": [10, j.saturating_sub(1) % 256, 0, 1], "headers": hs, "at": T0}));
            }
            out.push((gen_cfg(rng), rules, reqs));
            // a path of k segments, with and without a marker at its end
            let segs = "/a".repeat(k);
            let rules = vec![
                json!({"id": "segs", "rank": 1, "markers": "", "path": segs}),
                json!({"id": "segs-d", "rank": 2, "markers": "d", "path": format!("{segs}/@d")}),
                json!({"id": "segs-x", "rank": 3, "markers": "x", "path": format!("{}@x", if k <= 1 { "/".to_string() } else { "/a".repeat(k - 1) })}),
            ];
            let mut reqs = Vec::new();
            for j in [k.saturating_sub(1), k, k + 1] {
                reqs.push(json!({"path": if j == 0 { "/".to_string() } else { "/a".repeat(j) }}));
                reqs.push(json!({"path": format!("{}/12", "/a".repeat(j))}));
            }
            out.push((gen_cfg(rng), rules, reqs));
        }
        // literals of k characters
        let lit = "a".repeat(k);
        let rules = vec![
            json!({"id": "len-path", "rank": 1, "markers": "", "path": format!("/{lit}")}),
            json!({"id": "len-path-d", "rank": 2, "markers": "d", "path": format!("/{lit}@d")}),
            json!({"id": "len-host", "rank": 3, "markers": "", "host": format!("{lit}.com"), "path": "/a"}),
            json!({"id": "len-host-l", "rank": 4, "markers": "l", "host": format!("{lit}.@l"), "path": "/a"}),
            json!({"id": "len-method", "rank": 5, "markers": "", "methods": [lit.to_uppercase()], "path": "/a"}),
            json!({"id": "len-hvalue", "rank": 6, "markers": "", "headers": [{"name": "X-A", "kind": "is_equals", "value": lit}], "path": "/a"}),
            json!({"id": "len-hname", "rank": 7, "markers": "", "headers": [{"name": format!("X-{lit}"), "kind": "is_defined", "value": null}], "path": "/a"}),
            json!({"id": "len-hregex", "rank": 8, "markers": "d", "headers": [{"name": "X-B", "kind": "match_regex", "value": format!("{lit}@d")}], "path": "/a"}),
        ];
        let mut reqs = Vec::new();
        for j in [k.saturating_sub(1), k, k + 1] {
            let l = "a".repeat(j);
            reqs.push(json!({"path": format!("/{l}")}));
            reqs.push(json!({"path": format!("/{l}7")}));
            reqs.push(json!({"path": "/a", "host": format!("{l}.com"), "method": l.to_uppercase(), "headers": [["X-A", l], [format!("X-{l}"), ""], ["X-B", format!("{l}7")]]}));
            reqs.push(json!({"path": "/a", "host": format!("{l}.org"), "method": l.to_uppercase()}));
        }
        out.push((gen_cfg(rng), rules, reqs));
    }
    // cases drawn from the usual grammar with the hinted strings / numbers at most places
    set_hint_level(2);
    for i in 0..budget {
        let max_rules = if i % 3 == 0 { 3 } else { 8 };
        let n = rng.range(1, max_rules);
        let rules = gen_rules(rng, n, "h");
        let nq = rng.range(3, 6);
        let reqs = reqs_for(rng, &rules, nq);
        out.push((gen_cfg(rng), rules, reqs));
    }
    set_hint_level(1);
    out
}

// ------------------------------------------------------------------------------------------------
// sub-second bounds: the one place where the model is coarser than the code
// ------------------------------------------------------------------------------------------------
// The model's instants are whole seconds; a bound `t + f` (0 < f < 1 s) is given to it as `t + 1`, which is exact for
// MATCHING (requests carry whole seconds).  But `t + f` and `t + 1` (or `t + f'`) are DIFFERENT conditions in the code
// – different condition groups of the date-time matcher, visible in the shape of the explain trace – and ONE condition
// in the model.  A case containing two such bounds is outside the domain of the correspondence: the generators repair
// it (`fix_frac`: the later bound is written like the earlier one), `run` rejects it (`frac_collision`).

fn bounds_of<'a>(rules: &'a [Value], k: &str) -> Vec<&'a Value> {
    let mut out = Vec::new();
    for r in rules {
        if let Some(ws) = r.get(k).and_then(|m| m.as_array()) {
            for w in ws {
                if let Some(bs) = w.as_array() {
                    out.extend(bs.iter());
                }
            }
        }
    }
    out
}

/// two bounds of the same kind that are one value for the model (`t + (ns > 0)`) and two for the code (`t`, `ns`)
pub fn frac_collision(rules: &[Value]) -> bool {
    for k in ["datetime", "time"] {
        let mut seen: std::collections::HashMap<u64, (u64, u64)> = std::collections::HashMap::new();
        for b in bounds_of(rules, k) {
            if let Some((t, _, ns)) = bound_parts(b) {
                let v = t + (ns > 0) as u64;
                match seen.get(&v) {
                    Some(&(t0, ns0)) if (t0, ns0) != (t, ns) => return true,
                    _ => {
                        seen.insert(v, (t, ns));
                    }
                }
            }
        }
    }
    false
}

/// Rewrites every bound that collides (see above) with an earlier one into the earlier one's `t` / `ns`.
pub fn fix_frac(rules: &mut [Value]) {
    for k in ["datetime", "time"] {
        let mut seen: std::collections::HashMap<u64, (u64, u64)> = std::collections::HashMap::new();
        for r in rules.iter_mut() {
            if let Some(ws) = r.get_mut(k).and_then(|m| m.as_array_mut()) {
                for w in ws {
                    if let Some(bs) = w.as_array_mut() {
                        for b in bs {
                            if let Some((t, _, ns)) = bound_parts(b) {
                                let v = t + (ns > 0) as u64;
                                match seen.get(&v) {
                                    Some(&(t0, ns0)) if (t0, ns0) != (t, ns) => {
                                        // keep the way it is written (zone, Z, HH:MM) where that stays legal
                                        let mut o = match b {
                                            Value::Object(o) => o.clone(),
                                            _ => serde_json::Map::new(),
                                        };
                                        o.insert("t".into(), json!(t0));
                                        if ns0 > 0 {
                                            o.insert("ns".into(), json!(ns0));
                                            o.remove("hm");
                                        } else {
                                            o.remove("ns");
                                        }
                                        if o.get("hm").and_then(|x| x.as_bool()) == Some(true) && t0 % 60 != 0 {
                                            o.remove("hm");
                                        }
                                        *b = Value::Object(o);
                                    }
                                    _ => {
                                        seen.insert(v, (t, ns));
                                    }
                                }
                            }
                        }
                    }
                }
            }
        }
    }
}

/// `fix_frac` on the rule list of a case (`"rules"` of c01 / c17, `"pool"` of c02).
pub fn fix_case(case: &mut Value) {
    for k in ["rules", "pool"] {
        if let Some(rs) = case.get_mut(k).and_then(|r| r.as_array_mut()) {
            fix_frac(rs);
        }
    }
}

/// The always-on "many rules, mapped clients" family: 150-180 rules of the usual grammar, two thirds of them with ip
/// ranges (v4 and v6 networks, the v4-mapped block, non-networks), and requests whose client address is a v4-mapped
/// v6 address of a listed v4 network, a plain v4 / v6 address of a listed network, or one of the usual clients.
pub fn big_mapped_case(rng: &mut Prng) -> (Value, Vec<Value>, Vec<Value>) {
    let n = rng.range(150, 180);
    let mut rules = gen_rules(rng, n, "r");
    for r in rules.iter_mut() {
        if rng.chance(2, 3) {
            let k = rng.range(1, 3);
            r["ips"] = Value::Array((0..k).map(|_| gen_cidr(rng)).collect());
        }
    }
    let mut reqs = Vec::new();
    for _ in 0..6 {
        let mut q = gen_request(rng, &rules);
        let with_ips: Vec<&Value> = rules.iter().filter(|r| r.get("ips").and_then(|i| i.as_array()).map(|a| !a.is_empty()).unwrap_or(false)).collect();
        if !with_ips.is_empty() && rng.chance(3, 4) {
            let r = *rng.pick(&with_ips);
            let cs = r["ips"].as_array().unwrap();
            let c = &cs[rng.below(cs.len())];
            let mut ip: Vec<u64> = c["ip"].as_array().unwrap().iter().map(|x| x.as_u64().unwrap()).collect();
            if rng.chance(1, 2) {
                let last = ip.len() - 1;
                ip[last] = (ip[last] + 1) % 256;
            }
            if ip.len() == 4 && rng.chance(2, 3) {
                ip = v4_mapped(&ip);
            }
            q["ip"] = json!(ip);
        }
        reqs.push(q);
    }
    (gen_cfg(rng), rules, reqs)
}

pub fn sorted_ids(routes: &[std::sync::Arc<redirectionio::router::Route<Rule>>]) -> Vec<String> {
    let mut ids: Vec<String> = routes.iter().map(|r| r.id().to_string()).collect();
    ids.sort();
    ids
}

/// statistics tags describing which layers a case exercises
pub fn rule_tags(rules: &[Value]) -> Vec<String> {
    let mut t = Vec::new();
    let mut has = |k: &str, f: &dyn Fn(&Value) -> bool| {
        if rules.iter().any(|r| r.get(k).map(f).unwrap_or(false)) {
            t.push(format!("has:{k}"));
        }
    };
    has("scheme", &|v| v.as_str().map(|s| !s.is_empty()).unwrap_or(false));
    has("host", &|v| v.as_str().map(|s| !s.is_empty()).unwrap_or(false));
    has("ips", &|v| v.as_array().map(|a| !a.is_empty()).unwrap_or(false));
    has("methods", &|v| v.as_array().map(|a| !a.is_empty()).unwrap_or(false));
    has("exclude", &|v| v.is_boolean());
    has("headers", &|v| v.as_array().map(|a| !a.is_empty()).unwrap_or(false));
    has("datetime", &|v| v.as_array().map(|a| !a.is_empty()).unwrap_or(false));
    has("time", &|v| v.as_array().map(|a| !a.is_empty()).unwrap_or(false));
    has("weekdays", &|v| v.as_array().map(|a| !a.is_empty()).unwrap_or(false));
    if rules.iter().any(|r| r.get("path").and_then(|p| p.as_str()).map(|p| p.contains('@')).unwrap_or(false)) {
        t.push("has:marker-path".into());
    }
    if rules.iter().any(|r| r.get("host").and_then(|p| p.as_str()).map(|p| p.contains('@')).unwrap_or(false)) {
        t.push("has:marker-host".into());
    }
    t
}
