//! Shared code of the body-filter harnesses (C03, C04, C14, C15): case format, generators
//! (HTML grammar + mutation, filter lists, partitions), the runner of the REAL filter chain, the
//! tokenizer-context classifier of a cut (known-finding signature of D4) and the conservativity
//! oracle of C04.
//!
//! Case format (all four properties share the filter / header encoding):
//!   "body":    hex of the body bytes
//!   "filters": [ {"k":"html","action":"append_child|prepend_child|replace|<other>","path":[..],"sel":null|"..","value":".."}
//!              | {"k":"text","action":"append_text|prepend_text|replace_text","content":".."} ]
//!   "headers": [[name, value], ..]            (optional, default none)
//!   "scheds":  [[cut, cut, ..], ..]           cut positions in 0..=len, non-decreasing (equal cuts = empty chunk)
#![allow(dead_code)]

use redirectionio::api::{BodyFilter, HTMLBodyFilter, TextAction, TextBodyFilter};
use redirectionio::filter::FilterBodyAction;
use redirectionio::html::{TokenType, Tokenizer};
use redirectionio::http::Header;
use rio_harness::{hex, unhex, Prng};
use serde_json::{json, Value};

// ------------------------------------------------------------------------------------------------
// case parsing
// ------------------------------------------------------------------------------------------------

#[derive(Clone, Debug)]
pub enum FSpec {
    Html { action: String, path: Vec<String>, sel: Option<String>, value: String },
    Text { action: String, content: String },
}

impl FSpec {
    pub fn to_json(&self) -> Value {
        match self {
            FSpec::Html { action, path, sel, value } => json!({"k": "html", "action": action, "path": path, "sel": sel, "value": value}),
            FSpec::Text { action, content } => json!({"k": "text", "action": action, "content": content}),
        }
    }
    pub fn is_html(&self) -> bool {
        matches!(self, FSpec::Html { .. })
    }
    /// the value this filter may insert
    pub fn value(&self) -> &str {
        match self {
            FSpec::Html { value, .. } => value,
            FSpec::Text { content, .. } => content,
        }
    }
    pub fn action(&self) -> &str {
        match self {
            FSpec::Html { action, .. } => action,
            FSpec::Text { action, .. } => action,
        }
    }
    /// does `FilterBodyActionItem::new` build a stage for it (given the content-type gate is open)?
    pub fn builds(&self) -> bool {
        match self {
            FSpec::Html { action, path, .. } => !path.is_empty() && matches!(action.as_str(), "append_child" | "prepend_child" | "replace"),
            FSpec::Text { .. } => true,
        }
    }
}

pub fn parse_filters(case: &Value) -> Option<Vec<FSpec>> {
    let arr = case.get("filters")?.as_array()?;
    let mut out = Vec::new();
    for f in arr {
        let k = f.get("k")?.as_str()?;
        match k {
            "html" => {
                let action = f.get("action")?.as_str()?.to_string();
                let mut path = Vec::new();
                for p in f.get("path")?.as_array()? {
                    path.push(p.as_str()?.to_string());
                }
                let sel = match f.get("sel") {
                    None | Some(Value::Null) => None,
                    Some(v) => Some(v.as_str()?.to_string()),
                };
                let value = f.get("value")?.as_str()?.to_string();
                out.push(FSpec::Html { action, path, sel, value });
            }
            "text" => {
                let action = f.get("action")?.as_str()?.to_string();
                if !matches!(action.as_str(), "append_text" | "prepend_text" | "replace_text") {
                    return None;
                }
                let content = f.get("content")?.as_str()?.to_string();
                out.push(FSpec::Text { action, content });
            }
            _ => return None,
        }
    }
    Some(out)
}

pub fn to_body_filters(fs: &[FSpec]) -> Vec<BodyFilter> {
    fs.iter()
        .map(|f| match f {
            FSpec::Html { action, path, sel, value } => BodyFilter::HTML(HTMLBodyFilter {
                action: action.clone(),
                value: value.clone(),
                inner_value: None,
                element_tree: path.clone(),
                css_selector: sel.clone(),
                id: Some("id".to_string()),
                target_hash: None,
            }),
            FSpec::Text { action, content } => BodyFilter::Text(TextBodyFilter {
                action: match action.as_str() {
                    "append_text" => TextAction::Append,
                    "prepend_text" => TextAction::Prepend,
                    _ => TextAction::Replace,
                },
                content: content.clone(),
                id: Some("id".to_string()),
                target_hash: None,
            }),
        })
        .collect()
}

pub fn parse_headers(case: &Value) -> Option<Vec<Header>> {
    let mut out = Vec::new();
    match case.get("headers") {
        None | Some(Value::Null) => {}
        Some(v) => {
            for h in v.as_array()? {
                let a = h.as_array()?;
                if a.len() != 2 {
                    return None;
                }
                out.push(Header { name: a[0].as_str()?.to_string(), value: a[1].as_str()?.to_string() });
            }
        }
    }
    Some(out)
}

pub fn parse_body(case: &Value) -> Option<Vec<u8>> {
    unhex(case.get("body")?.as_str()?)
}

/// cut lists; every list must be non-decreasing and within 0..=len
pub fn parse_scheds(case: &Value, len: usize) -> Option<Vec<Vec<usize>>> {
    let mut out = Vec::new();
    for s in case.get("scheds")?.as_array()? {
        let mut cuts = Vec::new();
        let mut last = 0usize;
        for c in s.as_array()? {
            let c = c.as_u64()? as usize;
            if c < last || c > len {
                return None;
            }
            last = c;
            cuts.push(c);
        }
        out.push(cuts);
    }
    Some(out)
}

pub fn split_at_cuts(body: &[u8], cuts: &[usize]) -> Vec<Vec<u8>> {
    let mut chunks = Vec::new();
    let mut last = 0;
    for &c in cuts {
        chunks.push(body[last..c].to_vec());
        last = c;
    }
    chunks.push(body[last..].to_vec());
    chunks
}

// ------------------------------------------------------------------------------------------------
// running the real chain
// ------------------------------------------------------------------------------------------------

pub struct RunOut {
    /// output of each `filter` call
    pub outs: Vec<Vec<u8>>,
    /// output of `end`
    pub end: Vec<u8>,
    /// index of the first `filter` call after which `verif_in_error()` is true (chunks.len() = during `end`)
    pub err_at: Option<usize>,
    pub kinds: Vec<&'static str>,
}

impl RunOut {
    pub fn concat(&self) -> Vec<u8> {
        let mut v = Vec::new();
        for o in &self.outs {
            v.extend_from_slice(o);
        }
        v.extend_from_slice(&self.end);
        v
    }
}

pub fn run_chain(fs: &[FSpec], headers: &[Header], chunks: &[Vec<u8>]) -> RunOut {
    let mut chain = FilterBodyAction::new(to_body_filters(fs), headers);
    let kinds = chain.verif_chain_kinds();
    let mut outs = Vec::new();
    let mut err_at = None;
    for (i, c) in chunks.iter().enumerate() {
        outs.push(chain.filter(c.clone(), None));
        if err_at.is_none() && chain.verif_in_error() {
            err_at = Some(i);
        }
    }
    let end = chain.end(None);
    if err_at.is_none() && chain.verif_in_error() {
        err_at = Some(chunks.len());
    }
    RunOut { outs, end, err_at, kinds }
}

// ------------------------------------------------------------------------------------------------
// tokenizer context of a cut (classifier of the known finding D4)
// ------------------------------------------------------------------------------------------------

#[derive(Clone, Debug)]
pub struct Tok {
    pub ty: TokenType,
    pub start: usize,
    pub end: usize,
    pub name: Option<String>,
}

pub const RAW_TEXT: &[&str] = &["iframe", "noembed", "noframes", "noscript", "plaintext", "script", "style", "title", "textarea", "xmp"];

/// All complete tokens of `body` (the real tokenizer); the trailing ErrorToken (partial tag) is not listed.
pub fn tokens(body: &[u8]) -> Vec<Tok> {
    let mut t = Tokenizer::new(body.to_vec());
    let mut pos = 0usize;
    let mut out = Vec::new();
    loop {
        let ty = match t.next() {
            Ok(ty) => ty,
            Err(_) => break,
        };
        if ty == TokenType::ErrorToken {
            break;
        }
        let raw = t.raw();
        let name = match ty {
            TokenType::StartTagToken | TokenType::EndTagToken | TokenType::SelfClosingTagToken => t.tag_name().ok().and_then(|x| x.0),
            _ => None,
        };
        out.push(Tok { ty, start: pos, end: pos + raw.len(), name });
        pos += raw.len();
        if raw.is_empty() {
            break;
        }
    }
    out
}

/// Unsafe zones of `body`: (start, end, class) meaning a cut `p` with start <= p < end (raw-text zone) or
/// start < p < end (inside a token) is unsafe.  Encoded uniformly as half-open [lo, hi) on cut positions.
pub fn unsafe_zones(body: &[u8]) -> Vec<(usize, usize, &'static str)> {
    let toks = tokens(body);
    let mut zones = Vec::new();
    let mut i = 0;
    while i < toks.len() {
        let t = &toks[i];
        match t.ty {
            TokenType::CommentToken => {
                let raw = &body[t.start..t.end];
                let class = if raw.starts_with(b"<!--") { "cut-in-comment" } else { "cut-in-declaration" };
                if t.end > t.start + 1 {
                    zones.push((t.start + 1, t.end, class));
                }
            }
            TokenType::DoctypeToken => {
                if t.end > t.start + 1 {
                    zones.push((t.start + 1, t.end, "cut-in-declaration"));
                }
            }
            TokenType::TextToken => {
                let raw = &body[t.start..t.end];
                if raw.starts_with(b"<![CDATA[") && t.end > t.start + 1 {
                    zones.push((t.start + 1, t.end, "cut-in-cdata"));
                }
            }
            TokenType::StartTagToken | TokenType::SelfClosingTagToken => {
                if let Some(n) = &t.name {
                    if RAW_TEXT.contains(&n.as_str()) {
                        // zone: from the end of the start tag to the end of the matching end tag
                        let mut j = i + 1;
                        let mut zend = body.len() + 1; // unterminated: to the end of input (inclusive)
                        if n != "plaintext" {
                            // the raw text (if any) is one text token, then the end tag follows
                            if j < toks.len() && toks[j].ty == TokenType::TextToken {
                                j += 1;
                            }
                            if j < toks.len() && toks[j].ty == TokenType::EndTagToken && toks[j].name.as_deref() == Some(n.as_str()) {
                                zend = toks[j].end;
                            }
                        }
                        zones.push((t.end, zend, "cut-in-raw-text-zone"));
                    }
                }
            }
            _ => {}
        }
        i += 1;
    }
    zones
}

/// class of the cut position `p` of `body`, None when the cut is safe
pub fn classify_cut(zones: &[(usize, usize, &'static str)], p: usize) -> Option<&'static str> {
    // raw-text zone wins (it is the widest context)
    let mut found = None;
    for (lo, hi, class) in zones {
        if *lo <= p && p < *hi {
            if *class == "cut-in-raw-text-zone" {
                return Some(class);
            }
            if found.is_none() {
                found = Some(*class);
            }
        }
    }
    found
}

/// Classify a schedule against a filter list: the stream entering each html stage is reconstructed by
/// running the stages one by one (each as a chain of one), the first unsafe cut found gives the class.
/// Returns None when every cut of every html stage is safe.
pub fn classify_schedule(fs: &[FSpec], headers: &[Header], chunks: &[Vec<u8>]) -> Option<&'static str> {
    // only the content-type gate matters here (no codec stages in the per-stage reconstruction)
    let headers: Vec<Header> = headers.iter().filter(|h| h.name.to_lowercase() != "content-encoding").cloned().collect();
    let mut cur: Vec<Vec<u8>> = chunks.to_vec();
    let mut first = true;
    for f in fs {
        let probe = FilterBodyAction::new(to_body_filters(std::slice::from_ref(f)), &headers);
        if probe.is_empty() {
            continue;
        }
        if !first {
            // `do_filter` stops at an empty intermediate result: later stages never see empty chunks
            cur.retain(|c| !c.is_empty());
        }
        if f.is_html() {
            let stream: Vec<u8> = cur.iter().flatten().cloned().collect();
            let zones = unsafe_zones(&stream);
            let mut p = 0;
            for (i, c) in cur.iter().enumerate() {
                p += c.len();
                if i + 1 == cur.len() {
                    break;
                }
                if p == 0 {
                    continue;
                }
                if let Some(class) = classify_cut(&zones, p) {
                    return Some(class);
                }
            }
        }
        // feed this stage alone to obtain the chunks entering the next one (its end output is fed last)
        let r = run_chain(std::slice::from_ref(f), &headers, &cur);
        let mut next = r.outs;
        next.push(r.end);
        cur = next;
        first = false;
    }
    None
}

// ------------------------------------------------------------------------------------------------
// generators
// ------------------------------------------------------------------------------------------------

/// `Prng::new` maps consecutive seeds to consecutive generator states (seed s+1 = seed s shifted by one draw);
/// pass the seed through a finalizer first so that different seeds give unrelated streams.
pub fn seeded(seed: u64) -> Prng {
    let mut z = seed.wrapping_add(0x5851_F42D_4C95_7F2D).wrapping_mul(0xD6E8_FEB8_6659_FD93);
    z = (z ^ (z >> 32)).wrapping_mul(0xD6E8_FEB8_6659_FD93);
    z ^= z >> 29;
    Prng(z)
}

pub const FLOW: &[&str] = &["div", "p", "span", "ul", "li", "a", "b", "section", "h1", "em"];
pub const VOIDS: &[&str] = &["br", "img", "meta", "link", "hr", "input"];
const TEXTS: &[&str] = &[
    "hello", "Yolo", " ", "a b c", "x", "1 &lt; 2", "&amp;", "&nbsp;", "caf\u{e9}", "\u{20ac}uro", "\u{1f600}", "na\u{ef}ve \u{4e2d}\u{6587}", "a < b", "x<0 and y>0",
    "i<3", "<", ">", "\n", "\t", "tail<", "5</", "</", "< /p>", "&", "\u{e9}\u{e9}", "\u{1d11e}", "x\u{1f600}y", "\u{1f600}\u{1f600}", "\u{20ac}<", "\u{1f600}<",
];
const ATTRS: &[&str] = &[
    " class=\"page\"", " id=main", " data-x='1'", " hidden", " title=\"a > b\"", " title='<p>'", " href=\"/a?b=1&amp;c=2\"", " a=b c=d", " x = \"y\"", " q=\"it's\"", " r='say \"hi\"'",
    " data-\u{e9}=\"\u{e9}\"", " t=\u{1f600}", " u='\u{1d11e}\u{20ac}'", " \u{1f600}", "\n  lang=\"fr\"", " u=v/", " =z", " \"", " k=", " k= ", " a=\">\"",
];
const COMMENTS: &[&str] = &[
    "<!-- c -->", "<!---->", "<!-- <p>in comment</p> -->", "<!--a--b-->", "<!-- x --!>", "<!-->", "<!--->", "<!-- </div> -->", "<!--\u{e9}-->", "<!-- - -- > -->",
];
const DECLS: &[&str] = &["<!DOCTYPE html>", "<!doctype html>", "<!DOCTYPE html PUBLIC \"-//W3C//DTD\">", "<?xml version=\"1.0\"?>", "<!x>", "<!ELEMENT br EMPTY>", "</>", "</ x>", "</.>", "<!>", "<?>", "<?php echo '<p>'; ?>"];
const CDATAS: &[&str] = &["<![CDATA[x]]>", "<![CDATA[<p>]]>", "<![CDATA[a]]b]]>", "<![CDATA[]]>", "<![CDATA[ </div> ]]>"];
const SCRIPTS: &[&str] = &[
    "alert(1)", "", "var s = \"<p>\";", "if (a<b) { x(); }", "<!-- document.write(\"<script>x</script>\") -->", "<!--<script></script>-->", "var e = '</div>';", "x = '<\\/script>';",
    "<!-- a -->", "</scrip", "</script x", "\u{e9}", "<p></p>", "<!--", "<!-- <script> ", "a</b>c",
];
const RAWS: &[&str] = &["script", "style", "title", "textarea", "xmp", "iframe", "noscript", "noembed", "noframes", "plaintext"];
/// the five HTML white-space bytes, in runs that may precede the `>` of a start or end tag
const WS_RUNS: &[&str] = &[" ", "\t", "\n", "\x0c", "\r", "  ", " \n", "\r\n", "\t \x0c", "\n\n\t"];
/// raw-text content that looks like markup: `<`, `</`, partial end tags, comment openers, nested-looking elements
const RAWCONTENT: &[&str] = &["<", "</", "</x", "</x>", "a<b", "1</2", "<!--", "<!-- x", "<p>", "<p></p>", "</titl", "</scrip", "</styl", "</textare", "<title>", "<script>", "<textarea>x", "\u{e9}<", "<\u{1f600}", "x</ y"];

const TRICKY: &[&str] = &[
    "<", "</", "<a", "<a ", "<a b", "<a b=", "<a b=\"", "<a b='x", "</a", "</a ", "<!", "<!-", "<!--", "<!-- x", "<!-- x -", "<!-- x --", "<!D", "<!DOCTYPE", "<!DOCTYPE h", "<![", "<![CDATA[", "<![CDATA[x]",
    "<![CDATA[x]]", "<?", "<? x", "<script>", "<script>a", "<script><!--", "<script><!--<script>", "<script><!--<script></script>", "<textarea>", "<textarea><p>", "<title>", "<title></titl",
    "<style>", "<plaintext>", "<plaintext><p></plaintext>", "<p/>", "<br/>", "<br>", "<DIV>", "</DIV>", "<Div CLASS=x>", "<div/>", "<p>", "</p>", "<p", "<<p>", "<p>>", "<1>", "< p>", "<p\n>", "</p\n>",
    "<textarea><p></textarea>", "<title><b></title>", "<script>1<2</script>", "<style>a>b</style>", "<xmp><p></xmp>", "<script/>", "<textarea/><p></textarea>", "<TEXTAREA><p></TEXTAREA>",
    "<textarea></textarea >", "<textarea></textarea/>", "<textarea></textareax>", "<script></SCRIPT>",
];

pub struct Gen<'a> {
    pub rng: &'a mut Prng,
    pub out: String,
    /// element names already used once (to keep some names unique on demand)
    pub budget: usize,
}

impl<'a> Gen<'a> {
    pub fn new(rng: &'a mut Prng) -> Self {
        Gen { rng, out: String::new(), budget: 40 }
    }

    fn case_name(&mut self, n: &str) -> String {
        match self.rng.below(12) {
            0 => n.to_uppercase(),
            1 => {
                let mut s = n.to_string();
                if let Some(f) = s.get_mut(0..1) {
                    f.make_ascii_uppercase();
                }
                s
            }
            _ => n.to_string(),
        }
    }

    fn attrs(&mut self) {
        let k = match self.rng.below(10) {
            0..=4 => 0,
            5..=7 => 1,
            8 => 2,
            _ => 3,
        };
        for _ in 0..k {
            let a = *self.rng.pick(ATTRS);
            self.out.push_str(a);
        }
    }

    fn text(&mut self) {
        let t = *self.rng.pick(TEXTS);
        self.out.push_str(t);
    }

    fn start_tag(&mut self, n: &str) {
        let nm = self.case_name(n);
        self.out.push('<');
        self.out.push_str(&nm);
        self.attrs();
        if self.rng.chance(1, 8) {
            let w = *self.rng.pick(WS_RUNS);
            self.out.push_str(w);
        }
        self.out.push('>');
    }

    fn end_tag(&mut self, n: &str) {
        // omitted end tag / odd spelling
        match self.rng.below(20) {
            0 => {}
            1 => {
                self.out.push_str("</");
                self.out.push_str(&n.to_uppercase());
                self.out.push('>');
            }
            2 | 3 | 4 => {
                // white space before '>' (all five HTML white-space bytes), any letter case
                let nm = self.case_name(n);
                let w = *self.rng.pick(WS_RUNS);
                self.out.push_str("</");
                self.out.push_str(&nm);
                self.out.push_str(w);
                self.out.push('>');
            }
            5 => {
                // mixed case
                let nm: String = n.chars().enumerate().map(|(i, c)| if i % 2 == 1 { c.to_ascii_uppercase() } else { c }).collect();
                self.out.push_str("</");
                self.out.push_str(&nm);
                self.out.push('>');
            }
            _ => {
                self.out.push_str("</");
                self.out.push_str(n);
                self.out.push('>');
            }
        }
    }

    pub fn node(&mut self, depth: usize) {
        if self.budget == 0 {
            return;
        }
        self.budget -= 1;
        let r = self.rng.below(100);
        if r < 26 {
            self.text();
        } else if r < 32 {
            let c = *self.rng.pick(COMMENTS);
            self.out.push_str(c);
        } else if r < 35 {
            let c = *self.rng.pick(DECLS);
            self.out.push_str(c);
        } else if r < 37 {
            let c = *self.rng.pick(CDATAS);
            self.out.push_str(c);
        } else if r < 45 {
            // void / self-closing
            let n = *self.rng.pick(VOIDS);
            let nm = self.case_name(n);
            self.out.push('<');
            self.out.push_str(&nm);
            self.attrs();
            match self.rng.below(3) {
                0 => self.out.push_str("/>"),
                1 => self.out.push_str(" />"),
                _ => self.out.push('>'),
            }
        } else if r < 48 {
            // self-closing non-void
            let n = *self.rng.pick(FLOW);
            self.out.push('<');
            self.out.push_str(n);
            self.attrs();
            self.out.push_str("/>");
        } else if r < 57 {
            // raw-text element
            let n = *self.rng.pick(RAWS);
            self.start_tag(n);
            let k = self.rng.below(3);
            for _ in 0..k {
                let s = if self.rng.chance(1, 2) { *self.rng.pick(SCRIPTS) } else { *self.rng.pick(RAWCONTENT) };
                self.out.push_str(s);
            }
            self.end_tag(n);
        } else if r < 60 {
            let c = *self.rng.pick(TRICKY);
            self.out.push_str(c);
        } else {
            let n = *self.rng.pick(FLOW);
            self.element(n, depth);
        }
    }

    pub fn element(&mut self, n: &str, depth: usize) {
        self.start_tag(n);
        let k = if depth >= 4 { self.rng.below(2) } else { self.rng.below(4) };
        for _ in 0..k {
            self.node(depth + 1);
        }
        self.end_tag(n);
    }

    /// html / head / body skeleton with random content
    pub fn document(&mut self) {
        if self.rng.chance(1, 3) {
            let d = *self.rng.pick(&DECLS[..3]);
            self.out.push_str(d);
            if self.rng.chance(1, 2) {
                self.out.push('\n');
            }
        }
        self.start_tag("html");
        if self.rng.chance(4, 5) {
            self.start_tag("head");
            let k = self.rng.below(4);
            for _ in 0..k {
                match self.rng.below(6) {
                    0 => {
                        self.start_tag("title");
                        let s = *self.rng.pick(&["T", "a &amp; b", "<b>t</b>", "caf\u{e9}", ""]);
                        self.out.push_str(s);
                        self.end_tag("title");
                    }
                    1 => {
                        let s = *self.rng.pick(&["<meta charset=\"utf-8\">", "<meta name=\"description\" content=\"d\" />", "<META NAME=x>", "<meta/>"]);
                        self.out.push_str(s);
                    }
                    2 => {
                        self.out.push_str("<link rel=\"stylesheet\" href=\"/s.css\">");
                    }
                    3 => {
                        self.start_tag("script");
                        let s = *self.rng.pick(SCRIPTS);
                        self.out.push_str(s);
                        self.end_tag("script");
                    }
                    4 => {
                        self.start_tag("style");
                        let s = *self.rng.pick(&["p > a { color: red }", "", "a:before{content:'<'}"]);
                        self.out.push_str(s);
                        self.end_tag("style");
                    }
                    _ => self.node(3),
                }
            }
            self.end_tag("head");
        }
        if self.rng.chance(9, 10) {
            self.start_tag("body");
            let k = self.rng.range(0, 4);
            for _ in 0..k {
                self.node(1);
            }
            self.end_tag("body");
        }
        self.end_tag("html");
        if self.rng.chance(1, 6) {
            self.out.push('\n');
        }
    }
}

fn char_boundaries(s: &str) -> Vec<usize> {
    let mut v: Vec<usize> = s.char_indices().map(|(i, _)| i).collect();
    v.push(s.len());
    v
}

/// mutation that keeps the string valid UTF-8
pub fn mutate_str(rng: &mut Prng, s: &str) -> String {
    let b = char_boundaries(s);
    let i = b[rng.below(b.len())];
    let j = b[rng.below(b.len())];
    let (lo, hi) = if i <= j { (i, j) } else { (j, i) };
    match rng.below(6) {
        0 => format!("{}{}", &s[..lo], &s[hi..]),                 // delete a range
        1 => s[..hi].to_string(),                                 // truncate
        2 => format!("{}{}{}", &s[..hi], &s[lo..hi], &s[hi..]),   // duplicate a range
        3 => format!("{}{}{}", &s[..lo], rng.pick(TRICKY), &s[lo..]), // insert tricky markup
        4 => format!("{}{}{}", &s[..lo], rng.pick(&["<", ">", "/", "!", "-", "\"", "'", "=", " ", "]", "?"]), &s[lo..]),
        _ => s[lo..].to_string(),                                 // drop a prefix
    }
}

/// A body (valid UTF-8).  Tags: the shape that was generated.
pub fn gen_body(rng: &mut Prng) -> (String, &'static str) {
    let shape = rng.below(100);
    let (mut s, tag) = if shape < 55 {
        let mut g = Gen::new(rng);
        g.budget = 8 + g.rng.below(30);
        g.document();
        (g.out, "doc")
    } else if shape < 80 {
        let mut g = Gen::new(rng);
        g.budget = 4 + g.rng.below(20);
        let k = g.rng.range(1, 4);
        for _ in 0..k {
            g.node(1);
        }
        (g.out, "fragment")
    } else {
        // adversarial: concatenation of tricky snippets inside a small skeleton
        let mut s = String::new();
        if rng.chance(1, 2) {
            s.push_str("<html><body>");
        }
        let k = rng.range(1, 5);
        for _ in 0..k {
            match rng.below(5) {
                0 => s.push_str(*rng.pick(TEXTS)),
                1 => s.push_str(*rng.pick(COMMENTS)),
                2 => s.push_str("<div><p>t</p></div>"),
                _ => s.push_str(*rng.pick(TRICKY)),
            }
        }
        if rng.chance(1, 2) {
            s.push_str("</body></html>");
        }
        (s, "tricky")
    };
    let mut tag = tag;
    if rng.chance(3, 10) {
        let k = rng.range(1, 3);
        for _ in 0..k {
            s = mutate_str(rng, &s);
        }
        tag = match tag {
            "doc" => "doc+mut",
            "fragment" => "fragment+mut",
            _ => "tricky+mut",
        };
    }
    if s.len() > 400 {
        let b = char_boundaries(&s);
        let cut = *b.iter().filter(|x| **x <= 400).last().unwrap();
        s.truncate(cut);
    }
    (s, tag)
}

/// arbitrary byte mutation (C04: non-UTF-8 input)
pub fn mutate_bytes(rng: &mut Prng, b: &mut Vec<u8>) {
    let k = rng.range(1, 3);
    for _ in 0..k {
        let pos = if b.is_empty() { 0 } else { rng.below(b.len() + 1) };
        match rng.below(5) {
            0 => b.insert(pos.min(b.len()), *rng.pick(&[0xffu8, 0xc3, 0xe2, 0x80, 0xf0, 0xc0, 0xed, 0xa0, 0xf5, 0x00])),
            1 => {
                if !b.is_empty() {
                    let p = pos.min(b.len() - 1);
                    b[p] = (rng.next() & 0xff) as u8;
                }
            }
            2 => {
                if !b.is_empty() {
                    b.remove(pos.min(b.len() - 1));
                }
            }
            3 => {
                // truncated multi-byte sequence at the end
                const TR: &[&[u8]] = &[&[0xc3], &[0xe2, 0x82], &[0xf0, 0x9f, 0x98], &[0xe2], &[0xf0]];
                let t: &[u8] = TR[rng.below(TR.len())];
                b.extend_from_slice(t);
            }
            _ => {
                const BAD: &[&[u8]] = &[&[0xed, 0xa0, 0x80], &[0xc0, 0xaf], &[0xf4, 0x90, 0x80, 0x80], &[0xe0, 0x80, 0x80], &[0x80]];
                let seq: &[u8] = BAD[rng.below(BAD.len())];
                let p = pos.min(b.len());
                for (i, x) in seq.iter().enumerate() {
                    b.insert(p + i, *x);
                }
            }
        }
    }
}

pub const PATHS: &[&[&str]] = &[
    &["html"],
    &["html", "body"],
    &["html", "head"],
    &["html", "head", "title"],
    &["html", "head", "meta"],
    &["html", "head", "script"],
    &["html", "body", "div"],
    &["html", "body", "p"],
    &["html", "body", "div", "p"],
    &["html", "body", "div", "span"],
    &["html", "body", "ul", "li"],
    &["html", "body", "section", "div"],
    &["html", "body", "br"],
    &["html", "body", "div", "img"],
    &["body"],
    &["div"],
    &["p"],
    &["div", "p"],
    &["div", "div"],
    &["span"],
    &["textarea"],
    &["script"],
    &["html", "body", "nope"],
    &["nope"],
    &["HTML", "body"],
    &["html", "body", "div", "p", "span"],
    &["title"],
    &["style"],
    &["html", "head", "style"],
    &["html", "body", "textarea"],
    &["html", "body", "script"],
    &["html", "body", "div", "textarea"],
    &["xmp"],
    &["noscript"],
    &["iframe"],
];

/// selector kinds whose outcome does not depend on scraper's parsing of the fragment
pub fn gen_selector(rng: &mut Prng) -> Option<String> {
    match rng.below(10) {
        0..=3 => None,
        4 => Some(String::new()),
        5..=7 => Some("*".to_string()),
        _ => Some("rio-never".to_string()),
    }
}

/// Sentinel values: they do not occur in generated bodies ("§" is never generated, nor the names used here).
pub fn sentinel(rng: &mut Prng, i: usize) -> String {
    match rng.below(5) {
        0 => format!("\u{a7}V{i}\u{a7}"),
        1 => format!("<ins-{i}>v{i}</ins-{i}>"),
        2 => format!("<ins-{i} k=\"{i}\"/>"),
        3 => format!("<!--ins{i}-->"),
        _ => format!("<ins-{i}>\u{e9}{i}</ins-{i}>"),
    }
}

pub fn gen_html_filter(rng: &mut Prng, i: usize, nasty_values: bool) -> FSpec {
    let action = match rng.below(20) {
        0 => "frobnicate",
        1..=7 => "append_child",
        8..=13 => "prepend_child",
        _ => "replace",
    };
    let path: Vec<String> = if rng.chance(1, 40) { vec![] } else { rng.pick(PATHS).iter().map(|s| s.to_string()).collect() };
    let sel = gen_selector(rng);
    let value = if nasty_values && rng.chance(1, 8) {
        rng.pick(&["<script>", "<!--", "<textarea>", "<p", "</div>", "<div>", "<", "<title>x"]).to_string() + &format!("\u{a7}{i}")
    } else {
        sentinel(rng, i)
    };
    FSpec::Html { action: action.to_string(), path, sel, value }
}

pub fn gen_text_filter(rng: &mut Prng, i: usize, allow_replace: bool) -> FSpec {
    let action = match rng.below(if allow_replace { 5 } else { 4 }) {
        0 | 1 => "append_text",
        2 | 3 => "prepend_text",
        _ => "replace_text",
    };
    let content = if rng.chance(1, 10) { String::new() } else { format!("\u{a7}T{i}\u{a7}") };
    FSpec::Text { action: action.to_string(), content }
}

/// chains of 0..=max filters (max 3 by default; C04 asks for 5 so that text stages sit between html stages)
pub fn gen_filters_n(rng: &mut Prng, allow_text_replace: bool, nasty_values: bool, max: usize) -> Vec<FSpec> {
    let mut k = match rng.below(20) {
        0 => 0,
        1..=10 => 1,
        11..=16 => 2,
        _ => 3,
    };
    if max > 3 && rng.chance(1, 4) {
        k = rng.range(3, max);
    }
    let text_share = if k >= 3 { 2 } else { 1 };
    (0..k)
        .map(|i| if rng.below(5) >= text_share { gen_html_filter(rng, i, nasty_values) } else { gen_text_filter(rng, i, allow_text_replace) })
        .collect()
}

pub fn gen_filters(rng: &mut Prng, allow_text_replace: bool, nasty_values: bool) -> Vec<FSpec> {
    gen_filters_n(rng, allow_text_replace, nasty_values, 3)
}

pub fn gen_headers(rng: &mut Prng) -> Vec<[String; 2]> {
    match rng.below(20) {
        0..=8 => vec![],
        9..=13 => vec![["Content-Type".to_string(), "text/html".to_string()]],
        14 => vec![["content-type".to_string(), "TEXT/HTML; charset=utf-8".to_string()]],
        15 => vec![["Content-Type".to_string(), "application/json".to_string()]],
        16 => vec![["Content-Type".to_string(), "text/plain".to_string()], ["X-Other".to_string(), "1".to_string()]],
        17 => vec![["Content-Type".to_string(), "text/plain".to_string()], ["CONTENT-TYPE".to_string(), "text/html".to_string()]],
        18 => vec![["Content-Encoding".to_string(), "identity".to_string()]],
        _ => vec![["Content-Encoding".to_string(), "zstd".to_string()], ["Content-Type".to_string(), "text/html".to_string()]],
    }
}

pub fn headers_json(h: &[[String; 2]]) -> Value {
    Value::Array(h.iter().map(|p| json!([p[0], p[1]])).collect())
}

/// partitions: every single cut, one byte at a time, empty chunks, random k-cuts
pub fn gen_scheds(rng: &mut Prng, len: usize, all_single: bool, extra: usize) -> Vec<Vec<usize>> {
    let mut out: Vec<Vec<usize>> = Vec::new();
    if all_single {
        for p in 0..=len {
            out.push(vec![p]);
        }
    }
    // one byte at a time
    if len > 0 && len <= 200 {
        out.push((1..len).collect());
    }
    // empty chunks
    if len > 0 {
        let p = rng.below(len + 1);
        out.push(vec![0, p, p, len]);
    } else {
        out.push(vec![0, 0]);
    }
    // no chunk at all is not expressible here (a schedule always has >= 1 chunk); the empty body covers it
    for _ in 0..extra {
        let k = rng.range(1, 6);
        let mut cuts: Vec<usize> = (0..k).map(|_| rng.below(len + 1)).collect();
        cuts.sort();
        out.push(cuts);
    }
    // fixed strides
    for stride in [2usize, 3, 7] {
        if len > stride && rng.chance(1, 3) {
            out.push((1..=(len - 1) / stride).map(|i| i * stride).collect());
        }
    }
    out
}

pub fn scheds_json(s: &[Vec<usize>]) -> Value {
    Value::Array(s.iter().map(|c| json!(c)).collect())
}

// ------------------------------------------------------------------------------------------------
// C04: conservativity oracle
// ------------------------------------------------------------------------------------------------

/// Is `out` obtained from `body` by (a) inserting whole copies of `inserts` at arbitrary places and
/// (b) substituting spans of `body` that start with '<' and end with '>' by a whole copy of one of `replaces`?
/// Dynamic programme over (position in body, position in out).
pub fn conservative(body: &[u8], out: &[u8], inserts: &[Vec<u8>], replaces: &[Vec<u8>]) -> bool {
    let n = body.len();
    let m = out.len();
    if (n + 1) * (m + 1) > 4_000_000 {
        return conservative_large(body, out, inserts, replaces);
    }
    // reach[i][j]: body[..i] explained by out[..j]
    let mut reach = vec![vec![false; m + 1]; n + 1];
    reach[0][0] = true;
    // positions of '>' in body
    for i in 0..=n {
        for j in 0..=m {
            if !reach[i][j] {
                continue;
            }
            if i < n && j < m && body[i] == out[j] {
                reach[i + 1][j + 1] = true;
            }
            for v in inserts {
                if !v.is_empty() && out[j..].starts_with(v) {
                    reach[i][j + v.len()] = true;
                }
            }
            if i < n && body[i] == b'<' {
                for v in replaces {
                    if out[j..].starts_with(v) {
                        for e in i + 1..n {
                            if body[e] == b'>' {
                                reach[e + 1][j + v.len()] = true;
                            }
                        }
                    }
                }
            }
        }
    }
    reach[n][m]
}

/// The same relation for large inputs (the quadratic table would not fit).  Uses the sentinel hypothesis: a value never
/// occurs in the body, so every occurrence of a value in `out` is a copy of that value.  `out` is cut at the values;
/// insert values vanish, the literal pieces between replace values must tile `body` with '<'..'>' spans in between
/// (depth-first search with memo over (piece, position)).
pub fn conservative_large(body: &[u8], out: &[u8], inserts: &[Vec<u8>], replaces: &[Vec<u8>]) -> bool {
    let mut vals: Vec<(&[u8], bool)> = inserts.iter().filter(|v| !v.is_empty()).map(|v| (v.as_slice(), false)).collect();
    vals.extend(replaces.iter().filter(|v| !v.is_empty()).map(|v| (v.as_slice(), true)));
    vals.sort_by_key(|v| std::cmp::Reverse(v.0.len()));
    let firsts: Vec<u8> = vals.iter().map(|v| v.0[0]).collect();
    let mut pieces: Vec<Vec<u8>> = vec![Vec::new()];
    let mut j = 0;
    while j < out.len() {
        let mut hit = None;
        if firsts.contains(&out[j]) {
            for (v, is_rep) in &vals {
                if out[j..].starts_with(v) {
                    hit = Some((v.len(), *is_rep));
                    break;
                }
            }
        }
        match hit {
            Some((l, is_rep)) => {
                if is_rep {
                    pieces.push(Vec::new());
                }
                j += l;
            }
            None => {
                pieces.last_mut().unwrap().push(out[j]);
                j += 1;
            }
        }
    }
    let n = body.len();
    let k = pieces.len() - 1;
    let gts: Vec<usize> = (0..n).filter(|i| body[*i] == b'>').collect();
    let mut dead: std::collections::HashSet<(usize, usize)> = std::collections::HashSet::new();
    // iterative DFS
    let mut stack: Vec<(usize, usize)> = vec![(0, 0)];
    while let Some((i, pos)) = stack.pop() {
        if dead.contains(&(i, pos)) {
            continue;
        }
        dead.insert((i, pos));
        let p = &pieces[i];
        if pos + p.len() > n || body[pos..pos + p.len()] != p[..] {
            continue;
        }
        let after = pos + p.len();
        if i == k {
            if after == n {
                return true;
            }
            continue;
        }
        if after >= n || body[after] != b'<' {
            continue;
        }
        let next = &pieces[i + 1];
        let start = gts.partition_point(|g| *g <= after);
        // candidates in reverse so that the nearest '>' is tried first
        for g in gts[start..].iter().rev() {
            let e = g + 1;
            if next.is_empty() || (e < n && body[e] == next[0]) || (e == n && next.is_empty()) {
                if !dead.contains(&(i + 1, e)) {
                    stack.push((i + 1, e));
                }
            }
        }
    }
    false
}

pub fn hexs(v: &[u8]) -> String {
    hex(v)
}

// ------------------------------------------------------------------------------------------------
// codecs (C14, and the compressed cases of C04): producer, independent decoder, flush points
// ------------------------------------------------------------------------------------------------

pub const ENCODINGS: &[&str] = &["gzip", "deflate", "br"];

/// Producer of the compressed body.  `level`: 0..=9 for gzip/deflate, 0..=11 for br; `window`: lgwin 10..=24 (br only);
/// `pflush`: positions of the plain body after which the producer issues a sync flush (several deflate blocks /
/// brotli meta-blocks in the stream).
pub fn compress(enc: &str, level: u32, window: u32, pflush: &[usize], body: &[u8]) -> Option<Vec<u8>> {
    use std::io::Write;
    let mut cuts: Vec<usize> = pflush.iter().cloned().filter(|p| *p <= body.len()).collect();
    cuts.sort();
    let parts = split_at_cuts(body, &cuts);
    match enc {
        "gzip" => {
            let mut e = flate2::write::GzEncoder::new(Vec::new(), flate2::Compression::new(level.min(9)));
            for (i, p) in parts.iter().enumerate() {
                e.write_all(p).ok()?;
                if i + 1 < parts.len() {
                    e.flush().ok()?;
                }
            }
            e.finish().ok()
        }
        "deflate" => {
            let mut e = flate2::write::ZlibEncoder::new(Vec::new(), flate2::Compression::new(level.min(9)));
            for (i, p) in parts.iter().enumerate() {
                e.write_all(p).ok()?;
                if i + 1 < parts.len() {
                    e.flush().ok()?;
                }
            }
            e.finish().ok()
        }
        "br" => {
            let mut e = brotli::CompressorWriter::new(Vec::new(), 4096, level.min(11), window.clamp(10, 24));
            for (i, p) in parts.iter().enumerate() {
                e.write_all(p).ok()?;
                if i + 1 < parts.len() {
                    e.flush().ok()?;
                }
            }
            Some(e.into_inner())
        }
        _ => None,
    }
}

/// Independent decoder (the *read* side of the crates; the code under test uses the write side).
/// None = not a complete valid stream of that encoding (or trailing garbage).
pub fn decode_independent(enc: &str, z: &[u8]) -> Option<Vec<u8>> {
    use std::io::Read;
    let mut out = Vec::new();
    match enc {
        "gzip" => {
            let mut rest: &[u8] = z;
            {
                let mut d = flate2::bufread::GzDecoder::new(&mut rest);
                d.read_to_end(&mut out).ok()?;
            }
            if !rest.is_empty() {
                return None;
            }
            Some(out)
        }
        "deflate" => {
            let mut rest: &[u8] = z;
            {
                let mut d = flate2::bufread::ZlibDecoder::new(&mut rest);
                d.read_to_end(&mut out).ok()?;
                if d.total_in() as usize != z.len() {
                    return None;
                }
            }
            Some(out)
        }
        "br" => {
            let mut d = brotli::Decompressor::new(z, 4096);
            d.read_to_end(&mut out).ok()?;
            Some(out)
        }
        _ => None,
    }
}

/// What `DecodeFilterBody::filter` returns for each chunk and `end()` at the end (a replica of
/// src/filter/encoding/decode.rs used only to locate the flush points in the plain body).
/// Err(k) = the decoder failed at chunk k (chunks.len() = in end).
pub fn decoder_outputs(enc: &str, chunks: &[Vec<u8>]) -> Result<(Vec<Vec<u8>>, Vec<u8>), usize> {
    use std::io::Write;
    let mut outs = Vec::new();
    macro_rules! drive {
        ($d:expr, $finish:expr) => {{
            let mut d = $d;
            for (k, c) in chunks.iter().enumerate() {
                if d.write_all(c).is_err() || d.flush().is_err() {
                    return Err(k);
                }
                let mut buf = Vec::new();
                std::mem::swap(&mut buf, d.get_mut());
                outs.push(buf);
            }
            let end: Vec<u8> = match $finish(d) {
                Some(v) => v,
                None => return Err(chunks.len()),
            };
            Ok((outs, end))
        }};
    }
    match enc {
        "gzip" => drive!(flate2::write::GzDecoder::new(Vec::new()), |mut d: flate2::write::GzDecoder<Vec<u8>>| {
            if d.try_finish().is_err() {
                return None;
            }
            d.finish().ok()
        }),
        "deflate" => drive!(flate2::write::ZlibDecoder::new(Vec::new()), |mut d: flate2::write::ZlibDecoder<Vec<u8>>| {
            if d.try_finish().is_err() {
                return None;
            }
            d.finish().ok()
        }),
        "br" => drive!(brotli::DecompressorWriter::new(Vec::new(), 4096), |d: brotli::DecompressorWriter<Vec<u8>>| {
            match d.into_inner() {
                Ok(b) => Some(b),
                Err(b) => Some(b),
            }
        }),
        _ => Err(0),
    }
}

/// cut positions of the plain body induced by the decoder outputs (all of them, empty outputs included)
pub fn flush_cuts(outs: &[Vec<u8>]) -> Vec<usize> {
    let mut p = 0;
    let mut cuts = Vec::new();
    for o in outs {
        p += o.len();
        cuts.push(p);
    }
    cuts
}

// ------------------------------------------------------------------------------------------------
// ------------------------------------------------------------------------------------------------
// C04: the STRONG per-stage oracle (review A, C04-2).  `a` = the whole stream a stage receives, `b` = everything it emits,
// both obtained from the implementation (the chain of the first j-1 / j filters on the same body, one chunk).
//   text stages   : b == a ++ v / v ++ a / v, exactly
//   insert stages : b with every copy of v removed is a (v must not occur in a: sentinel), and the number of copies is at
//                   most the number of tag tokens of a (real tokenizer, independent run) whose name is on the path
//   replace stage : cut b at the copies of v: the literal pieces must tile a with, between two pieces, exactly one ELEMENT
//                   SPAN of the target (last path element): a start tag token named tgt up to the FIRST closer of that
//                   name (end tag / self-closing tag), or a single void / self-closing tgt tag; spans are token aligned,
//                   non-overlapping, in order; nothing is inserted, nothing else is removed
// Ok(None) = holds; Ok(Some(reason)) = not applicable (sentinel hypothesis fails, empty value); Err(why) = violated.
// ------------------------------------------------------------------------------------------------

/// the HTML void elements (the harness's own statement; `VOID_ELEMENTS` of html_filter_body.rs)
pub const VOID_ELEMENTS_H: &[&str] = &["area", "base", "br", "col", "embed", "hr", "img", "input", "link", "meta", "param", "source", "track", "wbr"];

fn find_all(hay: &[u8], needle: &[u8]) -> Vec<usize> {
    let mut v = Vec::new();
    if needle.is_empty() || hay.len() < needle.len() {
        return v;
    }
    let mut i = 0;
    while i + needle.len() <= hay.len() {
        if &hay[i..i + needle.len()] == needle {
            v.push(i);
            i += needle.len();
        } else {
            i += 1;
        }
    }
    v
}

pub fn stage_strong(a: &[u8], b: &[u8], f: &FSpec) -> Result<Option<&'static str>, String> {
    match f {
        FSpec::Text { action, content } => {
            let v = content.as_bytes();
            let want: Vec<u8> = match action.as_str() {
                "append_text" => [a, v].concat(),
                "prepend_text" => [v, a].concat(),
                "replace_text" => v.to_vec(),
                _ => return Ok(Some("unknown text action")),
            };
            if b == &want[..] {
                Ok(None)
            } else {
                Err(format!("text stage {action}: the output is not exactly the closed form"))
            }
        }
        FSpec::Html { action, path, value, .. } => {
            let v = value.as_bytes();
            if v.is_empty() {
                return if action == "replace" { Ok(Some("empty value")) } else if a == b { Ok(None) } else { Err("insert stage with an empty value changed the stream".into()) };
            }
            if !find_all(a, v).is_empty() {
                return Ok(Some("value occurs in the input of the stage"));
            }
            let toks = tokens(a);
            let occ = find_all(b, v);
            if action != "replace" {
                // strip the copies
                let mut stripped = Vec::with_capacity(b.len());
                let mut pos = 0;
                for o in &occ {
                    stripped.extend_from_slice(&b[pos..*o]);
                    pos = o + v.len();
                }
                stripped.extend_from_slice(&b[pos..]);
                if stripped != a {
                    return Err(format!("insert stage {action}: the output without the {} copies of the value is not the input", occ.len()));
                }
                // the theorem's bound: one copy per tag token named on the path
                let on_path = toks.iter().filter(|t| matches!(t.ty, TokenType::StartTagToken | TokenType::EndTagToken | TokenType::SelfClosingTagToken) && t.name.as_ref().map(|n| path.iter().any(|p| p == n)).unwrap_or(false)).count();
                if occ.len() > on_path {
                    return Err(format!("insert stage {action}: {} copies of the value but only {on_path} tag tokens named on the path", occ.len()));
                }
                // a tighter bound the code meets (checked on the implementation only): append_child inserts when an element
                // is LEFT — at most one copy per closer (end tag / self-closing / void start tag) named on the path;
                // prepend_child when one is ENTERED — at most one copy per opener (start / self-closing tag) named on the
                // path.  (Not "per target element": with an absent last path element append_child acts on the parent —
                // observation O7, C15.)
                let named = |t: &&Tok| t.name.as_ref().map(|n| path.iter().any(|p| p == n)).unwrap_or(false);
                let openers = toks.iter().filter(named).filter(|t| matches!(t.ty, TokenType::StartTagToken | TokenType::SelfClosingTagToken)).count();
                let closers = toks
                    .iter()
                    .filter(named)
                    .filter(|t| matches!(t.ty, TokenType::EndTagToken | TokenType::SelfClosingTagToken) || (t.ty == TokenType::StartTagToken && VOID_ELEMENTS_H.contains(&t.name.as_deref().unwrap_or(""))))
                    .count();
                let bound = if action == "append_child" { closers } else { openers };
                if occ.len() > bound {
                    return Err(format!("insert stage {action}: {} copies of the value but only {bound} openers / closers named on the path", occ.len()));
                }
                return Ok(None);
            }
            // replace
            let tgt = match path.last() {
                Some(t) => t.as_str(),
                None => return Ok(Some("empty path")),
            };
            let is_void = VOID_ELEMENTS_H.contains(&tgt);
            let named = |t: &Tok| t.name.as_deref() == Some(tgt);
            let mut pieces: Vec<&[u8]> = Vec::new();
            let mut pos = 0;
            for o in &occ {
                pieces.push(&b[pos..*o]);
                pos = o + v.len();
            }
            pieces.push(&b[pos..]);
            let mut apos = 0usize;
            for (i, p) in pieces.iter().enumerate() {
                if apos + p.len() > a.len() || &a[apos..apos + p.len()] != *p {
                    return Err(format!("replace stage: the literal piece #{i} of the output is not the input at offset {apos}"));
                }
                apos += p.len();
                if i + 1 == pieces.len() {
                    break;
                }
                // an element span of tgt must start exactly here
                let ti = match toks.iter().position(|t| t.start == apos) {
                    Some(ti) => ti,
                    None => return Err(format!("replace stage: substitution #{i} does not start at a token boundary (offset {apos})")),
                };
                let t0 = &toks[ti];
                let single = named(t0) && (t0.ty == TokenType::SelfClosingTagToken || (t0.ty == TokenType::StartTagToken && is_void));
                if single {
                    apos = t0.end;
                    continue;
                }
                if !(named(t0) && t0.ty == TokenType::StartTagToken) {
                    return Err(format!("replace stage: substitution #{i} at offset {apos} does not start with a <{tgt}> start tag"));
                }
                let closer = toks[ti + 1..].iter().find(|t| named(t) && matches!(t.ty, TokenType::EndTagToken | TokenType::SelfClosingTagToken));
                match closer {
                    Some(c) => apos = c.end,
                    None => return Err(format!("replace stage: substitution #{i} at offset {apos}: no closer of <{tgt}> follows")),
                }
            }
            if apos != a.len() {
                return Err(format!("replace stage: {} input bytes after the last piece are missing from the output", a.len() - apos));
            }
            Ok(None)
        }
    }
}

// the semantic safe-cut predicate of Proofs/FilterSplit.lean (`safeCutB`), on the REAL tokenizer
// ------------------------------------------------------------------------------------------------

#[derive(Clone, Debug, PartialEq, Eq)]
pub struct RTok {
    pub ty: u8,
    pub raw: Vec<u8>,
    pub name: Option<String>,
}

/// complete tokens of `data` and `raw() ++ buffered()` at the ErrorToken
pub fn rtokenize(data: &[u8]) -> (Vec<RTok>, Vec<u8>) {
    let mut t = Tokenizer::new(data.to_vec());
    let mut out = Vec::new();
    loop {
        let ty = match t.next() {
            Ok(ty) => ty,
            Err(_) => return (out, Vec::new()),
        };
        if ty == TokenType::ErrorToken {
            let mut rest = t.raw();
            rest.extend(t.buffered());
            return (out, rest);
        }
        let raw = t.raw();
        let (k, name) = match ty {
            TokenType::TextToken => (0u8, None),
            TokenType::StartTagToken => (1, t.tag_name().ok().and_then(|x| x.0)),
            TokenType::EndTagToken => (2, t.tag_name().ok().and_then(|x| x.0)),
            TokenType::SelfClosingTagToken => (3, t.tag_name().ok().and_then(|x| x.0)),
            _ => (4, None),
        };
        if raw.is_empty() {
            return (out, Vec::new());
        }
        out.push(RTok { ty: k, raw, name });
    }
}

/// `splitHeld`: a final text token containing '<' is held
pub fn split_held(mut ts: Vec<RTok>) -> (Vec<RTok>, Vec<u8>) {
    match ts.last() {
        Some(t) if t.ty == 0 && t.raw.contains(&b'<') => {
            let h = ts.pop().unwrap();
            (ts, h.raw)
        }
        _ => (ts, Vec::new()),
    }
}

/// `utf8Split`: None = invalid, else (valid part, incomplete tail)
pub fn utf8_split(d: &[u8]) -> Option<(Vec<u8>, Vec<u8>)> {
    match std::str::from_utf8(d) {
        Ok(_) => Some((d.to_vec(), Vec::new())),
        Err(e) => {
            if e.error_len().is_some() {
                None
            } else {
                Some((d[..e.valid_up_to()].to_vec(), d[e.valid_up_to()..].to_vec()))
            }
        }
    }
}

/// `normText`: merge adjacent text tokens
pub fn norm_text(ts: &[RTok]) -> Vec<RTok> {
    let mut out: Vec<RTok> = Vec::new();
    for t in ts {
        match out.last_mut() {
            Some(l) if l.ty == 0 && t.ty == 0 => l.raw.extend_from_slice(&t.raw),
            _ => out.push(t.clone()),
        }
    }
    out
}

/// `safeCutTB tk L x r` of Proofs/FilterTotal.lean evaluated with the REAL tokenizer:
/// the hypothesis of Rio.C03.chunk_invariant_partial at one cut (L = last_buffer, x = chunk, r = all that follows)
pub fn safe_cut_sem(l: &[u8], x: &[u8], r: &[u8]) -> bool {
    let mut lx = l.to_vec();
    lx.extend_from_slice(x);
    let (a1, p1) = match utf8_split(&lx) {
        None => return true,
        Some(v) => v,
    };
    let (ts1, r1) = rtokenize(&a1);
    let (todo1, h1) = split_held(ts1);
    let mut tail = h1.clone();
    tail.extend_from_slice(&r1);
    if std::str::from_utf8(&tail).is_err() {
        return false;
    }
    let mut pr = p1.clone();
    pr.extend_from_slice(r);
    let (a2, _) = match utf8_split(&pr) {
        None => return true,
        Some(v) => v,
    };
    let mut whole = a1.clone();
    whole.extend_from_slice(&a2);
    let mut t2 = tail.clone();
    t2.extend_from_slice(&a2);
    let (ts2, r2) = rtokenize(&t2);
    let (tsw, rw) = rtokenize(&whole);
    let mut expect = todo1;
    expect.extend(ts2);
    norm_text(&tsw) == norm_text(&expect) && rw == r2
}

/// What `EncodeFilterBody::filter` returns for each write and `end()` at the end (a replica of
/// src/filter/encoding/encode.rs: same constructors and parameters, write_all + flush + take the buffer; finish).
pub fn encoder_outputs(enc: &str, writes: &[Vec<u8>]) -> Option<(Vec<Vec<u8>>, Vec<u8>)> {
    use std::io::Write;
    let mut outs = Vec::new();
    macro_rules! drive {
        ($e:expr, $finish:expr) => {{
            let mut e = $e;
            for w in writes {
                e.write_all(w).ok()?;
                e.flush().ok()?;
                let mut buf = Vec::new();
                std::mem::swap(&mut buf, e.get_mut());
                outs.push(buf);
            }
            let end: Vec<u8> = $finish(e)?;
            Some((outs, end))
        }};
    }
    match enc {
        "gzip" => drive!(flate2::write::GzEncoder::new(Vec::new(), flate2::Compression::default()), |mut e: flate2::write::GzEncoder<Vec<u8>>| {
            e.try_finish().ok()?;
            e.finish().ok()
        }),
        "deflate" => drive!(flate2::write::ZlibEncoder::new(Vec::new(), flate2::Compression::default()), |mut e: flate2::write::ZlibEncoder<Vec<u8>>| {
            e.try_finish().ok()?;
            e.finish().ok()
        }),
        "br" => drive!(brotli::CompressorWriter::new(Vec::new(), 4096, 11, 22), |e: brotli::CompressorWriter<Vec<u8>>| Some(e.into_inner())),
        _ => None,
    }
}

// ------------------------------------------------------------------------------------------------
// deterministic boundary families (emitted first in EVERY run of c03 / c04)
// ------------------------------------------------------------------------------------------------

pub struct BCase {
    pub body: Vec<u8>,
    pub filters: Vec<FSpec>,
    pub scheds: Vec<Vec<usize>>,
    pub shape: String,
}

pub const BOUNDARY_SIZES: &[usize] = &[1, 255, 256, 4095, 4096, 4097, 8191, 8192, 8193, 16384, 65536, 70000];

fn hf(a: &str, path: &[&str], sel: Option<&str>, v: &str) -> FSpec {
    FSpec::Html { action: a.to_string(), path: path.iter().map(|x| x.to_string()).collect(), sel: sel.map(|x| x.to_string()), value: v.to_string() }
}

/// LONG HELD TAILS: a chunk boundary N bytes inside (tag) an unfinished tag with a big attribute value, (text) a held
/// text containing '<', (mb) a multi-byte character preceded by N bytes of held tag — at top level, while the target
/// element is being buffered (replace / append+selector / prepend+selector) and with two html stages.
/// LONG BUFFERS: a 100 KiB target element, 1 000 sibling targets.
pub fn boundary_cases() -> Vec<BCase> {
    let mut out = held_tail_cases(BOUNDARY_SIZES);
    out.extend(big_target_cases(100 * 1024));
    out.extend(sibling_cases(1000));
    out
}

pub fn held_tail_cases(sizes: &[usize]) -> Vec<BCase> {
    let mut out = Vec::new();
    let filler = |n: usize| -> String {
        const AB: &[u8] = b"ABCDEFGHIJKLMNOPQRSTUVWXYZabcdefghijklmnopqrstuvwxyz0123456789+/";
        (0..n).map(|i| AB[(i * 7 + i / 64) % AB.len()] as char).collect()
    };
    let contexts: Vec<(&str, bool, Vec<FSpec>)> = vec![
        ("top", false, vec![hf("append_child", &["html", "body"], None, "<ins-0>v0</ins-0>")]),
        ("buffered-replace", true, vec![hf("replace", &["html", "body", "div"], None, "<ins-0>r</ins-0>")]),
        ("buffered-append-sel", true, vec![hf("append_child", &["html", "body", "div"], Some("rio-never"), "<ins-0>v0</ins-0>")]),
        ("buffered-prepend-sel", true, vec![hf("prepend_child", &["html", "body", "div"], Some("rio-never"), "<ins-0>v0</ins-0>")]),
        ("two-html", true, vec![hf("append_child", &["html", "body"], None, "<ins-0>v0</ins-0>"), hf("replace", &["html", "body", "div"], Some("*"), "<ins-1>r</ins-1>")]),
    ];
    for (si, &n) in sizes.iter().enumerate() {
        for kind in ["tag", "text", "mb"] {
            // the construct and the offset of the cut inside it
            let (construct, cut_in): (String, usize) = match kind {
                "tag" => {
                    let open = "<a href=\"data:text/plain;base64,";
                    let m = n.max(open.len() + 4) + 9;
                    (format!("{open}{}\">link</a>", filler(m - open.len())), n)
                }
                "text" => {
                    // "1 <" then n - 1 more bytes of text, then the cut
                    (format!("1 < {} z<b>t</b>", filler(n + 5)), 2 + n)
                }
                _ => {
                    let open = "<a title=\"";
                    let k = if si % 2 == 0 { 1 } else { 3 }; // cut after 1 or 3 bytes of the 4-byte character
                    (format!("{open}{}\u{1f600}\u{e9}\">t</a>", filler(n)), open.len() + n + k)
                }
            };
            for (cname, inside, filters) in &contexts {
                let (pre, post) = if *inside { ("<html><body><div class=t>x", "y</div><p>after</p></body></html>") } else { ("<html><body><p>intro</p>", "<div>d</div></body></html>") };
                let body = format!("{pre}{construct}{post}").into_bytes();
                let cut = pre.len() + cut_in;
                let scheds = vec![vec![cut], vec![cut, cut + 1], vec![cut - 1], vec![cut / 2, cut], vec![cut, body.len() - 3]];
                out.push(BCase { body, filters: filters.clone(), scheds, shape: format!("boundary:{kind}:{cname}") });
            }
        }
    }
    out
}

/// long buffered element (about `size` bytes) — few tokens, the buffer is what is long
pub fn big_target_cases(size: usize) -> Vec<BCase> {
    let mut out = Vec::new();
    let blob = "lorem ipsum dolor sit amet ";
    let mut inner = String::new();
    for i in 0..10 {
        inner.push_str(&format!("<b>{}</b>{}", blob.repeat((size / 10 / blob.len()).max(1)), if i % 3 == 0 { "\u{e9}<" } else { " " }));
    }
    let big = format!("<html><body><div id=t>{inner}</div><p>z</p></body></html>").into_bytes();
    for (cname, filters) in [
        ("replace", vec![hf("replace", &["html", "body", "div"], None, "<ins-0>r</ins-0>")]),
        ("append-sel-never", vec![hf("append_child", &["html", "body", "div"], Some("rio-never"), "<ins-0>v0</ins-0>")]),
        ("prepend-sel-always", vec![hf("prepend_child", &["html", "body", "div"], Some("*"), "<ins-0>v0</ins-0>")]),
        ("two-html", vec![hf("append_child", &["html", "body", "div"], Some("rio-never"), "<ins-0>v0</ins-0>"), hf("replace", &["html", "body", "p"], None, "<ins-1>r</ins-1>")]),
    ] {
        let len = big.len();
        let scheds = vec![vec![len / 2], (1..=(len - 1) / 4096).map(|i| i * 4096).collect(), vec![17, len - 20], (1..=(len - 1) / 8191).map(|i| i * 8191).collect()];
        out.push(BCase { body: big.clone(), filters, scheds, shape: format!("boundary:big-target:{cname}") });
    }
    out
}

/// `count` sibling targets
pub fn sibling_cases(count: usize) -> Vec<BCase> {
    let mut out = Vec::new();
    let mut sib = String::from("<html><body><ul>");
    for i in 0..count {
        sib.push_str(&format!("<li>{i}</li>"));
    }
    sib.push_str("</ul></body></html>");
    let sib = sib.into_bytes();
    for (cname, filters) in [
        ("replace", vec![hf("replace", &["html", "body", "ul", "li"], None, "<ins-0/>")]),
        ("replace-sel", vec![hf("replace", &["html", "body", "ul", "li"], Some("*"), "<ins-0/>")]),
        ("append", vec![hf("append_child", &["html", "body", "ul", "li"], None, "<ins-0/>")]),
        ("prepend-sel", vec![hf("prepend_child", &["html", "body", "ul", "li"], Some("rio-never"), "<ins-0/>")]),
    ] {
        let len = sib.len();
        let scheds = vec![vec![len / 2], (1..=(len - 1) / 7).map(|i| i * 7).collect(), (1..=(len - 1) / 4096).map(|i| i * 4096).collect()];
        out.push(BCase { body: sib.clone(), filters, scheds, shape: format!("boundary:siblings:{cname}") });
    }
    out
}

// ------------------------------------------------------------------------------------------------
// diff-directed hints (VERIF_HINTS): sizes and strings mentioned by a changed source line
// ------------------------------------------------------------------------------------------------

/// RAW-TEXT / WHITE-SPACE family (every run): for each of the ten raw-text element kinds, content that contains `<`, `</`,
/// partial end tags, comment openers and nested-looking elements (so the held-text loop of `filter` runs in a non-empty
/// tokenizer context) x end tags with white-space runs before `>` (all five HTML white-space bytes) and upper / mixed
/// case names x start tags with white space before `>`, with the filter's target ON the raw-text element, on its parent
/// and on a sibling; EVERY single cut, one byte at a time, strides 2 and 3.
pub fn rawtext_cases() -> Vec<BCase> {
    let mut v = Vec::new();
    let mut n = 0usize;
    for kind in RAW_TEXT {
        let upper = kind.to_uppercase();
        let mixed: String = kind.chars().enumerate().map(|(i, c)| if i % 2 == 0 { c.to_ascii_uppercase() } else { c }).collect();
        let partial = format!("</{}", &kind[..kind.len() - 1]);
        let nested = format!("<{kind}>in</{}", &kind[..kind.len() - 1]);
        let contents: Vec<String> = vec!["x<y".into(), "a</b".into(), "</x".into(), partial, "<!--".into(), nested, "<".into(), "\u{e9}<\u{1f600}".into(), "<p>$</p>".into()];
        let ends: Vec<String> = vec![
            format!("</{kind}>"),
            format!("</{kind} >"),
            format!("</{kind}\n>"),
            format!("</{upper}\t>"),
            format!("</{kind}\x0c\r>"),
            format!("</{mixed}  \n>"),
            format!("</{upper}>"),
        ];
        let starts: Vec<String> = vec![format!("<{kind}>"), format!("<{kind} a=b\n>"), format!("<{upper}\t>")];
        for (ci, c) in contents.iter().enumerate() {
            for (ei, e) in ends.iter().enumerate() {
                let st = &starts[(ci + ei) % starts.len()];
                let body = format!("<html><body><div>{st}{c}{e}<b>u</b></div><p>t</p></body></html>");
                let on = ["html", "body", "div", kind];
                let fl: Vec<FSpec> = match n % 7 {
                    0 => vec![hf("replace", &on, None, "\u{a7}R\u{a7}")],
                    1 => vec![hf("append_child", &on, None, "<ins>\u{a7}A</ins>")],
                    2 => vec![hf("prepend_child", &on, Some("rio-never"), "\u{a7}P\u{a7}")],
                    3 => vec![hf("replace", &["html", "body", "div"], Some("*"), "\u{a7}D\u{a7}")],
                    4 => vec![hf("prepend_child", &["html", "body", "p"], None, "\u{a7}S\u{a7}"), hf("append_child", &["html", "body", "div", "b"], None, "\u{a7}B\u{a7}")],
                    5 => vec![hf("replace", &[kind], Some(""), "\u{a7}K\u{a7}"), hf("append_child", &["html", "body", "div"], None, "\u{a7}2\u{a7}")],
                    _ => vec![hf("append_child", &["html", "body"], Some("rio-never"), "\u{a7}Y\u{a7}"), FSpec::Text { action: "append_text".to_string(), content: "\u{a7}T".to_string() }],
                };
                n += 1;
                let len = body.len();
                let mut scheds: Vec<Vec<usize>> = (1..len).map(|p| vec![p]).collect();
                scheds.push((1..len).collect());
                scheds.push((1..=(len - 1) / 2).map(|j| j * 2).collect());
                scheds.push((1..=(len - 1) / 3).map(|j| j * 3).collect());
                v.push(BCase { body: body.into_bytes(), filters: fl, scheds, shape: format!("rawtext-ws:{kind}") });
            }
        }
    }
    v
}

fn swapcase(s: &str) -> String {
    s.chars().map(|c| if c.is_ascii_uppercase() { c.to_ascii_lowercase() } else { c.to_ascii_uppercase() }).collect()
}

/// hint-directed html cases for c03 / c04 (emitted FIRST when the source differs from the baseline)
pub fn hint_cases_html(h: &rio_harness::Hints) -> Vec<BCase> {
    let mut out = Vec::new();
    let sizes = h.sizes(300_000);
    // held-tail lengths (unfinished tag, held text, pending bytes) at a chunk cut, in every context
    out.extend(held_tail_cases(&sizes));
    for &n in &sizes {
        // buffered-element size, number of sibling targets
        if n >= 64 {
            out.extend(big_target_cases(n));
        }
        if n <= 5000 {
            out.extend(sibling_cases(n));
        }
        // body size exactly n (text in a small document), chunk size / stride n, number of chunks n
        let skeleton = "<html><body><div>";
        let tail = "</div></body></html>";
        let textlen = n.saturating_sub(skeleton.len() + tail.len());
        let body = format!("{skeleton}{}{tail}", "t".repeat(textlen)).into_bytes();
        let fl = vec![hf("append_child", &["html", "body", "div"], Some("rio-never"), "<ins-0>v0</ins-0>")];
        if body.len() > 2 {
            let len = body.len();
            out.push(BCase { body: body.clone(), filters: fl.clone(), scheds: vec![vec![len / 2], vec![1], vec![len - 1], (1..len).step_by((len / 50).max(1)).collect()], shape: format!("hint:body-size:{n}") });
        }
        let big = format!("{skeleton}{}<p>x</p>{}{tail}", "a ".repeat(n), "b<".repeat(n / 2 + 1)).into_bytes();
        let len = big.len();
        out.push(BCase { body: big, filters: fl.clone(), scheds: vec![(1..=(len - 1) / n).map(|i| i * n).collect(), (1..=(len - 1) / (n + 1)).map(|i| i * (n + 1)).collect()], shape: format!("hint:stride:{n}") });
        if n <= 4000 {
            let b = format!("{skeleton}{}{tail}", "xy<z ".repeat(n / 5 + 2)).into_bytes();
            let cuts: Vec<usize> = (1..=n.min(b.len() - 1)).collect();
            out.push(BCase { body: b, filters: fl.clone(), scheds: vec![cuts], shape: format!("hint:chunks:{n}") });
        }
        if n <= 40 {
            // number of stages
            let fs: Vec<FSpec> = (0..n).map(|i| if i % 3 == 2 { FSpec::Text { action: "append_text".to_string(), content: format!("\u{a7}T{i}\u{a7}") } } else { hf("append_child", &["html", "body"], None, &format!("<ins-{i}/>")) }).collect();
            let b = format!("{skeleton}d{tail}").into_bytes();
            let len = b.len();
            out.push(BCase { body: b, filters: fs, scheds: (1..len).map(|p| vec![p]).collect(), shape: format!("hint:stages:{n}") });
        }
    }
    // strings / bytes: into text, attribute values, tag names and white space, filter values, element_tree names, selectors
    for s0 in &h.strs {
        for s in [s0.clone(), s0.to_uppercase(), s0.to_lowercase(), swapcase(s0)] {
            let name_ok = !s.is_empty() && s.chars().all(|c| c.is_ascii_alphanumeric() || c == '-');
            let el = if name_ok { format!("x{s}") } else { "div".to_string() };
            let body = format!("<html><body>{s}<{el} a=\"{s}\" b={s}{s}c='{s}'>{s}<p{s}>t{s}</p{s}></{el}>{s}<{s}></body></html>");
            let len = body.len();
            let scheds: Vec<Vec<usize>> = (1..len).map(|p| vec![p]).chain(std::iter::once((1..len).collect())).collect();
            let fsets: Vec<Vec<FSpec>> = vec![
                vec![hf("append_child", &["html", "body", &el.to_lowercase()], None, &format!("<ins-0>{s}</ins-0>\u{a7}"))],
                vec![hf("replace", &["html", "body", &el.to_lowercase()], Some(&(if name_ok { format!("rio-never{}", s.to_lowercase()) } else { "*".to_string() })), &format!("\u{a7}{s}\u{a7}R"))],
                vec![hf("prepend_child", &["html", "body", &el.to_lowercase(), "p"], Some("rio-never"), "<ins-0/>"), FSpec::Text { action: "append_text".to_string(), content: format!("\u{a7}{s}") }],
                vec![hf("append_child", &["html", &s], None, "<ins-0/>")],
            ];
            for fs in fsets {
                out.push(BCase { body: body.clone().into_bytes(), filters: fs, scheds: scheds.clone(), shape: "hint:str".to_string() });
            }
        }
    }
    out
}
